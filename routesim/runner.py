"""One simulated run: swarm configuration, history generator, scheduler,
delivery to the real controller, oracle calls.  Everything is decided by the
choice stream."""
import simbess
import simkernel
import loader
from oracle import Oracle
from simcore import Choices, Sim, LoopYield, HarnessError
from simkernel import Kernel, IFINDEX, IFACES, MANAGED, AF_INET, AF_INET6

PREFIX_POOL = [("10.1.0.0", 16), ("0.0.0.0", 0), ("10.1.0.0", 24), ("10.2.3.0", 24), ("192.168.7.128", 25)]  # two lengths of one network address on purpose
NH_POOL = ["172.16.1.1", "172.16.1.2", "172.16.1.3"]
NH_MAC = {"172.16.1.1": "02:aa:00:00:01:01", "172.16.1.2": "02:aa:00:00:02:02", "172.16.1.3": "02:aa:00:00:03:03"}
LAYOUTS = [("access", "access", "access"), ("access", "access", "core"),
           ("access", "core", "core"), ("core", "access", "core")]
MAX_STEPS_PER_DRAIN = 120
MAX_STEPS_PER_RUN = 1500

OP_WEIGHTS = [  # add, del, spont, tick, refresh, noise
    (10, 7, 5, 4, 2, 2),
    (14, 4, 4, 3, 1, 1),
    (8, 12, 4, 3, 1, 1),
    (8, 6, 9, 6, 4, 1),
]


class World:
    def __init__(self, module, choices, mutant=None):
        self.mod = module
        self.ch = choices
        self.sim = Sim(choices)
        self.mutant = mutant
        self.steps = 0
        self.handler_exc = {}
        self.state_hashes = set()
        self.flags = {"installed": False}
        self.ops = 0
        self.delivered = 0
        self.pingloops = 0
        self.pingloop_dead = False
        self.ended_quiescent = False

    # ------------------------------------------------------------------ config
    def draw_config(self):
        c = self.ch.choose
        cfg = {}
        cfg["profile"] = c(5, "swarm.profile")            # 0 = fault-free
        cfg["n_prefix"] = [5, 3, 2, 4, 5, 3][c(6, "swarm.n_prefix")]
        cfg["n_nh"] = [3, 2, 1, 3, 2, 3][c(6, "swarm.n_nh")]
        cfg["layout"] = c(len(LAYOUTS), "swarm.layout")
        cfg["max_ops"] = [25, 18, 12, 8, 5][c(5, "swarm.max_ops")]
        cfg["adv_n"] = [4, 1, 2, 6][c(4, "swarm.adv_n")]
        cfg["opw"] = c(len(OP_WEIGHTS), "swarm.opw")
        cfg["arp_delay_n"] = [5, 1, 3][c(3, "swarm.arp_delay_n")]
        cfg["n_init_routes"] = [0, 0, 1, 2][c(4, "swarm.init_routes")]
        cfg["init_neigh"] = c(2, "swarm.init_neigh")
        if cfg["profile"] == 0:
            cfg.update(view="events", rpc_n=0, rpc_budget=0, connect_fail=0, arp_fail_n=0,
                       failed_notify=0, lag=0, send_err_n=0, noise=0)
        else:
            cfg["view"] = ["events", "kernel"][c(2, "swarm.view")]
            cfg["rpc_n"] = [0, 3, 6, 12][c(4, "swarm.rpc_n")]
            cfg["rpc_budget"] = 1 + c(4, "swarm.rpc_budget")      # 1..4 < MAX_RETRIES (5)
            cfg["connect_fail"] = c(4, "swarm.connect_fail")       # 0..3 < MAX_RETRIES
            cfg["arp_fail_n"] = [0, 2, 3, 5][c(4, "swarm.arp_fail_n")]
            cfg["failed_notify"] = c(2, "swarm.failed_notify")
            cfg["lag"] = c(2, "swarm.lag")
            cfg["send_err_n"] = [0, 0, 8, 4][c(4, "swarm.send_err_n")]
            cfg["noise"] = c(2, "swarm.noise")
        self.cfg = cfg
        self.prefixes = PREFIX_POOL[:cfg["n_prefix"]]
        self.nhs = NH_POOL[:cfg["n_nh"]]
        self.nh_if = dict(zip(NH_POOL, LAYOUTS[cfg["layout"]]))

    # ------------------------------------------------------------------ startup
    def startup(self):
        sim, cfg = self.sim, self.cfg
        kcfg = dict(cfg)
        self.k = k = Kernel(sim, kcfg)
        sim.kernel_cb = k.timer
        for nh in NH_POOL:
            k.truth_mac[nh] = (NH_MAC[nh], IFINDEX[self.nh_if[nh]])
        self.b = b = simbess.BessServer(sim, MANAGED)
        simbess.CURRENT = b
        simkernel.CURRENT_KERNEL = k
        loader.bind(sim)
        self.orc = Oracle(k, b)
        c = self.ch.choose
        # initial kernel state (before the controller starts)
        if cfg["init_neigh"]:
            for nh in self.nhs:
                if c(2, "init.neigh") == 1:
                    k.neigh[nh] = {"state": 2, "mac": NH_MAC[nh], "ifindex": IFINDEX[self.nh_if[nh]]}
                    k.ndb_neigh[nh] = dict(k.neigh[nh])
                    self.orc.macs[nh] = NH_MAC[nh]
                    sim.sk("init-neigh", nh)
        for i in range(cfg["n_init_routes"]):
            free = [p for p in self.prefixes if p not in k.routes]
            if not free:
                break
            p = free[c(len(free), "init.prefix")]
            nh = self.nhs[c(len(self.nhs), "init.nh")]
            k.add_route(p[0], p[1], nh, IFINDEX[self.nh_if[nh]], notify=False)
            sim.sk("init-route", p, nh)
            sim.ev("init-route", p, nh, self.nh_if[nh])
        b.connect_failures_left = cfg["connect_fail"]
        m = self.mod
        try:
            bc = m.BessController("localhost", "10514")
            ndb = simkernel.NDB()
            ipr = simkernel.IPRoute()
            self.ndb = ndb
            self.rc = rc = m.RouteController(bess_controller=bc, ndb=ndb, ipr=ipr, interfaces=list(MANAGED))
            if self.mutant:
                self.mutant(m, rc, bc)
            for (p, l), r in k.routes.items():
                self.orc.told_newroute(IFACES[r["oif"]], p, l, r["nh"], k.view_mac(r["nh"]) is not None)
            sim.in_handler = True
            rc.bootstrap_routes()
            sim.in_handler = False
            rc.register_handlers()
            rc.start_pinging_missing_entries()
        except LoopYield:
            raise HarnessError("ping loop body ran outside the simulated thread")
        except Exception as e:
            raise HarnessError("controller start-up raised %r" % (e,))
        finally:
            sim.in_handler = False
        self.threads = list(loader.SimThread.started)
        for t in self.threads:
            sim.at_ctl(sim.now, "pingloop", t)
        k.startup = False
        k.unlocked_dump_hook = self.dump_gap
        b.fault_rate_n = cfg["rpc_n"]
        b.fault_budget = cfg["rpc_budget"]
        self.after_event("startup")

    # ------------------------------------------------------------------ scheduler
    # ------------------------------------------------------------------ two threads
    GAP_SLEEPS = [0.0, 0.0, 0.4, 3.0]

    def dump_gap(self):
        """Called from ndb.neighbours.dump().  Netlink handlers run on NDB's thread,
        the ping loop on a thread of its own; what keeps them apart is the
        controller's lock.  While a handler holds it nothing else can run and the
        handler is atomic.  A handler that reads the neighbour table WITHOUT the
        lock can be descheduled right after the read: the kernel goes on (ARP
        replies arrive) and the other thread handles every netlink event that is
        due, to completion; then the first one continues with its stale snapshot.
        Whether and for how long is a recorded choice (0 = nothing happens)."""
        sim, k = self.sim, self.k
        if getattr(self, "in_gap", False) or not sim.in_handler or k.startup:
            return
        lock = getattr(self.rc, "_lock", None)
        if lock is None or not hasattr(lock, "locked") or lock.locked():
            return
        self.unlocked_dumps = getattr(self, "unlocked_dumps", 0) + 1
        c = self.ch.choose(len(self.GAP_SLEEPS), "gap")
        if c == 0:
            return
        import heapq
        self.in_gap = True
        sim.ev("gap", c)
        sim.sk("gap", c)
        try:
            d = self.GAP_SLEEPS[c]
            if d:
                sim.sleep(d)
            n = 0
            while sim.cheap and sim.cheap[0][0] <= sim.now and sim.cheap[0][2] == "nl" and n < 16:
                _, _, _, data = heapq.heappop(sim.cheap)
                n += 1
                self.deliver(*data)
                sim.in_handler = True      # (deliver cleared it: we are still inside the outer handler)
            if n:
                self.gap_deliveries = getattr(self, "gap_deliveries", 0) + n
        finally:
            self.in_gap = False
            sim.in_handler = True

    def after_event(self, what):
        if getattr(self, "in_gap", False):
            return      # the outer handler has not finished: nothing to judge yet
        if self.b.unsupported:
            raise HarnessError("code under test called unmodelled BESS RPC(s): %s" % sorted(set(self.b.unsupported)))
        self.orc.observe()
        self.state_hashes.add(self.orc.state_hash())
        if self.k.quiescent():
            try:
                self.orc.check(len(self.sim.skel))
            except HarnessError:
                raise
            except Exception as e:
                raise HarnessError("internal oracle error: %r" % (e,))

    def step(self, force_pingloop=False):
        """Process the earliest pending item.  Returns its kind or None."""
        sim, k = self.sim, self.k
        if not force_pingloop and k.quiescent():
            return None
        self.steps += 1
        if self.steps > MAX_STEPS_PER_RUN:
            raise HarnessError("watchdog: more than %d scheduler steps in one run" % MAX_STEPS_PER_RUN)
        kt = sim.kheap[0][:2] if sim.kheap else None
        ct = sim.cheap[0][:2] if sim.cheap else None
        if kt is None and ct is None:
            return None
        import heapq
        if ct is None or (kt is not None and kt <= ct):
            t, _, kind, data = heapq.heappop(sim.kheap)
            if t > sim.now:
                sim.now = t
            k.timer(kind, data)
            return kind
        t, _, kind, data = heapq.heappop(sim.cheap)
        if t > sim.now:
            sim.now = t
        if kind == "nl":
            self.deliver(*data)
        else:
            self.run_pingloop(data)
        return kind

    def drain(self):
        n = 0
        while n < MAX_STEPS_PER_DRAIN and self.step() is not None:
            n += 1

    def tick(self):
        """Advance the clock to the next ping-loop iteration and run it."""
        n = 0
        while n < MAX_STEPS_PER_DRAIN:
            n += 1
            kind = self.step(force_pingloop=True)
            if kind is None or kind == "pingloop":
                break

    def deliver(self, msg, tag):
        sim, k, orc = self.sim, self.k, self.orc
        k.queue_len -= 1
        k.ndb_apply(msg)                       # NDB loads the event before user handlers run
        sim.ev("deliver", tag)
        sim.sk("deliver", tag)
        self.delivered += 1
        ev = tag[0]
        if ev in ("RTM_NEWROUTE", "RTM_DELROUTE"):
            _, prefix, plen, nh, ifn = tag
            if nh in k.truth_mac and ifn in MANAGED and msg["family"] == AF_INET:
                if ev == "RTM_NEWROUTE":
                    orc.told_newroute(ifn, prefix, plen, nh, k.view_mac(nh) is not None)
                else:
                    orc.told_delroute(ifn, prefix, plen, nh)
        elif ev == "RTM_NEWNEIGH" and tag[1] in k.truth_mac:
            orc.told_newneigh(tag[1], tag[2])
        sim.in_handler = True
        try:
            for h in list(self.ndb.task_manager.handlers.get(type(msg), [])):
                try:
                    h("localhost", msg)
                except LoopYield:
                    raise HarnessError("LoopYield escaped from a netlink handler")
                except Exception as e:   # NDB's task manager logs and carries on
                    name = type(e).__name__
                    self.handler_exc[name] = self.handler_exc.get(name, 0) + 1
                    sim.ev("handler-exception", name)
        finally:
            sim.in_handler = False
        if ev == "RTM_NEWNEIGH":
            orc.after_newneigh()
        elif ev == "RTM_DELROUTE":
            orc.after_delroute()
        self.after_event("deliver")

    def run_pingloop(self, thread):
        sim = self.sim
        if self.pingloop_dead:
            return
        self.pingloops += 1
        sim.ev("pingloop")
        sim.sk("pingloop")
        sim.in_pingloop = True
        try:
            thread.target(*thread.args, **thread.kwargs)
            self.pingloop_dead = True            # the loop returned: thread ended
        except LoopYield as y:
            sim.at_ctl(sim.now + float(y.args[0]), "pingloop", thread)
        except Exception as e:
            self.pingloop_dead = True
            sim.ev("pingloop-died", type(e).__name__)
        finally:
            sim.in_pingloop = False
        self.after_event("pingloop")

    # ------------------------------------------------------------------ generator
    def gen_op(self):
        k, ch = self.k, self.ch
        w_add, w_del, w_spont, w_tick, w_ref, w_noise = OP_WEIGHTS[self.cfg["opw"]]
        nroutes = {}
        for key, r in k.routes.items():
            if r["nh"] in k.truth_mac:
                nroutes[r["nh"]] = nroutes.get(r["nh"], 0) + 1
        unresolved = [nh for nh in self.nhs if k.mac_known(nh) is None]
        cands = [(1, ("stop",))]
        free = [p for p in self.prefixes if p not in k.routes]
        if free:
            cands.append((w_add, ("add",)))
        mine = [(key, r) for key, r in k.routes.items() if key in self.prefixes and r["nh"] in k.truth_mac]
        if mine:
            cands.append((w_del, ("del",)))
        if unresolved:
            boost = 3 if any(nroutes.get(nh) for nh in unresolved) else 1
            cands.append((w_spont * boost, ("spont",)))
            cands.append((w_tick * boost, ("tick",)))
        else:
            cands.append((1, ("tick",)))
        resolved = [nh for nh in self.nhs if k.mac_known(nh)]
        if resolved:
            cands.append((w_ref, ("refresh",)))
        if self.cfg["noise"]:
            cands.append((w_noise, ("noise",)))
        op = cands[ch.weighted([w for w, _ in cands], "op")][1][0]
        if op == "stop":
            return None
        if op == "add":
            p = free[ch.choose(len(free), "add.prefix")]
            ws = [(4 if (nh in unresolved and nroutes.get(nh)) else 2 if nroutes.get(nh) else 1) for nh in self.nhs]
            nh = self.nhs[ch.weighted(ws, "add.nh")]
            return ("add", p, nh)
        if op == "del":
            ws = [(3 if r["nh"] in unresolved else 2 if nroutes.get(r["nh"]) == 1 else 1) for _, r in mine]
            key, r = mine[ch.weighted(ws, "del.route")]
            return ("del", key)
        if op == "spont":
            ws = [(3 if nroutes.get(nh) else 1) for nh in unresolved]
            return ("spont", unresolved[ch.weighted(ws, "spont.nh")])
        if op == "refresh":
            return ("refresh", resolved[ch.choose(len(resolved), "refresh.nh")])
        if op == "noise":
            return ("noise", ch.choose(4, "noise.kind"))
        return ("tick",)

    def apply(self, op):
        k, sim = self.k, self.sim
        sim.sk(*op)
        sim.ev("op", op)
        kind = op[0]
        if kind == "add":
            _, (p, l), nh = op
            k.add_route(p, l, nh, IFINDEX[self.nh_if[nh]])
        elif kind == "del":
            k.del_route(*op[1])
        elif kind == "spont":
            k.resolve_now(op[1], "other-traffic")
        elif kind == "refresh":
            k.refresh(op[1])
        elif kind == "tick":
            self.tick()
        elif kind == "noise":
            n = op[1]
            if n == 0:      # connected route (no gateway) on a managed interface
                key = ("172.16.9.0", 24)
                if key in k.routes:
                    k.del_route(*key)
                else:
                    k.add_route(key[0], key[1], None, IFINDEX["access"])
            elif n == 1:    # gateway route on an interface the controller does not manage
                key = ("10.9.0.0", 16)
                if key in k.routes:
                    k.del_route(*key)
                else:
                    k.add_route(key[0], key[1], "172.31.0.1", IFINDEX["eth0"])
            elif n == 2:    # IPv6 route
                key = ("fd00:9::", 64)
                if key in k.routes:
                    k.del_route(*key)
                else:
                    k.add_route(key[0], key[1], "fe80::1", IFINDEX["core"], family=AF_INET6)
            else:           # neighbour event for an address nobody routes through
                k.emit(simkernel.neigh_msg("RTM_NEWNEIGH", "172.31.0.9", "02:42:ac:1f:00:09", 1, 2),
                       ("RTM_NEWNEIGH", "172.31.0.9", "02:42:ac:1f:00:09"))

    # ------------------------------------------------------------------ run
    def run(self):
        self.draw_config()
        self.startup()
        adv_n = self.cfg["adv_n"]
        while self.ops < self.cfg["max_ops"]:
            op = self.gen_op()
            if op is None:
                break
            self.ops += 1
            self.apply(op)
            a = self.ch.choose(adv_n, "advance")
            if a == 0:
                self.drain()
            else:
                for _ in range(a - 1):
                    if self.step() is None:
                        break
        self.drain()
        self.ended_quiescent = self.k.quiescent()
        if self.b.paused:
            self.orc.probe("idle_while_workers_paused")
        return self.result()

    def result(self):
        sim, k, b, orc = self.sim, self.k, self.b, self.orc
        installed = any(name == "run_module_command" and args[1] == "add" and out == "ok"
                        for (_, name, args, out) in b.rpcs)
        p = orc.probes
        nontrivial = installed and bool(
            p.get("route_waited_for_neighbour") or p.get("delete_unresolved_route")
            or p.get("two_routes_one_unresolved_nexthop") or p.get("second_route_on_resolved_nexthop")
            or b.fired)
        faults = {}
        if b.fired:
            faults["rpc_error"] = b.fired
        if k.arp_fail_fired:
            faults["arp_no_answer"] = k.arp_fail_fired
        if k.failed_notify_fired:
            faults["neigh_failed_notify"] = k.failed_notify_fired
        if k.lag_fired:
            faults["netlink_lag"] = k.lag_fired
        if k.send_errors_fired:
            faults["ping_send_error"] = k.send_errors_fired
        probes = dict(p)
        if b.retried_ok:
            probes["rpc_error_retried"] = b.retried_ok
        for n, c in self.handler_exc.items():
            probes["handler_exception_" + n] = c
        if self.pingloop_dead:
            probes["pingloop_died"] = 1
        if not self.ended_quiescent:
            probes["ended_nonquiescent"] = 1
        if self.cfg["view"] == "kernel":
            probes["view_kernel_ahead_of_events"] = 1
        if self.cfg["profile"] == 0:
            probes["fault_free_profile"] = 1
        return {
            "choices": list(self.ch.rec),
            "log_hash": sim.log_hash(),
            "skel_hash": sim.skel_hash(),
            "violations": orc.violations,
            "signatures": sorted({v["signature"] for v in orc.violations}),
            "nontrivial": nontrivial,
            "installed": installed,
            "sim_seconds": sim.now,
            "faults": faults,
            "probes": probes,
            "state_hashes": self.state_hashes,
            "checks": orc.checks,
            "events": self.delivered + self.pingloops,
            "ops": self.ops,
            "cfg": self.cfg,
        }


def execute(module, seed=None, choices=None, mutant=None, keep_world=False):
    """Run once.  seed -> generate; choices -> replay (then zeros)."""
    ch = Choices(seed=seed, prefix=choices)
    w = World(module, ch, mutant=mutant)
    try:
        res = w.run()
    finally:
        simbess.CURRENT = None
        simkernel.CURRENT_KERNEL = None
    if keep_world:
        res["world"] = w
    return res


def render_history(world, rpcs=False):
    """Human-readable event list of a finished run (for samples and replays)."""
    out = []
    for e in world.sim.log:
        t, kind = e[0], e[1]
        if kind == "op":
            op = e[2]
            if op[0] == "add":
                out.append("t=%.3f kernel: ip route add %s/%d via %s dev %s" % (t, op[1][0], op[1][1], op[2], world.nh_if[op[2]]))
            elif op[0] == "del":
                out.append("t=%.3f kernel: ip route del %s/%d" % (t, op[1][0], op[1][1]))
            elif op[0] == "spont":
                out.append("t=%.3f kernel: neighbour %s learnt from other traffic" % (t, op[1]))
            elif op[0] == "refresh":
                out.append("t=%.3f kernel: neighbour %s state refresh" % (t, op[1]))
            elif op[0] == "tick":
                out.append("t=%.3f (advance to next ping-loop iteration)" % t)
            else:
                out.append("t=%.3f kernel: noise op %r" % (t, op[1:]))
        elif kind == "init-route":
            out.append("t=%.3f initial kernel route %s/%d via %s dev %s" % (t, e[2][0], e[2][1], e[3], e[4]))
        elif kind == "deliver":
            out.append("t=%.3f DELIVER %s" % (t, " ".join(str(x) for x in e[2])))
        elif kind == "emit" and e[3]:
            out.append("t=%.3f   fault: netlink delivery of %s lags %.3fs" % (t, e[2][0], e[3]))
        elif kind == "ping":
            out.append("t=%.3f   controller pings %s" % (t, e[2]))
        elif kind == "arp-start":
            out.append("t=%.3f   kernel ARP for %s: %s %s" % (t, e[2], e[3], e[4]))
        elif kind == "neigh":
            out.append("t=%.3f   kernel neighbour %s -> %s" % (t, e[2], e[3]))
        elif kind == "pingloop":
            out.append("t=%.3f PING-LOOP iteration" % t)
        elif kind == "sleep":
            out.append("t=%.3f   controller sleeps %.0fs (retry)" % (t, e[2]))
        elif kind in ("handler-exception", "ping-send-error", "pingloop-died"):
            out.append("t=%.3f   %s %s" % (t, kind, e[2]))
        elif kind == "rpc":
            if e[4].startswith("INJECTED"):
                out.append("t=%.3f   fault: BESS RPC %s fails (transient)" % (t, e[2]))
            elif rpcs and e[2] not in ("pause_all", "resume_all"):
                out.append("t=%.3f   BESS %s%r -> %s" % (t, e[2], e[3], e[4]))
    return out
