"""Human descriptions for the signatures of genuine defects found so far
(used by --propose when writing PROPOSED_FINDINGS.jsonl)."""
WHAT = {
    "missing-route:waited-with-another-route-on-same-unresolved-nexthop":
        "route_control.py keeps ONE pending route per unresolved next hop (_unresolved_arp_queries_cache[next_hop_ip] = "
        "route_entry in _probe_addr): when two routes wait for the same next hop only the last is installed on "
        "RTM_NEWNEIGH, the earlier ones are never put into the lookup module although the kernel has them and the MAC is known",
    "stale-route:deleted-while-waiting-on-unresolved-nexthop-installed-on-resolution":
        "delete_route_entry ignores routes that are still waiting for ARP resolution (no _neighbor_cache entry -> 'Neighbor "
        "does not exist'), so the deleted route stays in _unresolved_arp_queries_cache and is installed in the lookup "
        "module, with a gate and an Update module, when RTM_NEWNEIGH arrives although the kernel no longer has it",
    "wrong-nexthop-mac:overwritten-by-route-deleted-while-waiting-on-unresolved-nexthop":
        "same defect as the stale pending route: a route deleted while unresolved and re-added through another next hop is "
        "overwritten in the lookup module when the first next hop resolves, so the live kernel route is forwarded to the "
        "old next hop's gate / MAC-rewrite module",
    "orphan-update-module:destroy-sent-for-nonexistent-module-name":
        "the Update (MAC-rewrite) module is created as <iface>DstMAC<mac> (get_update_module_name(route_entry.interface, ..)) "
        "but delete_route_entry asks BESS to destroy <iface>RoutesDstMAC<mac> (built from the route-module name): ENOENT five "
        "times, the module and its gate link stay after the last route through the next hop is deleted and the stale "
        "_neighbor_cache entry (route_count 0) is kept",
}
