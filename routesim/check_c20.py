#!/usr/bin/env python3
"""C20 - BESS route modules mirror the kernel's routes and neighbours.

Deterministic simulation with fault injection of /repo/conf/route_control.py
(the real file, imported by path at run time).  See README.md.

  check_c20.py --tier quick|thorough [--seed N] [--secs S] [--module-path F]
  check_c20.py --replay FILE
  check_c20.py --selftest | --mutants | --propose
Exit: 0 property held (known findings allowed) / 1 VIOLATION / 2 harness trouble.
"""
import argparse
import json
import multiprocessing
import os
import signal
import subprocess
import sys
import time
import traceback

sys.dont_write_bytecode = True   # never drop __pycache__ into /repo/conf (or anywhere)
HERE = os.path.dirname(os.path.abspath(__file__))
sys.path.insert(0, HERE)

import loader            # noqa: E402
import runner            # noqa: E402
import shrink as shrinker  # noqa: E402
from simcore import HarnessError, derive_seed, mix64, GAMMA, MASK64  # noqa: E402

PROP = "C20"
VERIF = os.path.dirname(HERE)
KNOWN = os.environ.get("VERIF_KNOWN_FINDINGS") or os.path.join(VERIF, "known_findings.jsonl")
OUTDIR = os.environ.get("VERIF_DIR") or VERIF   # evaluation of seeded changes writes elsewhere
REPLAYS = os.path.join(OUTDIR, "replays")
EVIDENCE = os.path.join(OUTDIR, "evidence", "C20.json")
QUICK_RUNS = 12000
QUICK_EXPLORE_CAP_S = 30.0
RECHECK_EVERY = 50
FAULT_FREE_EVERY = 5
SET_CAP = 400000

ASSUMPTIONS = [
    "pyroute2 NDB calls user handlers one at a time, in kernel emission order (one netlink socket), after loading the "
    "event into its own database; exceptions escaping a handler are logged and swallowed by NDB's task manager",
    "ndb.neighbours.dump() shows either NDB's copy (in step with delivered events) or the kernel table (ahead of the "
    "event stream); it is never behind the events already delivered",
    "netlink handlers and the ping loop's critical section are atomic (they run under RouteController._lock); the "
    "pings themselves touch no controller state",
    "bessd semantics modelled from BESS sources: EEXIST on duplicate create_module, ENOENT for unknown module names, "
    "EBUSY on an already connected ogate, EINVAL when deleting an absent LPM rule, destroy_module drops the module's links",
    "the pipeline built by conf/ports.py exists before the controller starts: <if>Routes (IPLookup with 0.0.0.0/0 -> "
    "gate 8191 -> <if>bad_route Sink), <if>Merge, <if>SrcEther; that sink default is not counted as an installed route",
    "transient BESS RPC errors hit only calls the controller retries (not resume_all in its finally blocks), fewer than "
    "MAX_RETRIES in a row, and the failed request was not applied",
    "each next-hop address lives on one managed interface and keeps one MAC; neighbours are never deleted or changed "
    "(no RTM_DELNEIGH); at most one kernel route per prefix at a time; no route replace (NLM_F_REPLACE)",
    "no netlink event falls between bootstrap_routes() and register_handlers() (start-up is one atomic step)",
    "judged only at quiescent points: nothing queued for delivery and no ARP attempt in flight",
]
COMPONENTS = {
    "real": ["conf/route_control.py: RouteController (handlers, bootstrap, ping loop body, caches), BessController "
             "(retry loops), message parsing, helpers - imported unmodified by path",
             "Python logging/dataclasses/threading.Lock as used by the module"],
    "simulated": ["pyroute2 (NDB, IPRoute, rtmsg, ndmsg, task manager dispatch)", "pybess.bess.BESS client + bessd module graph",
                  "scapy.all (IP, ICMP, send)", "Linux kernel: main routing table, neighbour table/ARP, netlink multicast",
                  "time.sleep / time.time (virtual clock)", "threading.Thread (ping loop run as a periodic simulated event)"],
}
RULE = ("each run = one integer -> one choice stream -> swarm configuration (fault kinds/rates, universe size <=4 prefixes x "
        "<=3 next hops x 2 interfaces, <=25 kernel operations, delivery lag, neighbour view) + a history of ip-route add/del, "
        "neighbour learn/refresh, ping-loop ticks and noise, biased towards several routes on one unresolved next hop, deletes "
        "of unresolved routes and delete-all-then-re-add; one run in %d is forced fault-free. A run is NON-TRIVIAL when it "
        "installed >=1 route in a lookup module AND had >=1 of {route that waited for neighbour resolution, delete of an "
        "unresolved route, >=2 routes on one next hop, injected BESS RPC error}; DISTINCT = distinct 64-bit hash of the event "
        "skeleton (kernel ops, deliveries, ping-loop runs, fired faults with their subjects; no timestamps, no RPC detail). "
        "distinct_nontrivial is an exact count while the per-process hash sets stay under %d entries; beyond that the sets are "
        "down-sampled by hash prefix and the reported number is the exact count of the retained sample (a lower bound; "
        "see distinct_sampling_level)." % (FAULT_FREE_EVERY, SET_CAP))


# --------------------------------------------------------------------------- helpers
def run_seed_for(base, idx):
    """Per-run seed via splitmix64; every FAULT_FREE_EVERY-th run gets a seed
    whose first draw selects the fault-free profile (still just one integer)."""
    if idx % FAULT_FREE_EVERY != 0:
        return derive_seed(base, idx)
    salt = 0
    while True:
        s = derive_seed(base, idx, salt)
        if mix64((s + GAMMA) & MASK64) % 5 == 0:
            return s
        salt += 1


class SampledSet:
    def __init__(self, cap=SET_CAP):
        self.level = 0
        self.items = set()
        self.cap = cap

    def add(self, h):
        if h & ((1 << self.level) - 1) == 0:
            self.items.add(h)
            if len(self.items) > self.cap:
                self.raise_level(self.level + 1)

    def raise_level(self, lv):
        if lv > self.level:
            self.level = lv
            m = (1 << lv) - 1
            self.items = {x for x in self.items if x & m == 0}

    def merge(self, other):
        lv = max(self.level, other.level)
        self.raise_level(lv)
        m = (1 << lv) - 1
        for x in other.items:
            if x & m == 0:
                self.items.add(x)
        while len(self.items) > self.cap * 4:
            self.raise_level(self.level + 1)


def load_known():
    open_, fixed = {}, {}
    if os.path.exists(KNOWN):
        with open(KNOWN) as f:
            for ln, line in enumerate(f, 1):
                line = line.strip()
                if not line:
                    continue
                try:
                    e = json.loads(line)
                except ValueError as ex:
                    raise HarnessError("known_findings.jsonl line %d is not JSON: %s" % (ln, ex))
                if e.get("property") != PROP:
                    continue
                (open_ if e.get("status") == "open" else fixed)[e.get("signature")] = e
    return open_, fixed


def _alarm(signum, frame):
    raise HarnessError("watchdog: a single simulated run exceeded its wall-clock limit")


# --------------------------------------------------------------------------- worker
def worker(job):
    (wid, nworkers, base, module_path, max_runs, deadline, want_samples) = job
    out = {"wid": wid, "runs": 0, "nontrivial": 0, "skel": SampledSet(), "states": SampledSet(), "faults": {}, "probes": {},
           "sim_seconds": 0.0, "sigs": {}, "samples": [], "recheck_runs": 0, "recheck_mismatch": 0, "error": None,
           "events": 0, "checks": 0, "ff_runs": 0, "violating_runs": 0}
    try:
        mod, sha = loader.load(module_path)
        signal.signal(signal.SIGALRM, _alarm)
        idx = wid
        while True:
            if max_runs is not None and idx >= max_runs:
                break
            if (out["runs"] & 15) == 0 and time.time() >= deadline:
                break
            signal.alarm(30)
            seed = run_seed_for(base, idx)
            r = runner.execute(mod, seed=seed, keep_world=want_samples and len(out["samples"]) < 4)
            out["runs"] += 1
            out["events"] += r["events"]
            out["checks"] += r["checks"]
            out["sim_seconds"] += r["sim_seconds"]
            if r["cfg"]["profile"] == 0:
                out["ff_runs"] += 1
            for k, v in r["faults"].items():
                out["faults"][k] = out["faults"].get(k, 0) + v
            for k, v in r["probes"].items():
                out["probes"][k] = out["probes"].get(k, 0) + v
            for h in r["state_hashes"]:
                out["states"].add(h)
            if r["nontrivial"]:
                out["nontrivial"] += 1
                out["skel"].add(r["skel_hash"])
                if "world" in r and len(out["samples"]) < 4:
                    out["samples"].append({"run_index": idx, "run_seed": seed,
                                           "config": {k: v for k, v in r["cfg"].items()},
                                           "faults_fired": r["faults"],
                                           "violation_signatures": r["signatures"],
                                           "events": runner.render_history(r["world"])})
            if r["signatures"]:
                out["violating_runs"] += 1
            for s in r["signatures"]:
                e = out["sigs"].get(s)
                if e is None:
                    out["sigs"][s] = {"count": 1, "idx": idx, "seed": seed, "choices": r["choices"]}
                else:
                    e["count"] += 1
                    if len(r["choices"]) < len(e["choices"]):
                        e.update(idx=idx, seed=seed, choices=r["choices"])
            if out["runs"] % RECHECK_EVERY == 0:
                r2 = runner.execute(mod, seed=seed)
                out["recheck_runs"] += 1
                if r2["log_hash"] != r["log_hash"] or r2["signatures"] != r["signatures"]:
                    out["recheck_mismatch"] += 1
            idx += nworkers
        signal.alarm(0)
    except HarnessError as e:
        out["error"] = "harness: %s" % e
    except BaseException as e:  # noqa
        out["error"] = "unexpected %s: %s\n%s" % (type(e).__name__, e, traceback.format_exc())
    finally:
        try:
            signal.alarm(0)
        except Exception:
            pass
    return out


def explore(base, module_path, nworkers, max_runs, secs, want_samples=True):
    deadline = time.time() + secs
    jobs = [(w, nworkers, base, module_path, max_runs, deadline, want_samples and w == 0) for w in range(nworkers)]
    if nworkers == 1:
        return [worker(jobs[0])]
    ctx = multiprocessing.get_context("fork")
    with ctx.Pool(nworkers) as pool:
        return pool.map(worker, jobs, chunksize=1)


def merge(parts):
    tot = {"runs": 0, "nontrivial": 0, "skel": SampledSet(), "states": SampledSet(), "faults": {}, "probes": {},
           "sim_seconds": 0.0, "sigs": {}, "samples": [], "recheck_runs": 0, "recheck_mismatch": 0, "errors": [],
           "events": 0, "checks": 0, "ff_runs": 0, "violating_runs": 0}
    for p in parts:
        for k in ("runs", "nontrivial", "sim_seconds", "recheck_runs", "recheck_mismatch", "events", "checks", "ff_runs",
                  "violating_runs"):
            tot[k] += p[k]
        tot["skel"].merge(p["skel"])
        tot["states"].merge(p["states"])
        for k, v in p["faults"].items():
            tot["faults"][k] = tot["faults"].get(k, 0) + v
        for k, v in p["probes"].items():
            tot["probes"][k] = tot["probes"].get(k, 0) + v
        tot["samples"].extend(p["samples"])
        if p["error"]:
            tot["errors"].append("worker %d: %s" % (p["wid"], p["error"]))
        for s, e in p["sigs"].items():
            t = tot["sigs"].get(s)
            if t is None:
                tot["sigs"][s] = dict(e)
            else:
                t["count"] += e["count"]
                if (len(e["choices"]), e["idx"]) < (len(t["choices"]), t["idx"]):
                    t.update(idx=e["idx"], seed=e["seed"], choices=e["choices"])
    return tot


# --------------------------------------------------------------------------- replay files
def make_replay(mod, sha, module_path, base, sig, entry, choices):
    r = runner.execute(mod, choices=choices, keep_world=True)
    if sig not in r["signatures"]:
        raise HarnessError("nondeterminism: minimised trace lost signature %s when re-executed" % sig)
    eff = r["choices"]
    return {
        "property": PROP, "signature": sig, "base_seed": base, "run_index": entry["idx"], "run_seed": entry["seed"],
        "choices": eff, "event_log_hash": r["log_hash"], "module_path": module_path, "module_sha256": sha,
        "all_signatures_in_this_run": r["signatures"],
        "violations": [v for v in r["violations"]],
        "config": r["cfg"],
        "history": runner.render_history(r["world"], rpcs=True),
    }


def write_replay(rep, directory, name=None):
    # /verif/replays is shared with the other checks: this check only ever
    # creates/overwrites files named C20-*.json there and never deletes anything.
    os.makedirs(directory, exist_ok=True)
    if name is None:
        name = "%s-%d-%s.json" % (PROP, rep["base_seed"], rep["event_log_hash"][:12])
    if not name.startswith(PROP + "-") or os.sep in name:
        raise HarnessError("refusing to write a replay file not named %s-*: %r" % (PROP, name))
    path = os.path.join(directory, name)
    with open(path, "w") as f:
        json.dump(rep, f, indent=1, sort_keys=True)
        f.write("\n")
    return os.path.abspath(path)


def do_replay(path, module_path_override):
    try:
        with open(path) as f:
            rep = json.load(f)
    except Exception as e:
        print("cannot read replay file %s: %s" % (path, e))
        return 2
    module_path = module_path_override or loader.DEFAULT_MODULE_PATH
    mod, sha = loader.load(module_path)
    r = runner.execute(mod, choices=rep["choices"], keep_world=True)
    same_hash = r["log_hash"] == rep["event_log_hash"]
    has_sig = rep["signature"] in r["signatures"]
    print("replay %s: module=%s sha256=%s%s" % (os.path.basename(path), module_path, sha[:12],
                                               "" if sha == rep.get("module_sha256") else " (differs from the recorded module)"))
    for line in runner.render_history(r["world"], rpcs=True):
        print("  " + line)
    for v in r["violations"]:
        print("  >> %s @event %s: %s" % (v["signature"], v["event"], v["detail"]))
    print("signature %s: %s; event-log hash: %s" % (rep["signature"], "reproduced" if has_sig else "ABSENT",
                                                    "same" if same_hash else "DIFFERENT"))
    if has_sig and same_hash:
        print("VIOLATION property=%s replay=%s" % (PROP, os.path.abspath(path)))
        return 1
    print("NOT-REPRODUCED property=%s replay=%s" % (PROP, os.path.abspath(path)))
    return 2


def verify_in_subprocess(path, module_path):
    cmd = [sys.executable, os.path.abspath(__file__), "--replay", path, "--module-path", module_path]
    env = dict(os.environ)
    env["PYTHONHASHSEED"] = "7"
    p = subprocess.run(cmd, stdout=subprocess.PIPE, stderr=subprocess.PIPE, env=env, timeout=120)
    return p.returncode == 1 and ("VIOLATION property=%s replay=%s" % (PROP, path)).encode() in p.stdout


# --------------------------------------------------------------------------- tiers
def run_tier(tier, base, secs, module_path, nworkers, max_runs):
    t0 = time.time()
    known_open, known_fixed = load_known()
    mod, sha = loader.load(module_path)
    if tier == "quick":
        explore_secs = QUICK_EXPLORE_CAP_S if secs is None else min(secs, QUICK_EXPLORE_CAP_S)
        runs_cap = max_runs if max_runs is not None else QUICK_RUNS
        shrink_budget_s, shrink_execs = 12.0, 1200
    else:
        explore_secs = max(5.0, secs * 0.85)
        runs_cap = max_runs
        shrink_budget_s, shrink_execs = max(10.0, secs * 0.10), 4000
    parts = explore(base, module_path, nworkers, runs_cap, explore_secs)
    tot = merge(parts)
    explore_wall = time.time() - t0
    rc = 0
    problems = list(tot["errors"])
    if tot["recheck_mismatch"]:
        problems.append("nondeterminism: %d of %d re-executed runs gave a different event-log hash"
                        % (tot["recheck_mismatch"], tot["recheck_runs"]))
    known_seen, unlisted = [], []
    for sig in sorted(tot["sigs"]):
        if sig in known_open:
            known_seen.append(sig)
            print("KNOWN-FINDING: property=%s %s" % (PROP, known_open[sig].get("what", sig)))
        else:
            unlisted.append(sig)
    replays = []
    if unlisted and not problems:
        per_sig = shrink_budget_s / len(unlisted)
        for sig in unlisted:
            e = tot["sigs"][sig]
            t_end = time.time() + per_sig
            try:
                best, n = shrinker.shrink(mod, e["choices"], sig, max_execs=shrink_execs,
                                          expired=lambda: time.time() > t_end)
                rep = make_replay(mod, sha, module_path, base, sig, e, best)
                rep["shrink_executions"] = n
                if sig in known_fixed:
                    rep["note"] = "signature is listed as FIXED in known_findings.jsonl: regression"
                path = write_replay(rep, REPLAYS)
                if not verify_in_subprocess(path, module_path):
                    problems.append("nondeterminism: %s did not reproduce signature %s with the same event-log hash in a "
                                    "fresh process" % (path, sig))
                    continue
                replays.append((sig, path))
            except HarnessError as ex:
                problems.append("while minimising %s: %s" % (sig, ex))
    for sig, path in replays:
        print("VIOLATION property=%s replay=%s" % (PROP, path))
        print("  signature=%s (seen in %d runs)" % (sig, tot["sigs"][sig]["count"]))
    if replays:
        rc = 1
    if problems:
        rc = 2
        for p in problems:
            print("HARNESS-TROUBLE: " + p)
    wall = time.time() - t0
    cov = {
        "evaluations": tot["runs"],
        "distinct_nontrivial": len(tot["skel"].items),
        "distinct_sampling_level": tot["skel"].level,
        "distinct_nontrivial_estimate": len(tot["skel"].items) << tot["skel"].level,
        "nontrivial_runs": tot["nontrivial"],
        "rule": RULE,
        "samples": tot["samples"][:4],
        "seeds": {"base_seed": base, "derivation": "run_seed(i) = splitmix64-derived from (base_seed, i); every %dth run uses "
                  "the first derived seed whose first draw selects the fault-free profile" % FAULT_FREE_EVERY,
                  "run_indices": [0, max((p["runs"] for p in parts), default=0) * len(parts)], "workers": len(parts)},
        "runs_per_hour": int(tot["runs"] / max(explore_wall, 1e-6) * 3600),
        "simulated_seconds": round(tot["sim_seconds"], 3),
        "events_delivered": tot["events"],
        "oracle_checks_at_quiescent_points": tot["checks"],
        "fault_free_runs": tot["ff_runs"],
        "fault_fired": tot["faults"],
        "probes": tot["probes"],
        "distinct_states": len(tot["states"].items) << tot["states"].level if tot["states"].level else len(tot["states"].items),
        "distinct_states_sampling_level": tot["states"].level,
        "components": COMPONENTS,
        "determinism_recheck": {"runs": tot["recheck_runs"], "mismatches": tot["recheck_mismatch"]},
        "known_findings_seen": [{"signature": s, "runs": tot["sigs"][s]["count"]} for s in known_seen],
        "violating_runs": tot["violating_runs"],
        "unlisted_signatures": [{"signature": s, "runs": tot["sigs"][s]["count"]} for s in unlisted],
        "module_under_test": {"path": module_path, "sha256": sha},
        "harness_problems": problems,
    }
    ev = {"property_id": PROP, "tier": tier, "seed": int(base), "level": "exploration", "wall_s": round(wall, 3),
          "violations": len(replays), "assumptions": ASSUMPTIONS, "coverage": cov}
    os.makedirs(os.path.dirname(EVIDENCE), exist_ok=True)
    tmp = EVIDENCE + ".tmp%d" % os.getpid()
    with open(tmp, "w") as f:
        json.dump(ev, f, indent=1, sort_keys=True)
        f.write("\n")
    os.replace(tmp, EVIDENCE)
    print("C20 %s: %d runs (%d non-trivial, %d distinct non-trivial skeletons), %d events, %d oracle checks, "
          "%.0f runs/hour, %.1fs wall; known findings seen: %d; unlisted violation signatures: %d; exit %d"
          % (tier, tot["runs"], tot["nontrivial"], len(tot["skel"].items), tot["events"], tot["checks"],
             cov["runs_per_hour"], wall, len(known_seen), len(unlisted), rc))
    if tot["runs"] == 0 and rc == 0:
        print("HARNESS-TROUBLE: no run was executed")
        rc = 2
    return rc


# --------------------------------------------------------------------------- selftest
def emit_hashes(base, start, count, module_path):
    mod, sha = loader.load(module_path)
    out = []
    for i in range(start, start + count):
        r = runner.execute(mod, seed=run_seed_for(base, i))
        out.append([r["log_hash"], r["signatures"], r["skel_hash"]])
    print(json.dumps(out))
    return 0


def selftest(base, module_path, count=60):
    results = []
    for hs in ("1", "424242", "1", "424242"):
        env = dict(os.environ)
        env["PYTHONHASHSEED"] = hs
        p = subprocess.run([sys.executable, os.path.abspath(__file__), "--emit-hashes", "0:%d" % count, "--seed", str(base),
                            "--module-path", module_path], stdout=subprocess.PIPE, stderr=subprocess.PIPE, env=env, timeout=600)
        if p.returncode != 0:
            print("HARNESS-TROUBLE: selftest child failed (PYTHONHASHSEED=%s): %s" % (hs, p.stderr.decode()[-2000:]))
            return 2
        results.append(json.loads(p.stdout.decode().strip().splitlines()[-1]))
    mism = 0
    for i in range(count):
        if any(results[j][i] != results[0][i] for j in range(1, len(results))):
            mism += 1
            print("MISMATCH run index %d: %s" % (i, [r[i][0][:12] for r in results]))
    distinct = len({r[0] for r in results[0]})
    print("selftest: %d seeds x %d executions in separate processes (PYTHONHASHSEED 1 / 424242): %d mismatches; "
          "%d distinct event-log hashes" % (count, len(results), mism, distinct))
    if mism or distinct < count // 2:
        print("HARNESS-TROUBLE: nondeterminism detected" if mism else "HARNESS-TROUBLE: seeds do not vary the runs")
        return 2
    return 0


# --------------------------------------------------------------------------- mutants
def _mutant_job(job):
    name, base, module_path, n = job
    import mutants
    mod, sha = loader.load(module_path)
    mut = mutants.MUTANTS.get(name)
    sigs = {}
    try:
        for i in range(n):
            r = runner.execute(mod, seed=run_seed_for(base, i), mutant=mut)
            for s in r["signatures"]:
                sigs[s] = sigs.get(s, 0) + 1
    except HarnessError as e:
        return name, sigs, "harness: %s" % e
    return name, sigs, None


def run_mutants(base, module_path, n=4000):
    import mutants
    names = ["<baseline>"] + sorted(mutants.MUTANTS)
    ctx = multiprocessing.get_context("fork")
    with ctx.Pool(min(len(names), os.cpu_count() or 1)) as pool:
        res = pool.map(_mutant_job, [(nm, base, module_path, n) for nm in names], chunksize=1)
    base_sigs = set(res[0][1])
    print("baseline (%s): %d signatures: %s" % (module_path, len(base_sigs), sorted(base_sigs)))
    missed = 0
    for name, sigs, err in res[1:]:
        new = sorted(set(sigs) - base_sigs)
        if err:
            print("mutant %-34s HARNESS-TROUBLE %s" % (name, err))
            missed += 1
        elif new:
            print("mutant %-34s CAUGHT  by %s (%d runs)" % (name, new[0], sigs[new[0]]) +
                  ("" if len(new) == 1 else " +%d more" % (len(new) - 1)))
        else:
            print("mutant %-34s MISSED  (signatures: %s)" % (name, sorted(sigs)))
            missed += 1
    print("mutants: %d/%d caught with %d runs each" % (len(res) - 1 - missed, len(res) - 1, n))
    return 1 if missed else 0


# --------------------------------------------------------------------------- propose findings
def propose(base, module_path, nworkers, secs):
    """Developer tool: minimise every signature met and write PROPOSED_FINDINGS.jsonl + findings/*.json"""
    import findings_text
    mod, sha = loader.load(module_path)
    tot = merge(explore(base, module_path, nworkers, None, secs, want_samples=False))
    if tot["errors"]:
        print("\n".join(tot["errors"]))
        return 2
    lines = []
    for sig in sorted(tot["sigs"]):
        e = tot["sigs"][sig]
        best, n = shrinker.shrink(mod, e["choices"], sig, max_execs=6000)
        rep = make_replay(mod, sha, module_path, base, sig, e, best)
        fname = "C20-" + sig.replace(":", "--") + ".json"
        write_replay(rep, os.path.join(HERE, "findings"), fname)
        lines.append({"property": PROP, "signature": sig, "status": "open",
                      "what": findings_text.WHAT.get(sig, sig), "replay": "findings/" + fname})
        print("%s: %d runs; minimised to %d choices in %d executions" % (sig, e["count"], len(rep["choices"]), n))
    with open(os.path.join(HERE, "PROPOSED_FINDINGS.jsonl"), "w") as f:
        for l in lines:
            f.write(json.dumps(l, sort_keys=True) + "\n")
    return 0


# --------------------------------------------------------------------------- main
def main():
    ap = argparse.ArgumentParser()
    ap.add_argument("--tier", choices=["quick", "thorough"], default=None)
    ap.add_argument("--seed", type=int, default=None)
    ap.add_argument("--secs", type=float, default=None)
    ap.add_argument("--replay", default=None)
    ap.add_argument("--module-path", default=None)
    ap.add_argument("--workers", type=int, default=None)
    ap.add_argument("--runs", type=int, default=None)
    ap.add_argument("--selftest", action="store_true")
    ap.add_argument("--mutants", action="store_true")
    ap.add_argument("--propose", action="store_true")
    ap.add_argument("--emit-hashes", default=None, help=argparse.SUPPRESS)
    a = ap.parse_args()
    try:
        base = a.seed if a.seed is not None else int(os.environ.get("VERIF_SEED", "1") or "1")
    except ValueError:
        print("HARNESS-TROUBLE: VERIF_SEED is not an integer")
        return 2
    module_path = os.path.abspath(a.module_path) if a.module_path else loader.DEFAULT_MODULE_PATH
    ncpu = os.cpu_count() or 1
    if a.replay:
        return do_replay(os.path.abspath(a.replay), os.path.abspath(a.module_path) if a.module_path else None)
    if a.emit_hashes:
        s, c = a.emit_hashes.split(":")
        return emit_hashes(base, int(s), int(c), module_path)
    if a.selftest:
        return selftest(base, module_path)
    if a.mutants:
        return run_mutants(base, module_path, a.runs or 4000)
    if a.propose:
        return propose(base, module_path, a.workers or min(16, ncpu), a.secs or 30.0)
    tier = a.tier or os.environ.get("VERIF_TIER") or "quick"
    if tier not in ("quick", "thorough"):
        print("HARNESS-TROUBLE: unknown tier %r" % tier)
        return 2
    if tier == "thorough":
        secs = a.secs if a.secs is not None else float(os.environ.get("VERIF_THOROUGH_SECS", "600") or "600")
        nworkers = a.workers or min(16, ncpu)
    else:
        secs = a.secs
        nworkers = a.workers or min(8, ncpu)
    return run_tier(tier, base, secs, module_path, nworkers, a.runs)


if __name__ == "__main__":
    try:
        code = main()
    except HarnessError as e:
        print("HARNESS-TROUBLE: %s" % e)
        code = 2
    except SystemExit:
        raise
    except BaseException:
        traceback.print_exc()
        print("HARNESS-TROUBLE: unexpected exception in the check itself")
        code = 2
    sys.stdout.flush()
    sys.exit(code)
