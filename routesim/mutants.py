"""Sensitivity self-check: monkeypatch mutants applied to the controller
instances of each run (the file under test is never edited).  Each must
produce a violation signature the unmutated module does not produce."""


def gate_reused_after_delete(mod, rc, bc):
    def get_gate(route_entry, module_name):
        c = rc._neighbor_cache.get(route_entry.next_hop_ip)
        if c is not None:
            return c.gate_idx
        return len([n for n in rc._neighbor_cache.values() if n.route_count > 0])
    rc._get_gate_idx = get_gate


def route_count_not_decremented(mod, rc, bc):
    orig = rc.delete_route_entry

    def delete(route_entry):
        nh = rc._neighbor_cache.get(route_entry.next_hop_ip)
        if nh:
            nh.route_count += 1
        return orig(route_entry)
    rc.delete_route_entry = delete


def route_installed_before_mac_known(mod, rc, bc):
    orig = rc.add_new_route_entry

    def add(route_entry):
        if mod.validate_ipv4(route_entry.next_hop_ip) and not mod.fetch_mac(rc._ndb, route_entry.next_hop_ip):
            rc._add_neighbor(route_entry, "02:00:00:00:00:00")
            return
        return orig(route_entry)
    rc.add_new_route_entry = add


def update_module_not_destroyed(mod, rc, bc):
    bc.delete_module = lambda module_name: None


def lookup_entry_not_deleted(mod, rc, bc):
    bc.delete_module_route_entry = lambda route_entry: None


def pending_not_cleared_after_resolution(mod, rc, bc):
    orig = rc.add_unresolved_new_neighbor

    def add(msg):
        before = dict(rc._unresolved_arp_queries_cache)
        orig(msg)
        for k, v in before.items():
            rc._unresolved_arp_queries_cache.setdefault(k, v)
    rc.add_unresolved_new_neighbor = add


def merge_link_skipped(mod, rc, bc):
    orig = bc.link_modules

    def link(module, next_module, ogate, igate):
        if next_module.endswith("Merge"):
            return
        return orig(module, next_module, ogate, igate)
    bc.link_modules = link


def every_route_on_gate_zero(mod, rc, bc):
    orig = bc.add_route_to_module

    def add(route_entry, gate_idx, module_name):
        return orig(route_entry, gate_idx=0, module_name=module_name)
    bc.add_route_to_module = add


def newneigh_ignored_when_neighbour_cached(mod, rc, bc):
    """waiting routes are dropped if the next hop already has a BESS neighbour entry"""
    orig = rc.add_unresolved_new_neighbor

    def add(msg):
        ip = dict(msg["attrs"]).get("NDA_DST")
        if ip in rc._neighbor_cache:
            rc._unresolved_arp_queries_cache.pop(ip, None)
            return
        return orig(msg)
    rc.add_unresolved_new_neighbor = add


MUTANTS = {
    "gate-reused-after-delete": gate_reused_after_delete,
    "route-count-not-decremented": route_count_not_decremented,
    "route-installed-before-mac-known": route_installed_before_mac_known,
    "update-module-not-destroyed": update_module_not_destroyed,
    "lookup-entry-not-deleted": lookup_entry_not_deleted,
    "pending-not-cleared-after-resolution": pending_not_cleared_after_resolution,
    "merge-link-skipped": merge_link_skipped,
    "every-route-on-gate-zero": every_route_on_gate_zero,
    "newneigh-ignored-when-neighbour-cached": newneigh_ignored_when_neighbour_cached,
}
