"""Simulated Linux kernel (routes, neighbour table, netlink multicast) and the
pyroute2 / scapy surfaces route_control uses, bound to it.

Message shapes follow pyroute2 (and conf/test_route_control.py): dict-like
objects with 'event', 'attrs' (list of (name, value) pairs), 'dst_len', ...
"""

AF_INET = 2
AF_INET6 = 10

IFACES = {1: "eth0", 2: "access", 3: "core"}          # ifindex -> name
IFINDEX = {v: k for k, v in IFACES.items()}
MANAGED = ["access", "core"]

NUD_INCOMPLETE, NUD_REACHABLE, NUD_STALE, NUD_FAILED = 0x01, 0x02, 0x04, 0x20

ARP_DELAYS = [0.001, 0.2, 1.5, 4.0, 12.0]   # seconds until an answered ARP completes
ARP_FAIL_AFTER = 3.0                         # kernel gives up (3 probes x 1 s)
NL_LAGS = [0.0, 0.001, 0.1, 2.0, 11.0]       # netlink delivery lag


class rtmsg(dict):
    """pyroute2.netlink.rtnl.rtmsg.rtmsg stand-in."""


class ndmsg(dict):
    """pyroute2.netlink.rtnl.ndmsg.ndmsg stand-in."""


def _hdr(mtype):
    return {"length": 68, "type": mtype, "flags": 0, "sequence_number": 0, "pid": 0,
            "error": None, "target": "localhost",
            "stats": {"qsize": 0, "delta": 0, "delay": 0}}


def route_msg(event, family, prefix, plen, gateway, oif, table=254):
    attrs = [("RTA_TABLE", table)]
    if plen != 0 and prefix is not None:
        attrs.append(("RTA_DST", prefix))
    if gateway is not None:
        attrs.append(("RTA_GATEWAY", gateway))
    else:
        attrs.append(("RTA_PREFSRC", "172.31.0.2"))
    attrs.append(("RTA_OIF", oif))
    return rtmsg({
        "family": family, "dst_len": plen, "src_len": 0, "tos": 0, "table": table,
        "proto": 3, "scope": 0 if gateway else 253, "type": 1, "flags": 0,
        "attrs": attrs, "header": _hdr(24 if event == "RTM_NEWROUTE" else 25), "event": event,
    })


def neigh_msg(event, ip, mac, ifindex, state):
    attrs = [("NDA_DST", ip)]
    if mac is not None:
        attrs.append(("NDA_LLADDR", mac))
    attrs.append(("NDA_PROBES", 1))
    attrs.append(("NDA_CACHEINFO", {"ndm_confirmed": 0, "ndm_used": 0, "ndm_updated": 0, "ndm_refcnt": 0}))
    return ndmsg({
        "family": AF_INET, "ifindex": ifindex, "state": state, "flags": 0, "ndm_type": 1,
        "attrs": attrs, "header": _hdr(28 if event == "RTM_NEWNEIGH" else 29), "event": event,
    })


class Kernel:
    def __init__(self, sim, cfg):
        self.sim = sim
        self.cfg = cfg
        self.routes = {}        # (prefix, plen) -> dict(nh, oif, family)   main table
        self.neigh = {}         # ip -> dict(state, mac, ifindex, gen)
        self.truth_mac = {}     # ip -> (mac, ifindex): what the host would answer
        self.ndb_neigh = {}     # NDB's copy: follows DELIVERED events only
        self.queue_len = 0      # netlink messages emitted, not yet delivered
        self.last_ready = 0.0
        self.arp_inflight = 0
        self.pings = 0
        self.send_errors_fired = 0
        self.arp_fail_fired = 0
        self.failed_notify_fired = 0
        self.lag_fired = 0
        self.startup = True

    # -- netlink multicast -------------------------------------------------
    def emit(self, msg, tag):
        lag = 0.0
        if self.cfg["lag"] and not self.startup:
            i = self.sim.ch.choose(len(NL_LAGS), "nl.lag")
            lag = NL_LAGS[i]
            if i:
                self.lag_fired += 1
                self.sim.sk("fault", "nl_lag", i)
        ready = max(self.last_ready, self.sim.now + lag)
        self.last_ready = ready
        self.queue_len += 1
        self.sim.ev("emit", tag, lag)
        self.sim.at_ctl(ready, "nl", (msg, tag))

    # -- routes --------------------------------------------------------------
    def add_route(self, prefix, plen, nh, oif, family=AF_INET, notify=True):
        self.routes[(prefix, plen)] = {"nh": nh, "oif": oif, "family": family}
        if notify:
            self.emit(route_msg("RTM_NEWROUTE", family, prefix, plen, nh, oif),
                      ("RTM_NEWROUTE", prefix, plen, nh, IFACES[oif]))

    def del_route(self, prefix, plen):
        r = self.routes.pop((prefix, plen))
        self.emit(route_msg("RTM_DELROUTE", r["family"], prefix, plen, r["nh"], r["oif"]),
                  ("RTM_DELROUTE", prefix, plen, r["nh"], IFACES[r["oif"]]))

    def dump_routes(self):
        out = []
        for (prefix, plen), r in self.routes.items():
            out.append(route_msg("RTM_NEWROUTE", r["family"], prefix, plen, r["nh"], r["oif"]))
        return out

    # -- neighbours ----------------------------------------------------------
    def mac_known(self, ip):
        n = self.neigh.get(ip)
        return n["mac"] if n and n["state"] == NUD_REACHABLE else None

    def resolve_now(self, ip, how):
        """Neighbour becomes REACHABLE (answered ARP, or learnt from other traffic)."""
        mac, ifindex = self.truth_mac[ip]
        self.neigh[ip] = {"state": NUD_REACHABLE, "mac": mac, "ifindex": ifindex}
        self.sim.ev("neigh", ip, "REACHABLE", how)
        if not self.startup:
            self.emit(neigh_msg("RTM_NEWNEIGH", ip, mac, ifindex, NUD_REACHABLE),
                      ("RTM_NEWNEIGH", ip, mac))
        else:
            self.ndb_neigh[ip] = dict(self.neigh[ip])

    def refresh(self, ip):
        n = self.neigh[ip]
        self.emit(neigh_msg("RTM_NEWNEIGH", ip, n["mac"], n["ifindex"], NUD_STALE),
                  ("RTM_NEWNEIGH", ip, n["mac"]))

    def on_ping(self, dst):
        """The controller sent an ICMP echo: the kernel needs dst's MAC."""
        self.pings += 1
        self.sim.ev("ping", dst)
        if dst not in self.truth_mac:
            return
        n = self.neigh.get(dst)
        if n and n["state"] in (NUD_REACHABLE, NUD_INCOMPLETE):
            return
        ch = self.sim.ch
        answered = True
        if self.cfg["arp_fail_n"]:
            answered = ch.choose(self.cfg["arp_fail_n"], "arp.outcome") == 0
        ifindex = self.truth_mac[dst][1]
        self.neigh[dst] = {"state": NUD_INCOMPLETE, "mac": None, "ifindex": ifindex}
        self.arp_inflight += 1
        if answered:
            d = ARP_DELAYS[ch.choose(self.cfg["arp_delay_n"], "arp.delay")]
            self.sim.ev("arp-start", dst, "answer-in", d)
            self.sim.at_kernel(self.sim.now + d, "arp_ok", dst)
        else:
            self.arp_fail_fired += 1
            self.sim.sk("fault", "arp_no_answer", dst)
            notify = False
            if self.cfg["failed_notify"]:
                notify = ch.choose(2, "arp.failed_notify") == 1
            self.sim.ev("arp-start", dst, "no-answer", notify)
            self.sim.at_kernel(self.sim.now + ARP_FAIL_AFTER, "arp_fail", (dst, notify))

    def timer(self, kind, data):
        if kind == "arp_ok":
            self.arp_inflight -= 1
            n = self.neigh.get(data)
            if n and n["state"] == NUD_REACHABLE:
                return  # learnt meanwhile from other traffic
            self.resolve_now(data, "arp")
        elif kind == "arp_fail":
            dst, notify = data
            self.arp_inflight -= 1
            n = self.neigh.get(dst)
            if n and n["state"] == NUD_REACHABLE:
                return
            self.neigh[dst] = {"state": NUD_FAILED, "mac": None, "ifindex": self.truth_mac[dst][1]}
            self.sim.ev("neigh", dst, "FAILED")
            if notify:
                self.failed_notify_fired += 1
                self.sim.sk("fault", "neigh_failed_notify", dst)
                self.emit(neigh_msg("RTM_NEWNEIGH", dst, None, self.truth_mac[dst][1], NUD_FAILED),
                          ("RTM_NEWNEIGH", dst, None))

    # -- NDB's database follows the delivered event stream -------------------
    def ndb_apply(self, msg):
        if isinstance(msg, ndmsg) and msg.get("event") == "RTM_NEWNEIGH":
            a = dict(msg["attrs"])
            self.ndb_neigh[a["NDA_DST"]] = {"state": msg["state"], "mac": a.get("NDA_LLADDR"),
                                            "ifindex": msg["ifindex"]}

    def view_neigh(self):
        """What ndb.neighbours.dump() shows: NDB's copy (in step with the
        delivered events) or, in 'kernel' view, the kernel's table right now
        (ahead of the event stream)."""
        return self.neigh if self.cfg["view"] == "kernel" else self.ndb_neigh

    def view_mac(self, ip):
        n = self.view_neigh().get(ip)
        return n["mac"] if n and n.get("mac") else None

    def quiescent(self):
        return self.queue_len == 0 and self.arp_inflight == 0


# ---------------------------------------------------------------------------
# pyroute2 surface
# ---------------------------------------------------------------------------
class _TaskManager:
    def __init__(self):
        self.handlers = {}

    def register_handler(self, event, handler):
        self.handlers.setdefault(event, []).append(handler)

    def unregister_handler(self, event, handler):
        try:
            self.handlers.get(event, []).remove(handler)
        except ValueError:
            pass


class _Neighbours:
    def __init__(self, kernel):
        self._k = kernel

    def dump(self):
        out = [{"ifindex": 1, "dst": "172.31.0.1", "lladdr": "02:42:ac:1f:00:01", "state": NUD_REACHABLE}]
        for ip, n in self._k.view_neigh().items():
            out.append({"ifindex": n["ifindex"], "dst": ip, "lladdr": n.get("mac"), "state": n["state"]})
        # A dump taken by a thread that does not hold the controller's lock is
        # followed by a window in which the other thread may run (see
        # World.dump_gap); the caller goes on with the snapshot taken before it.
        hook = getattr(self._k, "unlocked_dump_hook", None)
        if hook is not None:
            hook()
        return out

    def summary(self):
        return self.dump()


class NDB:
    """pyroute2.NDB stand-in bound to the run's kernel (CURRENT_KERNEL)."""

    def __init__(self, *a, **kw):
        self._k = CURRENT_KERNEL
        self.task_manager = _TaskManager()
        self.interfaces = {idx: {"ifname": name, "index": idx} for idx, name in IFACES.items()}
        self.neighbours = _Neighbours(self._k)

    def close(self):
        pass


class IPRoute:
    def __init__(self, *a, **kw):
        self._k = CURRENT_KERNEL

    def get_routes(self, family=AF_INET, **kw):
        return [m for m in self._k.dump_routes() if m["family"] == family]

    def get_neighbours(self, family=AF_INET, **kw):
        out = []
        for ip, n in self._k.neigh.items():
            out.append(neigh_msg("RTM_NEWNEIGH", ip, n.get("mac"), n["ifindex"], n["state"]))
        return out

    def close(self):
        pass


CURRENT_KERNEL = None


# ---------------------------------------------------------------------------
# scapy surface
# ---------------------------------------------------------------------------
class _Layer:
    def __init__(self, **fields):
        self.fields = fields
        self.payload = None

    def __truediv__(self, other):
        self.payload = other
        return self

    @property
    def dst(self):
        return self.fields.get("dst")


class IP(_Layer):
    pass


class ICMP(_Layer):
    pass


def send(pkt, *a, **kw):
    k = CURRENT_KERNEL
    if k is None:
        raise RuntimeError("routesim: scapy.send outside a run")
    if k.cfg["send_err_n"] and not k.startup:
        n = k.cfg["send_err_n"]
        if k.sim.ch.choose(n, "ping.send_error") == n - 1:
            k.send_errors_fired += 1
            k.sim.sk("fault", "ping_send_error", pkt.dst)
            k.sim.ev("ping-send-error", pkt.dst)
            raise OSError(1, "injected: Operation not permitted (raw socket)")
    k.on_ping(pkt.dst)
