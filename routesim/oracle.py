"""Reference model + checks for C20.

The model is built ONLY from what the simulated kernel told the controller
(delivered netlink messages, the bootstrap dump, and what the neighbour view
answered); the BESS side is read from the graph the recording stand-in
reconstructed from RPCs.  Judged only at quiescent points (nothing queued, no
ARP attempt in flight), where told state == kernel state (asserted).
"""
import hashlib

from simbess import SINK_GATE
from simcore import HarnessError
from simkernel import IFACES, MANAGED

DEFAULT_KEY = ("0.0.0.0", 0)


class RouteInfo:
    __slots__ = ("nh", "waiting", "waited", "cowait")

    def __init__(self, nh, waiting):
        self.nh = nh
        self.waiting = waiting
        self.waited = waiting
        self.cowait = False


class Oracle:
    def __init__(self, kernel, bess):
        self.k = kernel
        self.b = bess
        self.routes = {}       # (iface, prefix, plen) -> RouteInfo      (told, current)
        self.macs = {}         # nh ip -> mac                            (told)
        self.hist = {}         # key -> dict about the last told deletion
        self.reported = set()  # (signature, subject)
        self.violations = []   # dicts, in order of detection
        self.checks = 0
        self.ref_mark = {}     # update-module name -> rpc index when last seen referenced
        self.ever_ref = set()
        self.probes = {}
        self.ghosts = {}         # route key -> next hops via which it was deleted while waiting
        self.del_waiting_nhs = set()  # next hops that had a route deleted while it waited
        self.bogus_birth = {}    # update-module name -> why it should never have been created
        self.seen_updates = set()
        self.tainted = set()     # next hops with an already reported route-level discrepancy
        self.nh_emptied = set()  # next hops whose last installed route was deleted

    def probe(self, name, n=1):
        self.probes[name] = self.probes.get(name, 0) + n

    # -- told-state tracking -------------------------------------------------
    def told_newroute(self, iface, prefix, plen, nh, mac_in_view):
        key = (iface, prefix, plen)
        info = RouteInfo(nh, not mac_in_view)
        if info.waiting:
            self.probe("route_waited_for_neighbour")
            for k2, o in self.routes.items():
                if k2 != key and o.nh == nh and o.waiting:
                    o.cowait = True
                    info.cowait = True
            if info.cowait:
                self.probe("two_routes_one_unresolved_nexthop")
        else:
            if nh not in self.macs:
                self.probe("mac_seen_in_view_before_newneigh_delivered")
            if any(o.nh == nh and not o.waiting for k2, o in self.routes.items() if k2 != key):
                self.probe("second_route_on_resolved_nexthop")
        if key in self.hist:
            self.probe("route_readded_after_delete")
        if nh in self.nh_emptied:
            self.nh_emptied.discard(nh)
            self.probe("gate_reuse_after_delete")
        self.hist.pop(key, None)
        self.routes[key] = info

    def told_delroute(self, iface, prefix, plen, nh):
        key = (iface, prefix, plen)
        info = self.routes.pop(key, None)
        self._deleted = None
        if info is None:
            return
        # Bookkeeping only (never flagged here: this need not be a quiescent
        # point).  If the lookup table disagrees with what the controller had
        # been told about this route at the moment it is deleted, reference
        # counts for the next hop are off from here on; later oddities on that
        # next hop are consequences.
        g = self.b.tables.get(iface + "Routes", {}).get((prefix, plen))
        present = g is not None and not ((prefix, plen) == DEFAULT_KEY and g == SINK_GATE) \
            and self._gate_nh(iface + "Routes", g, self._ctl_updates()) == info.nh
        if present == info.waiting:
            self.tainted.add(info.nh)
            self.probe("delroute_finds_table_out_of_step")
        self._deleted = (info.waiting, info.nh, len(self.b.rpcs))
        if info.waiting:
            self.probe("delete_unresolved_route")
            self.del_waiting_nhs.add(info.nh)
            self.ghosts.setdefault(key, set()).add(info.nh)
        last = not any(o.nh == info.nh and not o.waiting for o in self.routes.values())
        if not info.waiting and last:
            self.probe("delete_last_route_of_nexthop")
            self.nh_emptied.add(info.nh)
        self.hist[key] = {"while_waiting": info.waiting, "rpc_mark": len(self.b.rpcs),
                          "nh": info.nh, "installed": not info.waiting}

    def told_newneigh(self, ip, mac):
        self._released = None
        if mac is None:
            return
        if ip not in self.macs and not any(o.nh == ip for o in self.routes.values()):
            self.probe("neigh_event_before_route_event")
        self.macs[ip] = mac
        n = 0
        self._released = (ip, set(), len(self.b.rpcs))
        for k, o in self.routes.items():
            if o.nh == ip and o.waiting:
                o.waiting = False
                self._released[1].add(k)
                n += 1
        if n:
            self.probe("newneigh_releases_waiting_routes")
        if n > 1:
            self.probe("newneigh_releases_several_waiting_routes")

    def after_delroute(self):
        """Bookkeeping after the RTM_DELROUTE handler returned (no flagging): a
        route that was still waiting for its next hop was never in BESS, so its
        deletion must not touch BESS; if the handler nevertheless deleted a
        lookup entry or tried to destroy a module, the next hop's reference
        count is off from here on: taint it."""
        d = getattr(self, "_deleted", None)
        self._deleted = None
        if d is None or not d[0]:
            return
        for (_, name, args, outcome) in self.b.rpcs[d[2]:]:
            if name == "destroy_module" or (name == "run_module_command" and args[1] == "delete"):
                self.tainted.add(d[1])
                self.probe("delete_of_waiting_route_touched_bess")
                return

    def after_newneigh(self):
        """Bookkeeping after the RTM_NEWNEIGH handler returned (no flagging):
        a lookup add for a route that was NOT waiting on this next hop, but of
        which the kernel deleted an incarnation while it waited on it, means the
        deleted incarnation was installed (possibly on top of / in addition to
        the live one).  Reference counts for the next hops involved are off
        from here on: taint them."""
        rel = getattr(self, "_released", None)
        if rel is None:
            return
        ip, released, start = rel
        self._released = None
        for (_, name, args, outcome) in self.b.rpcs[start:]:
            if name == "run_module_command" and args[1] == "add" and outcome == "ok":
                a = dict(args[2])
                key = (args[0][:-len("Routes")], a.get("prefix"), a.get("prefix_len"))
                if key not in released and ip in self.ghosts.get(key, ()):
                    self.tainted.add(ip)
                    if key in self.routes:
                        self.tainted.add(self.routes[key].nh)
                    self.probe("deleted_incarnation_installed_on_resolution")

    # -- graph helpers ---------------------------------------------------------
    @staticmethod
    def _mac_of(module):
        try:
            f = module.arg["fields"][0]
            if f.get("offset") == 0 and f.get("size") == 6:
                return int(f["value"])
        except Exception:
            pass
        return None

    def _gate_nh(self, L, gate, updates):
        """Next hop whose MAC the module behind L:gate writes (None if unknown)."""
        link = self.b.links.get((L, gate))
        u = updates.get(link[0]) if link else None
        mac = self._mac_of(u) if u is not None else None
        if mac is None:
            return None
        for ip, (tm, _) in self.k.truth_mac.items():
            if int(tm.replace(":", ""), 16) == mac:
                return ip
        return None

    def _ctl_updates(self):
        return {n: m for n, m in self.b.modules.items() if m.by_ctl and m.mclass == "Update"}

    def observe(self):
        """After every event: remember when each MAC-rewrite module was last in use."""
        b = self.b
        used = set()
        for (src, og), (dst, ig) in b.links.items():
            tbl = b.tables.get(src)
            if tbl is not None and og != SINK_GATE and og in tbl.values():
                used.add(dst)
        mark = len(b.rpcs)
        ups = self._ctl_updates()
        for name, m in ups.items():
            if name in self.seen_updates:
                continue
            self.seen_updates.add(name)
            # born in the event that just ended: was any told route entitled to it?
            mac = self._mac_of(m)
            nh = None
            for ip, (tm, _) in self.k.truth_mac.items():
                if mac is not None and int(tm.replace(":", ""), 16) == mac:
                    nh = ip
            if nh is None:
                self.bogus_birth[name] = "created-with-a-mac-of-no-known-nexthop"
            elif not any(o.nh == nh and not o.waiting for o in self.routes.values()):
                self.bogus_birth[name] = ("created-for-route-deleted-while-waiting-on-unresolved-nexthop"
                                          if nh in self.del_waiting_nhs else "created-for-nexthop-without-installable-route")
        for name in ups:
            if name in used:
                self.ref_mark[name] = mark
                self.ever_ref.add(name)
            elif name not in self.ref_mark:
                self.ref_mark[name] = b.modules[name].created_seq
        return used

    def state_hash(self):
        b = self.b
        st = (
            tuple(sorted((k, o.nh, o.waiting) for k, o in self.routes.items())),
            tuple(sorted(self.macs)),
            tuple(sorted((n, tuple(sorted(t.items()))) for n, t in b.tables.items())),
            tuple(sorted((self._mac_of(m) or 0) for m in self._ctl_updates().values())),
            tuple(sorted((k, v) for k, v in b.links.items() if k[1] != SINK_GATE)),
            self.k.queue_len > 0, self.k.arp_inflight > 0,
        )
        return int.from_bytes(hashlib.blake2b(repr(st).encode(), digest_size=8).digest(), "big")

    # -- the judgement -----------------------------------------------------------
    def _flag(self, sig, subject, ev_idx, detail, taint=None):
        # A route-level discrepancy leaves the controller's bookkeeping for that
        # next hop off by one; later gate/module oddities on the same next hop
        # are consequences, not new findings: taint the next hop for this run.
        if taint is not None:
            self.tainted.add(taint)
        if (sig, subject) in self.reported:
            return
        self.reported.add((sig, subject))
        self.violations.append({"signature": sig, "subject": repr(subject), "event": ev_idx, "detail": detail})

    def _selfcheck(self):
        kr = {}
        for (prefix, plen), r in self.k.routes.items():
            ifn = IFACES.get(r["oif"])
            if r["nh"] and ifn in MANAGED and r["family"] == 2:
                kr[(ifn, prefix, plen)] = r["nh"]
        told = {k: o.nh for k, o in self.routes.items()}
        if kr != told:
            raise HarnessError("oracle: told routes %r != kernel routes %r at a quiescent point" % (told, kr))
        km = {ip: n["mac"] for ip, n in self.k.neigh.items() if n["state"] == 2 and n["mac"]}
        if km != self.macs:
            raise HarnessError("oracle: told MACs %r != kernel MACs %r at a quiescent point" % (self.macs, km))
        if any(o.waiting and o.nh in self.macs for o in self.routes.values()):
            raise HarnessError("oracle: route still marked waiting although MAC was reported")

    def check(self, ev_idx):
        """Call only when the kernel is quiescent and the controller idle."""
        self.checks += 1
        self._selfcheck()
        b = self.b
        macs = self.macs
        updates = self._ctl_updates()
        for ifn in MANAGED:
            L = ifn + "Routes"
            tbl = b.tables.get(L)
            if tbl is None:
                self._flag("lookup-module-destroyed:" + "route-module-missing", L, ev_idx, L + " no longer exists")
                continue
            actual = {k: g for k, g in tbl.items() if not (k == DEFAULT_KEY and g == SINK_GATE)}
            expected = {(p, l): o.nh for (i, p, l), o in self.routes.items() if i == ifn and o.nh in macs}
            # E1: membership
            # Routes of a next hop that an EARLIER discrepancy of this run left with
            # wrong bookkeeping are not judged again: what follows there is a
            # consequence.  An independent defect shows up in runs without that
            # earlier discrepancy.
            for k in sorted(set(expected) - set(actual)):
                o = self.routes[(ifn,) + k]
                if o.nh in self.tainted:
                    continue
                if o.cowait:
                    why = "waited-with-another-route-on-same-unresolved-nexthop"
                elif o.waited:
                    why = "waited-alone-on-unresolved-nexthop"
                else:
                    why = "nexthop-mac-known-at-add"
                self._flag("missing-route:" + why, (ifn,) + k, ev_idx,
                           "kernel has %s/%d via %s (MAC %s known) on %s but %s has no entry"
                           % (k[0], k[1], o.nh, macs[o.nh], ifn, L), taint=o.nh)
            for k in sorted(set(actual) - set(expected)):
                key = (ifn,) + k
                via = self._gate_nh(L, actual[k], updates)
                if via is not None and via in self.ghosts.get(key, ()):
                    # an incarnation of this route that the kernel deleted while it
                    # was still waiting for `via` got installed when `via` resolved
                    if key in self.routes:
                        self.tainted.add(self.routes[key].nh)
                    self._flag("stale-route:deleted-while-waiting-on-unresolved-nexthop-installed-on-resolution",
                               key, ev_idx,
                               "%s has %s/%d -> gate %d (next hop %s) but the kernel deleted that route while "
                               "%s was unresolved" % (L, k[0], k[1], actual[k], via, via), taint=via)
                    continue
                h = self.hist.get(key)
                if (via in self.tainted or (h or {}).get("nh") in self.tainted
                        or (key in self.routes and self.routes[key].nh in self.tainted)):
                    continue
                if key in self.routes:
                    self._flag("premature-route:installed-before-nexthop-mac-known", key, ev_idx,
                               "%s has %s/%d -> gate %d but next hop %s has no known MAC"
                               % (L, k[0], k[1], actual[k], self.routes[key].nh), taint=self.routes[key].nh)
                    continue
                h = self.hist.get(key)
                if h is None:
                    why = "never-announced-by-kernel"
                elif h["while_waiting"]:
                    why = "deleted-while-waiting-on-unresolved-nexthop-installed-on-resolution"
                else:
                    ok = failed = False
                    for (_, name, args, outcome) in b.rpcs[h["rpc_mark"]:]:
                        if name == "run_module_command" and args[0] == L and args[1] == "delete" \
                                and dict(args[2]).get("prefix") == k[0] and dict(args[2]).get("prefix_len") == k[1]:
                            if outcome == "ok":
                                ok = True
                            elif outcome.startswith("E"):
                                failed = True
                    why = "reinstalled-after-delroute" if ok else (
                        "lookup-delete-failed" if failed else "not-removed-on-delroute")
                if via is not None:
                    self.tainted.add(via)
                self._flag("stale-route:" + why, key, ev_idx,
                           "%s still has %s/%d -> gate %d but the kernel has no such route"
                           % (L, k[0], k[1], actual[k]), taint=(h or {}).get("nh"))
            # wiring of routes that are rightly installed
            gate_nhs = {}
            for k in sorted(set(expected) & set(actual)):
                nh, g = expected[k], actual[k]
                via = self._gate_nh(L, g, updates)
                if via is not None and via != nh and via in self.ghosts.get((ifn,) + k, ()):
                    self.tainted.add(via)
                    self._flag("wrong-nexthop-mac:overwritten-by-route-deleted-while-waiting-on-unresolved-nexthop",
                               (ifn,) + k, ev_idx,
                               "%s %s/%d -> gate %d rewrites to the MAC of %s (an incarnation of the route the kernel "
                               "deleted while %s was unresolved); the kernel route is via %s"
                               % (L, k[0], k[1], g, via, via, nh), taint=nh)
            for k in sorted(set(expected) & set(actual)):
                nh, g = expected[k], actual[k]
                if nh in self.tainted:
                    continue
                gate_nhs.setdefault(g, set()).add(nh)
            shared = set()
            good = {}
            for g, nhs in sorted(gate_nhs.items()):
                if len(nhs) > 1:
                    shared |= nhs
                    self._flag("shared-gate:two-live-nexthops-on-one-gate", (ifn, g), ev_idx,
                               "%s gate %d carries routes of next hops %s" % (L, g, sorted(nhs)))
            for k in sorted(set(expected) & set(actual)):
                nh, g = expected[k], actual[k]
                if nh in shared or nh in self.tainted:
                    continue
                link = b.links.get((L, g))
                if link is None:
                    self._flag("unlinked-gate:route-points-at-unconnected-gate", (ifn, nh), ev_idx,
                               "%s %s/%d -> gate %d which is not connected" % (L, k[0], k[1], g))
                    continue
                u = updates.get(link[0])
                if u is None or self._mac_of(u) is None:
                    self._flag("bad-gate-target:gate-not-linked-to-a-mac-rewrite-module", (ifn, nh), ev_idx,
                               "%s gate %d -> %s" % (L, g, link[0]))
                    continue
                want = int(macs[nh].replace(":", ""), 16)
                if self._mac_of(u) != want:
                    other = [ip for ip, m in macs.items() if int(m.replace(":", ""), 16) == self._mac_of(u)]
                    why = "gate-rewrites-to-another-mac"
                    if other and other[0] in self.ghosts.get((ifn,) + k, ()):
                        why = "overwritten-by-route-deleted-while-waiting-on-unresolved-nexthop"
                    for ip in other:
                        self.tainted.add(ip)
                    self._flag("wrong-nexthop-mac:" + why, (ifn,) + k, ev_idx,
                               "%s %s/%d -> gate %d -> %s writes %012X, but the kernel route is via %s (%012X)"
                               % (L, k[0], k[1], g, u.name, self._mac_of(u), nh, want), taint=nh)
                    continue
                good.setdefault(nh, set()).add(g)
                if b.links.get((u.name, 0)) != (ifn + "Merge", 0):
                    self._flag("update-module-not-linked-to-merge:mac-rewrite-output-dangling", (ifn, nh), ev_idx,
                               "%s:0 -> %r, wanted %sMerge:0" % (u.name, b.links.get((u.name, 0)), ifn))
            for nh, gs in sorted(good.items()):
                if len(gs) > 1 and nh not in self.tainted:
                    self._flag("split-gate:routes-of-one-nexthop-on-different-gates", (ifn, nh), ev_idx,
                               "%s: routes via %s use gates %s" % (L, nh, sorted(gs)))
        # G2: every MAC-rewrite module the controller made is in use
        used = self.observe()
        by_mac = {}
        tainted_macs = {int(macs[nh].replace(":", ""), 16) for nh in self.tainted if nh in macs}
        for name, m in sorted(updates.items()):
            mac = self._mac_of(m)
            if mac in tainted_macs:
                continue
            if name in used:
                by_mac.setdefault(mac, []).append(name)
                continue
            saw_enoent = saw_fail = saw_any = False
            for (_, rname, args, outcome) in b.rpcs[self.ref_mark.get(name, 0):]:
                if rname == "destroy_module" and not outcome.startswith("INJECTED"):
                    saw_any = True
                    if outcome == "EENOENT":
                        saw_enoent = True
                    elif outcome != "ok":
                        saw_fail = True
            if name in self.bogus_birth:
                why = self.bogus_birth[name]
            elif name not in self.ever_ref:
                why = "never-referenced-by-a-route"
            elif saw_enoent:
                why = "destroy-sent-for-nonexistent-module-name"
            elif saw_fail:
                why = "destroy-failed"
            elif saw_any:
                why = "another-module-destroyed-instead"
            else:
                why = "no-destroy-sent"
            self._flag("orphan-update-module:" + why, ("update", mac), ev_idx,
                       "MAC-rewrite module %s (%s) exists but no installed route uses it"
                       % (name, "%012X" % mac if mac is not None else "?"))
        for mac, names in sorted(by_mac.items(), key=lambda kv: repr(kv[0])):
            if mac is not None and len(names) > 1:
                ifs = {}
                for (src, og), (dst, ig) in b.links.items():
                    if dst in names and src in b.tables:
                        ifs.setdefault(src, set()).add(dst)
                if any(len(v) > 1 for v in ifs.values()):
                    self._flag("duplicate-update-module:one-nexthop-two-mac-rewrite-modules", ("update", mac), ev_idx,
                               "modules %s all rewrite to %012X" % (names, mac))
