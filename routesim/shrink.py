"""Hypothesis-style shrinking on the choice trace: delete spans, zero spans,
lower values.  A candidate is kept iff the SAME signature recurs; order is
shortlex on the (effective) choice list.  Budget-bounded (executions + an
optional deadline given as a callable so this module never reads a clock)."""
import runner
from simcore import HarnessError


def _smaller(a, b):
    return (len(a), a) < (len(b), b)


def shrink(module, choices, signature, max_execs=1500, expired=None, mutant=None):
    best = list(choices)
    execs = [0]
    cache = {}

    def trial(cand):
        key = tuple(cand)
        if key in cache:
            return cache[key]
        if execs[0] >= max_execs or (expired and expired()):
            return None
        execs[0] += 1
        try:
            r = runner.execute(module, choices=cand, mutant=mutant)
        except HarnessError:
            cache[key] = None
            return None
        eff = r["choices"]
        while eff and eff[-1] == 0:
            eff = eff[:-1]
        out = eff if signature in r["signatures"] else None
        cache[key] = out
        return out

    first = trial(best)
    if first is None:
        return best, execs[0]
    best = first
    improved = True
    while improved and execs[0] < max_execs and not (expired and expired()):
        improved = False
        # 1. delete spans
        for size in (16, 8, 4, 2, 1):
            i = len(best) - size
            while i >= 0:
                cand = best[:i] + best[i + size:]
                got = trial(cand)
                if got is not None and _smaller(got, best):
                    best = got
                    improved = True
                    i = min(i, len(best) - size)
                else:
                    i -= 1
        # 2. zero spans
        for size in (8, 4, 2, 1):
            i = 0
            while i + size <= len(best):
                if any(best[i:i + size]):
                    cand = best[:i] + [0] * size + best[i + size:]
                    got = trial(cand)
                    if got is not None and _smaller(got, best):
                        best = got
                        improved = True
                i += 1
        # 3. lower single values
        i = 0
        while i < len(best):
            v = best[i]
            if v > 0:
                lo, hi = 0, v
                while lo < hi:
                    mid = (lo + hi) // 2
                    cand = best[:i] + [mid] + best[i + 1:]
                    got = trial(cand)
                    if got is not None and _smaller(got, best):
                        best = got
                        improved = True
                        hi = mid if i < len(best) and best[i] == mid else 0
                        if i >= len(best):
                            break
                    else:
                        lo = mid + 1
            i += 1
    return best, execs[0]
