"""Recording stand-in for the pybess client and the BESS daemon behind it.

`BESS` is what `from pybess.bess import *` hands to route_control.  Every RPC
is recorded and applied to `BessServer`, which keeps the module graph the way
bessd would: modules, gate links, IPLookup tables.  Error behaviour follows
bessd: EEXIST on duplicate create, ENOENT on unknown module, EBUSY on an
already-connected ogate, EINVAL on deleting an absent LPM rule.
"""
import errno

MAX_GATES = 8192
SINK_GATE = MAX_GATES - 1


class _Error(Exception):
    def __init__(self, code, errmsg="", **kwargs):
        super().__init__(code, errmsg)
        self.code = code
        self.errmsg = errmsg
        self.info = kwargs

    def __str__(self):
        return "errno=%s: %s" % (errno.errorcode.get(self.code, self.code), self.errmsg)


class _RPCError(Exception):
    pass


class _APIError(Exception):
    pass


class _ConstraintError(Exception):
    pass


class Module:
    __slots__ = ("name", "mclass", "arg", "by_ctl", "created_seq")

    def __init__(self, name, mclass, arg=None, by_ctl=False, created_seq=0):
        self.name = name
        self.mclass = mclass
        self.arg = arg
        self.by_ctl = by_ctl
        self.created_seq = created_seq


class BessServer:
    """The daemon side: module graph + fault injection + RPC record."""

    INJECTABLE = ("pause_all", "run_module_command", "create_module",
                  "connect_modules", "disconnect_modules", "destroy_module")

    def __init__(self, sim, interfaces):
        self.sim = sim
        self.modules = {}
        self.links = {}        # (src, ogate) -> (dst, igate)
        self.tables = {}       # lookup module name -> {(prefix, len): gate}
        self.rpcs = []         # (seq, name, args, outcome)
        self.paused = 0
        self.connected = False
        self.connect_failures_left = 0
        self.unsupported = []
        # fault knobs (set by the world from the swarm draw)
        self.fault_rate_n = 0  # 0 = off, else fail when choose(n)==n-1
        self.fault_budget = 0  # max consecutive injected failures (< MAX_RETRIES)
        self.consec = 0
        self.fired = 0
        self.retried_ok = 0
        self._last_injected = None
        # the pipeline that conf/ports.py builds before route_control starts
        for ifn in interfaces:
            self._mk(ifn + "Routes", "IPLookup")
            self._mk(ifn + "bad_route", "Sink")
            self._mk(ifn + "Merge", "Merge")
            self._mk(ifn + "SrcEther", "Update",
                     {"fields": [{"offset": 6, "size": 6, "value": 0x020000000000}]})
            self.tables[ifn + "Routes"] = {("0.0.0.0", 0): SINK_GATE}
            self.links[(ifn + "Routes", SINK_GATE)] = (ifn + "bad_route", 0)
            self.links[(ifn + "Merge", 0)] = (ifn + "SrcEther", 0)

    def _mk(self, name, mclass, arg=None, by_ctl=False):
        self.modules[name] = Module(name, mclass, arg, by_ctl, len(self.rpcs))

    # -- fault injection -------------------------------------------------
    def _maybe_fail(self, name, args):
        if self.fault_rate_n and name in self.INJECTABLE and self.consec < self.fault_budget:
            n = self.fault_rate_n
            if self.sim.ch.choose(n, "rpc.fault") == n - 1:
                self.consec += 1
                self.fired += 1
                self._last_injected = (name, args)
                self._rec(name, args, "INJECTED-RPCError")
                self.sim.sk("fault", "rpc_error", name)
                raise _RPCError("injected transient gRPC failure in %s" % name)

    def _rec(self, name, args, outcome):
        self.rpcs.append((len(self.rpcs), name, args, outcome))
        self.sim.ev("rpc", name, args, outcome)

    def _ok(self, name, args):
        if name not in ("pause_all", "resume_all"):
            self.consec = 0
            if self._last_injected is not None:
                self.retried_ok += 1
                self._last_injected = None
        self._rec(name, args, "ok")

    def _err(self, name, args, code, msg):
        if name not in ("pause_all", "resume_all"):
            self.consec = 0
        self._rec(name, args, "E" + errno.errorcode.get(code, str(code)))
        raise _Error(code, msg)

    # -- RPCs --------------------------------------------------------------
    def rpc_pause_all(self):
        self._maybe_fail("pause_all", ())
        self.paused += 1
        self._ok("pause_all", ())

    def rpc_resume_all(self):
        if self.paused > 0:
            self.paused -= 1
        self._ok("resume_all", ())

    def rpc_run_module_command(self, name, cmd, arg_type, arg):
        a = (name, cmd, tuple(sorted((k, arg[k]) for k in arg)) if isinstance(arg, dict) else repr(arg))
        self._maybe_fail("run_module_command", a)
        m = self.modules.get(name)
        if m is None:
            self._err("run_module_command", a, errno.ENOENT, "No module '%s' found" % name)
        if m.mclass != "IPLookup":
            self._err("run_module_command", a, errno.EINVAL, "unsupported module class for command")
        tbl = self.tables[name]
        if cmd == "add":
            prefix, plen, gate = arg["prefix"], int(arg["prefix_len"]), int(arg["gate"])
            if not isinstance(prefix, str) or not (0 <= plen <= 32):
                self._err("run_module_command", a, errno.EINVAL, "Invalid prefix")
            if not (0 <= gate < MAX_GATES):
                self._err("run_module_command", a, errno.EINVAL, "Invalid gate")
            tbl[(prefix, plen)] = gate
        elif cmd == "delete":
            prefix, plen = arg["prefix"], int(arg["prefix_len"])
            if (prefix, plen) in tbl:
                del tbl[(prefix, plen)]
            elif plen != 0:
                self._err("run_module_command", a, errno.EINVAL, "rpm_lpm_delete() failed")
        elif cmd == "clear":
            tbl.clear()
        else:
            self._err("run_module_command", a, errno.ENOTSUP, "unknown command " + str(cmd))
        self._ok("run_module_command", a)

    def rpc_create_module(self, mclass, name, arg):
        a = (mclass, name, repr(arg))
        self._maybe_fail("create_module", a)
        if name in self.modules:
            self._err("create_module", a, errno.EEXIST, "Module %s exists" % name)
        self._mk(name, mclass, arg, by_ctl=True)
        self._ok("create_module", a)

    def rpc_connect_modules(self, m1, m2, ogate, igate):
        a = (m1, m2, ogate, igate)
        self._maybe_fail("connect_modules", a)
        if m1 not in self.modules:
            self._err("connect_modules", a, errno.ENOENT, "No module '%s' found" % m1)
        if m2 not in self.modules:
            self._err("connect_modules", a, errno.ENOENT, "No module '%s' found" % m2)
        if (m1, ogate) in self.links:
            self._err("connect_modules", a, errno.EBUSY, "ogate %s already connected" % ogate)
        self.links[(m1, ogate)] = (m2, igate)
        self._ok("connect_modules", a)

    def rpc_disconnect_modules(self, name, ogate):
        a = (name, ogate)
        self._maybe_fail("disconnect_modules", a)
        if name not in self.modules:
            self._err("disconnect_modules", a, errno.ENOENT, "No module '%s' found" % name)
        self.links.pop((name, ogate), None)
        self._ok("disconnect_modules", a)

    def rpc_destroy_module(self, name):
        a = (name,)
        self._maybe_fail("destroy_module", a)
        if name not in self.modules:
            self._err("destroy_module", a, errno.ENOENT, "No module '%s' found" % name)
        del self.modules[name]
        self.tables.pop(name, None)
        for k in [k for k, v in self.links.items() if k[0] == name or v[0] == name]:
            del self.links[k]
        self._ok("destroy_module", a)


CURRENT = None  # the BessServer of the run in progress


class BESS:
    """Client facade with the pybess surface route_control touches."""

    Error = _Error
    RPCError = _RPCError
    APIError = _APIError
    ConstraintError = _ConstraintError
    DEF_PORT = 10514

    def __init__(self):
        self._srv = CURRENT
        if self._srv is None:
            raise RuntimeError("routesim: BESS() outside a simulation run")

    def is_connected(self):
        return self._srv.connected

    def connect(self, grpc_url=None):
        s = self._srv
        if s.connect_failures_left > 0:
            s.connect_failures_left -= 1
            s.fired += 1
            s._rec("connect", (grpc_url,), "INJECTED-RPCError")
            s.sim.sk("fault", "rpc_error", "connect")
            raise _RPCError("injected: bessd not reachable yet")
        s.connected = True
        s._rec("connect", (grpc_url,), "ok")

    def disconnect(self):
        self._srv.connected = False

    def pause_all(self):
        return self._srv.rpc_pause_all()

    def resume_all(self):
        return self._srv.rpc_resume_all()

    def run_module_command(self, name, cmd, arg_type, arg):
        return self._srv.rpc_run_module_command(name, cmd, arg_type, arg)

    def create_module(self, mclass, name=None, arg=None):
        return self._srv.rpc_create_module(mclass, name, arg)

    def connect_modules(self, m1, m2, ogate=0, igate=0):
        return self._srv.rpc_connect_modules(m1, m2, ogate, igate)

    def disconnect_modules(self, name, ogate=0):
        return self._srv.rpc_disconnect_modules(name, ogate)

    def destroy_module(self, name):
        return self._srv.rpc_destroy_module(name)

    def __getattr__(self, item):
        # an RPC the stand-in does not model: harness trouble, not a finding
        if item.startswith("__"):
            raise AttributeError(item)
        srv = self.__dict__.get("_srv")
        if srv is not None:
            srv.unsupported.append(item)
        raise AttributeError("routesim BESS stand-in does not model '%s'" % item)
