"""Imports the REAL route_control.py by path with pyroute2 / pybess / scapy
replaced in sys.modules by the simulator, and binds time/Thread to it."""
import errno
import hashlib
import importlib.util
import logging
import sys
import types

import simbess
import simkernel
from simcore import HarnessError

DEFAULT_MODULE_PATH = "/repo/conf/route_control.py"
_loaded = {}


def _mod(name, **attrs):
    m = types.ModuleType(name)
    m.__dict__.update(attrs)
    sys.modules[name] = m
    return m


def install_stubs():
    p = _mod("pyroute2", NDB=simkernel.NDB, IPRoute=simkernel.IPRoute)
    p.__path__ = []
    nl = _mod("pyroute2.netlink")
    nl.__path__ = []
    rt = _mod("pyroute2.netlink.rtnl")
    rt.__path__ = []
    _mod("pyroute2.netlink.rtnl.rtmsg", rtmsg=simkernel.rtmsg)
    _mod("pyroute2.netlink.rtnl.ndmsg", ndmsg=simkernel.ndmsg)
    p.netlink = nl
    nl.rtnl = rt
    pb = _mod("pybess")
    pb.__path__ = []
    # pybess/bess.py has no __all__, so `import *` also brings in the stdlib
    # modules it imports; route_control relies on `errno` arriving that way.
    pb.bess = _mod("pybess.bess", BESS=simbess.BESS, errno=errno)
    sc = _mod("scapy")
    sc.__path__ = []
    sc.all = _mod("scapy.all", IP=simkernel.IP, ICMP=simkernel.ICMP, send=simkernel.send)


class SimThread:
    """threading.Thread stand-in: never starts a thread; the world runs the
    target's loop body as a periodic simulated event."""

    started = []

    def __init__(self, group=None, target=None, name=None, args=(), kwargs=None, daemon=None):
        self.target = target
        self.args = args
        self.kwargs = kwargs or {}
        self.daemon = daemon
        self._alive = False

    def start(self):
        if self._alive:
            raise RuntimeError("threads can only be started once")
        self._alive = True
        SimThread.started.append(self)

    def is_alive(self):
        return self._alive

    def join(self, timeout=None):
        pass


class _TimeProxy:
    """`time` as seen by route_control: forwards to the current run's clock."""
    sim = None

    def sleep(self, secs):
        _TimeProxy.sim.sleep(secs)

    def time(self):
        return 1700000000.0 + _TimeProxy.sim.now

    def monotonic(self):
        return _TimeProxy.sim.now

    perf_counter = monotonic


def load(path=DEFAULT_MODULE_PATH):
    """Returns (module, sha256 of the file)."""
    if path in _loaded:
        return _loaded[path]
    # keep the module's logging.basicConfig() from attaching a stderr handler
    root = logging.getLogger()
    if not root.handlers:
        root.addHandler(logging.NullHandler())
    logging.disable(logging.CRITICAL)
    install_stubs()
    try:
        with open(path, "rb") as f:
            src = f.read()
    except OSError as e:
        raise HarnessError("cannot read module under test %s: %s" % (path, e))
    sha = hashlib.sha256(src).hexdigest()
    name = "route_control_under_test_" + sha[:8]
    spec = importlib.util.spec_from_file_location(name, path)
    mod = importlib.util.module_from_spec(spec)
    sys.modules[name] = mod
    try:
        spec.loader.exec_module(mod)
    except Exception as e:  # import failure = harness trouble
        raise HarnessError("importing %s failed: %r" % (path, e))
    for need in ("RouteController", "BessController"):
        if not hasattr(mod, need):
            raise HarnessError("%s has no %s" % (path, need))
    mod.time = _TimeProxy()
    mod.Thread = SimThread
    _loaded[path] = (mod, sha)
    return mod, sha


def bind(sim):
    _TimeProxy.sim = sim
    SimThread.started = []
