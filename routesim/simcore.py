"""Core of the deterministic simulator: one choice stream, a virtual clock and
two agendas (kernel-side timers, controller-side deliveries).

Nothing here reads the wall clock or any other source of nondeterminism.
"""
import hashlib
import heapq

MASK64 = (1 << 64) - 1
GAMMA = 0x9E3779B97F4A7C15


def mix64(z):
    z &= MASK64
    z = ((z ^ (z >> 30)) * 0xBF58476D1CE4E5B9) & MASK64
    z = ((z ^ (z >> 27)) * 0x94D049BB133111EB) & MASK64
    return z ^ (z >> 31)


def splitmix64(x):
    """One splitmix64 output for state x (stateless form)."""
    return mix64((x + GAMMA) & MASK64)


def derive_seed(base, idx, salt=0):
    """Per-run seed from (VERIF_SEED, run index)."""
    return splitmix64(splitmix64(base & MASK64) ^ splitmix64((idx * 2 + 1) & MASK64) ^ (salt * GAMMA & MASK64))


class HarnessError(Exception):
    """Trouble in the simulator/oracle itself (exit 2), never a VIOLATION."""


class LoopYield(BaseException):
    """Raised by the simulated time.sleep inside the ping loop so that one
    iteration of the real `while True` body runs per simulated period.
    BaseException so that `except Exception` in the code under test cannot
    swallow it."""


class Choices:
    """The single choice stream.  generate mode: splitmix64 from `seed`;
    replay mode: values from `prefix`, then zeros (or PRNG when seed given)."""

    MAX_DRAWS = 6000

    def __init__(self, seed=None, prefix=None):
        self.state = None if seed is None else (seed & MASK64)
        self.prefix = list(prefix) if prefix else []
        self.rec = []

    def choose(self, n, label=""):
        if n <= 1:
            return 0
        i = len(self.rec)
        if i < len(self.prefix):
            v = self.prefix[i] % n
        elif self.state is None or i >= self.MAX_DRAWS:
            v = 0
        else:
            self.state = (self.state + GAMMA) & MASK64
            v = mix64(self.state) % n
        self.rec.append(v)
        return v

    def weighted(self, weights, label=""):
        """Index drawn with integer weights; value 0 maps to the first item
        with non-zero weight (so item order decides what 'simplest' is)."""
        total = 0
        for w in weights:
            total += w
        if total <= 0:
            return -1
        v = self.choose(total, label)
        acc = 0
        for i, w in enumerate(weights):
            acc += w
            if v < acc:
                return i
        return len(weights) - 1


class Sim:
    """Virtual clock with two agendas.

    kernel agenda : things that happen in the kernel regardless of what the
                    controller is doing (ARP attempts finishing).
    ctl agenda    : things that need the controller's thread(s): netlink
                    deliveries (FIFO) and the periodic ping loop.
    """

    def __init__(self, choices):
        self.ch = choices
        self.now = 0.0
        self._seq = 0
        self.kheap = []
        self.cheap = []
        self.log = []          # full event log (tuples), hashed at the end
        self.skel = []         # skeleton: kinds + subjects, no times, no RPC detail
        self.in_pingloop = False
        self.in_handler = False
        self.slept = 0.0

    # -- logging (never draws) ------------------------------------------
    def ev(self, *items):
        self.log.append((round(self.now, 6),) + items)

    def sk(self, *items):
        self.skel.append(items)

    def log_hash(self):
        h = hashlib.sha256()
        for e in self.log:
            h.update(repr(e).encode())
            h.update(b"\n")
        return h.hexdigest()

    def skel_hash(self):
        h = hashlib.sha256()
        for e in self.skel:
            h.update(repr(e).encode())
            h.update(b"\n")
        return int.from_bytes(h.digest()[:8], "big")

    # -- agendas -----------------------------------------------------------
    def at_kernel(self, t, kind, data):
        self._seq += 1
        heapq.heappush(self.kheap, (t, self._seq, kind, data))

    def at_ctl(self, t, kind, data):
        self._seq += 1
        heapq.heappush(self.cheap, (t, self._seq, kind, data))

    # -- what the code under test sees as time.sleep -----------------------
    def sleep(self, secs):
        secs = float(secs)
        if self.in_pingloop and not self.in_handler:
            # the `time.sleep(10)` at the bottom of _ping_missing_entries
            raise LoopYield(secs)
        # a retry sleep inside a handler (under the controller's lock): the
        # clock advances, kernel-side timers fire, nothing is delivered.
        self.ev("sleep", secs)
        self.slept += secs
        target = self.now + secs
        self.run_kernel_until(target)
        self.now = target

    def run_kernel_until(self, t):
        while self.kheap and self.kheap[0][0] <= t:
            kt, _, kind, data = heapq.heappop(self.kheap)
            if kt > self.now:
                self.now = kt
            self.kernel_cb(kind, data)

    kernel_cb = None  # set by the world


class SimTime:
    """Stands in for the `time` module inside route_control."""

    def __init__(self, sim):
        self._sim = sim

    def sleep(self, secs):
        self._sim.sleep(secs)

    def time(self):
        return 1700000000.0 + self._sim.now

    def monotonic(self):
        return self._sim.now

    def perf_counter(self):
        return self._sim.now
