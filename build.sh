#!/bin/bash
# Builds the instrumented simulator binaries from /repo's current working tree.
# Usage: build.sh [plain|race|both]   -> prints the cache directory holding upfsim[-race]
# Exit 2 on any build trouble.
set -u
WHAT=${1:-plain}
export GOFLAGS=-mod=mod GOPROXY=off GOSUMDB=off GOTOOLCHAIN=local CGO_ENABLED=1
export PATH=/opt/veriftools/go1.26.8/bin:$PATH
GO=/opt/veriftools/go1.26.8/bin/go
V=${VERIF_SRC:-/verif}   # VERIF_SRC: evaluate with a frozen copy of the simulator sources (tools/seeded_all.sh)
REPO=${VERIF_REPO:-/repo}
CACHE=/verif/.cache
mkdir -p "$CACHE"
# key: repo working tree (tracked+untracked Go-relevant files) + verif sources + toolchain
KEY=$( (cd $REPO && find . -path ./.git -prune -o -type f \( -name '*.go' -o -name 'go.mod' -o -name 'go.sum' -o -name 'p4info.txt' \) -print0 | sort -z | xargs -0 sha256sum; \
        cd $V && find sim tools/vinstr -type f \( -name '*.go' -o -name 'go.mod' -o -name 'go.sum' \) ! -name '*_test.go' -print0 | sort -z | xargs -0 sha256sum; \
        $GO version) | sha256sum | cut -c1-24)
OUT=$CACHE/$KEY
need_plain=0; need_race=0
case $WHAT in
  plain) [ -x $OUT/upfsim ] || need_plain=1;;
  race)  [ -x $OUT/upfsim-race ] || need_race=1;;
  both)  [ -x $OUT/upfsim ] || need_plain=1; [ -x $OUT/upfsim-race ] || need_race=1;;
esac
if [ $need_plain = 0 ] && [ $need_race = 0 ]; then touch "$OUT"; echo "$OUT"; exit 0; fi
exec 9>"$CACHE/.lock"; flock 9
# re-check after taking the lock
[ -x $OUT/upfsim ] && need_plain=0
[ -x $OUT/upfsim-race ] && need_race=0
case $WHAT in plain) need_race=0;; race) need_plain=0;; esac
if [ $need_plain = 0 ] && [ $need_race = 0 ]; then echo "$OUT"; exit 0; fi
if [ ! -x $V/tools/vinstr/vinstr ] || [ $V/tools/vinstr/main.go -nt $V/tools/vinstr/vinstr ]; then
  (cd $V/tools/vinstr && $GO build -o vinstr . ) >&2 || { echo "build.sh: vinstr build failed" >&2; exit 2; }
fi
SC=$(mktemp -d /tmp/upfsim-build.XXXXXX)
trap 'rm -rf "$SC"' EXIT
rsync -a --exclude .git --exclude _mutants --exclude ptf --exclude docs --exclude deployments --exclude test --exclude '*_test.go' $REPO/ $SC/ >&2 || exit 2
mkdir -p $SC/zzverif
rsync -a --exclude go.mod --exclude go.sum --exclude '*_test.go' --exclude bridge $V/sim/ $SC/zzverif/ >&2 || exit 2
cp $V/sim/bridge/pfcpiface_zz_verif_bridge.go $SC/pfcpiface/zz_verif_bridge.go || exit 2
[ -f $V/sim/bridge/metrics_zz_verif_bridge.go ] && cp $V/sim/bridge/metrics_zz_verif_bridge.go $SC/pfcpiface/metrics/zz_verif_bridge.go
cp $REPO/conf/p4/bin/p4info.txt $SC/zzverif/vsimenv/p4info.txt 2>/dev/null
(cd $SC && $GO mod edit -require=github.com/anishathalye/porcupine@v1.3.0) >&2 || exit 2
(cd $SC && $V/tools/vinstr/vinstr -root $SC -sites $SC/zzverif/vsim/sites_gen.go ./pfcpiface ./pfcpiface/metrics) >&2 || { echo "build.sh: instrumentation failed" >&2; exit 2; }
mkdir -p $OUT
if [ $need_plain = 1 ]; then
  (cd $SC && $GO build -o $OUT/upfsim.tmp ./zzverif/cmd/upfsim) >&2 || { echo "build.sh: plain build failed" >&2; exit 2; }
  mv $OUT/upfsim.tmp $OUT/upfsim
fi
if [ $need_race = 1 ]; then
  (cd $SC && $GO build -race -o $OUT/upfsim-race.tmp ./zzverif/cmd/upfsim) >&2 || { echo "build.sh: race build failed" >&2; exit 2; }
  mv $OUT/upfsim-race.tmp $OUT/upfsim-race
fi
# keep the cache bounded
# prune by age, never by count: a concurrent check (or an evaluation of seeded changes) may still be
# running a binary from an older directory; every use refreshes the directory's time stamp
find $CACHE -mindepth 1 -maxdepth 1 -type d -mmin +180 -exec rm -rf {} + 2>/dev/null
echo "$OUT"
