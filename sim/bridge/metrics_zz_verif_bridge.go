package metrics

import (
	"github.com/prometheus/client_golang/prometheus"
	dto "github.com/prometheus/client_model/go"
)

// VerifSessionsGauge sums the pfcp_sessions gauge over all node ids.
func VerifSessionsGauge(i InstrumentPFCP) float64 {
	s, ok := i.(*Service)
	if !ok || s == nil {
		return -1
	}
	ch := make(chan prometheus.Metric, 1024)
	s.sessions.Collect(ch)
	close(ch)
	total := 0.0
	for m := range ch {
		var d dto.Metric
		if m.Write(&d) == nil && d.Gauge != nil {
			total += d.Gauge.GetValue()
		}
	}
	return total
}
