package pfcpiface

import "github.com/omec-project/upf-epc/pfcpiface/metrics"

// White-box observations for the verification harness (copied into the
// scratch build only; never part of /repo).

// VerifResetGlobals resets package-level state that a process restart resets.
func VerifResetGlobals() {
	enableGtpuPathMonitoring = false
}

// VerifTEIDAllocated reports whether the TEID generator still marks id as used.
func (p *PFCPIface) VerifTEIDAllocated(id uint32) bool {
	return p.upf.fteidGenerator.IsAllocated(id)
}

// VerifSetTEIDCursor places the allocation cursor so that the next allocated
// TEID is next (wrap-around tests).
func (p *PFCPIface) VerifSetTEIDCursor(next uint32) {
	g := p.upf.fteidGenerator
	g.lock.Lock()
	g.offset = next - minValue
	g.lock.Unlock()
}

// VerifPoolFree returns the number of free UE addresses, -1 without pool.
func (p *PFCPIface) VerifPoolFree() int {
	if p.upf.ippool == nil {
		return -1
	}
	p.upf.ippool.mu.Lock()
	defer p.upf.ippool.mu.Unlock()
	return len(p.upf.ippool.freePool)
}

// VerifPoolHeld returns the number of sessions holding an address.
func (p *PFCPIface) VerifPoolHeld() int {
	if p.upf.ippool == nil {
		return -1
	}
	p.upf.ippool.mu.Lock()
	defer p.upf.ippool.mu.Unlock()
	return len(p.upf.ippool.inventory)
}

// VerifTEIDsUsed returns the number of TEIDs marked used.
func (p *PFCPIface) VerifTEIDsUsed() int {
	g := p.upf.fteidGenerator
	g.lock.Lock()
	defer g.lock.Unlock()
	return len(g.usedMap)
}

// VerifSessionsGauge returns the summed pfcp_sessions gauge (-1 before init).
func (p *PFCPIface) VerifSessionsGauge() float64 {
	if p.node == nil {
		return -1
	}
	return metrics.VerifSessionsGauge(p.node.metrics)
}

// VerifStoredSessions counts session records over all associations.
func (p *PFCPIface) VerifStoredSessions() int {
	if p.node == nil {
		return -1
	}
	n := 0
	p.node.pConns.Range(func(_, v interface{}) bool {
		n += len(v.(*PFCPConn).store.GetAllSessions())
		return true
	})
	return n
}

// VerifAssociations counts registered PFCP connections.
func (p *PFCPIface) VerifAssociations() int {
	if p.node == nil {
		return -1
	}
	n := 0
	p.node.pConns.Range(func(_, _ interface{}) bool { n++; return true })
	return n
}

// VerifUP4Occupancy returns the sizes of the UP4 plug-in's bookkeeping maps and
// free-id pools (nil on another datapath). Read at quiescence only.
func (p *PFCPIface) VerifUP4Occupancy() map[string]int {
	u, ok := p.upf.datapath.(*UP4)
	if !ok {
		return nil
	}
	out := map[string]int{
		"tunnelPeerIDs":        len(u.tunnelPeerIDs),
		"tunnelPeerIDsPool":    len(u.tunnelPeerIDsPool),
		"applicationIDs":       len(u.applicationIDs),
		"applicationIDsPool":   len(u.applicationIDsPool),
		"meters":               len(u.meters),
		"ueAddrToFSEID":        len(u.ueAddrToFSEID),
		"fseidToUEAddr":        len(u.fseidToUEAddr),
		"appMeterCellIDsPool":  -1,
		"sessMeterCellIDsPool": -1,
		"counterIDsPools":      0,
	}
	if u.appMeterCellIDsPool != nil {
		out["appMeterCellIDsPool"] = u.appMeterCellIDsPool.Cardinality()
	}
	if u.sessMeterCellIDsPool != nil {
		out["sessMeterCellIDsPool"] = u.sessMeterCellIDsPool.Cardinality()
	}
	for _, c := range u.counters {
		if c.counterIDsPool != nil {
			out["counterIDsPools"] += c.counterIDsPool.Cardinality()
		}
	}
	return out
}

// VerifUP4ShrinkIDPools leaves only the first keep free tunnel-peer and
// application ids in their pools (a deployment that has used up most of its
// ids), so that a wrongly released id comes round again after a few sessions.
// Called before the first session.
func (p *PFCPIface) VerifUP4ShrinkIDPools(keep int) bool {
	u, ok := p.upf.datapath.(*UP4)
	if !ok {
		return false
	}
	u.tunnelPeerMu.Lock()
	if len(u.tunnelPeerIDsPool) > keep {
		u.tunnelPeerIDsPool = u.tunnelPeerIDsPool[:keep:keep]
	}
	u.tunnelPeerMu.Unlock()
	u.applicationMu.Lock()
	if len(u.applicationIDsPool) > keep {
		u.applicationIDsPool = u.applicationIDsPool[:keep:keep]
	}
	u.applicationMu.Unlock()
	return true
}

// VerifUP4FreeIDs returns the ids currently in the free pools of the UP4
// plug-in, per id space. Read at quiescence only.
func (p *PFCPIface) VerifUP4FreeIDs() map[string][]uint64 {
	u, ok := p.upf.datapath.(*UP4)
	if !ok {
		return nil
	}
	out := map[string][]uint64{}
	for _, id := range u.tunnelPeerIDsPool {
		out["tunnel-peer"] = append(out["tunnel-peer"], uint64(id))
	}
	for _, id := range u.applicationIDsPool {
		out["application"] = append(out["application"], uint64(id))
	}
	conv := func(v interface{}) (uint64, bool) {
		switch x := v.(type) {
		case uint64:
			return x, true
		case uint32:
			return uint64(x), true
		case int:
			return uint64(x), true
		case uint8:
			return uint64(x), true
		}
		return 0, false
	}
	if u.appMeterCellIDsPool != nil {
		for _, v := range u.appMeterCellIDsPool.ToSlice() {
			if id, ok := conv(v); ok {
				out["app-meter-cell"] = append(out["app-meter-cell"], id)
			}
		}
	}
	if u.sessMeterCellIDsPool != nil {
		for _, v := range u.sessMeterCellIDsPool.ToSlice() {
			if id, ok := conv(v); ok {
				out["session-meter-cell"] = append(out["session-meter-cell"], id)
			}
		}
	}
	if len(u.counters) > 0 && u.counters[0].counterIDsPool != nil {
		for _, v := range u.counters[0].counterIDsPool.ToSlice() {
			if id, ok := conv(v); ok {
				out["counter-cell"] = append(out["counter-cell"], id)
			}
		}
	}
	return out
}
