package pfcpiface

import (
	"reflect"
	"sync"
	"unsafe"

	"github.com/omec-project/upf-epc/pfcpiface/metrics"
)

// White-box observations for the verification harness (copied into the
// scratch build only; never part of /repo). Everything that looks inside a
// structure goes through reflection by field NAME: a change to /repo that
// renames or retypes an internal field must not break the build of the
// simulator - the probe then answers "unknown" (-1 / nil) and the oracle that
// uses it skips its white-box half. Probes run at quiescence, on the simulator
// side; they take no locks.

// verifField returns the (addressable, readable) field name of the struct that
// obj points to, or an invalid Value.
func verifField(obj interface{}, name string) reflect.Value {
	v := reflect.ValueOf(obj)
	for v.IsValid() && (v.Kind() == reflect.Ptr || v.Kind() == reflect.Interface) {
		if v.IsNil() {
			return reflect.Value{}
		}
		v = v.Elem()
	}
	if !v.IsValid() || v.Kind() != reflect.Struct {
		return reflect.Value{}
	}
	f := v.FieldByName(name)
	if !f.IsValid() {
		return f
	}
	if f.CanAddr() {
		f = reflect.NewAt(f.Type(), unsafe.Pointer(f.UnsafeAddr())).Elem() // lift the unexported-field restriction
	}
	return f
}

// verifLen: number of elements of a map / slice / sync.Map / golang-set field; -1 when unknown.
func verifLen(obj interface{}, name string) int {
	f := verifField(obj, name)
	if !f.IsValid() {
		return -1
	}
	return verifLenOf(f)
}

func verifLenOf(f reflect.Value) int {
	for f.Kind() == reflect.Ptr || f.Kind() == reflect.Interface {
		if f.IsNil() {
			return -1
		}
		if m := f.MethodByName("Cardinality"); m.IsValid() { // golang-set
			return int(m.Call(nil)[0].Int())
		}
		f = f.Elem()
	}
	switch f.Kind() {
	case reflect.Map, reflect.Slice, reflect.Array, reflect.Chan:
		return f.Len()
	case reflect.Struct:
		if f.CanAddr() {
			if sm, ok := f.Addr().Interface().(*sync.Map); ok {
				n := 0
				sm.Range(func(_, _ interface{}) bool { n++; return true })
				return n
			}
			if m := f.Addr().MethodByName("Cardinality"); m.IsValid() {
				return int(m.Call(nil)[0].Int())
			}
		}
	}
	return -1
}

// verifUints lists the elements of a slice / golang-set field of unsigned integers; nil when unknown.
func verifUints(f reflect.Value) []uint64 {
	if !f.IsValid() {
		return nil
	}
	for f.Kind() == reflect.Ptr || f.Kind() == reflect.Interface {
		if f.IsNil() {
			return nil
		}
		if m := f.MethodByName("ToSlice"); m.IsValid() {
			f = m.Call(nil)[0]
			break
		}
		f = f.Elem()
	}
	if f.Kind() != reflect.Slice && f.Kind() != reflect.Array {
		return nil
	}
	out := []uint64{}
	for i := 0; i < f.Len(); i++ {
		e := f.Index(i)
		for e.Kind() == reflect.Interface {
			e = e.Elem()
		}
		switch e.Kind() {
		case reflect.Uint8, reflect.Uint16, reflect.Uint32, reflect.Uint64, reflect.Uint:
			out = append(out, e.Uint())
		case reflect.Int, reflect.Int32, reflect.Int64:
			out = append(out, uint64(e.Int()))
		}
	}
	return out
}

// VerifResetGlobals resets package-level state that a process restart resets.
func VerifResetGlobals() {
	enableGtpuPathMonitoring = false
	if verifResetGenerated != nil {
		verifResetGenerated()
	}
}

// verifResetGenerated is set by the file the instrumenter generates: it re-assigns
// every package-level variable whose initialiser can be evaluated again (what a
// real restart of the process would do).
var verifResetGenerated func()

// VerifTEIDAllocated reports whether the TEID generator still marks id as used.
func (p *PFCPIface) VerifTEIDAllocated(id uint32) bool {
	return p.upf.fteidGenerator.IsAllocated(id)
}

// VerifSetTEIDCursor places the allocation cursor so that the next allocated
// TEID is next (wrap-around tests). Returns false when the generator has no
// cursor field this probe understands.
func (p *PFCPIface) VerifSetTEIDCursor(next uint32) bool {
	f := verifField(p.upf.fteidGenerator, "offset")
	if !f.IsValid() {
		return false
	}
	want := uint64(next - minValue)
	switch f.Kind() {
	case reflect.Uint32, reflect.Uint64, reflect.Uint:
		f.SetUint(want)
		return true
	case reflect.Struct: // sync/atomic.Uint32 and friends
		if m := f.Addr().MethodByName("Store"); m.IsValid() && m.Type().NumIn() == 1 {
			arg := reflect.New(m.Type().In(0)).Elem()
			switch arg.Kind() {
			case reflect.Uint32, reflect.Uint64:
				arg.SetUint(want)
				m.Call([]reflect.Value{arg})
				return true
			}
		}
	}
	return false
}

// VerifPoolFree returns the number of free UE addresses, -1 without pool / unknown.
func (p *PFCPIface) VerifPoolFree() int {
	if p.upf.ippool == nil {
		return -1
	}
	return verifLen(p.upf.ippool, "freePool")
}

// VerifPoolHeld returns the number of sessions holding an address, -1 without pool / unknown.
func (p *PFCPIface) VerifPoolHeld() int {
	if p.upf.ippool == nil {
		return -1
	}
	return verifLen(p.upf.ippool, "inventory")
}

// VerifTEIDsUsed returns the number of TEIDs marked used, -1 when unknown.
func (p *PFCPIface) VerifTEIDsUsed() int {
	return verifLen(p.upf.fteidGenerator, "usedMap")
}

// VerifSessionsGauge returns the summed pfcp_sessions gauge (-1 before init).
func (p *PFCPIface) VerifSessionsGauge() float64 {
	if p.node == nil {
		return -1
	}
	return metrics.VerifSessionsGauge(p.node.metrics)
}

// VerifStoredSessions counts session records over all associations.
func (p *PFCPIface) VerifStoredSessions() int {
	if p.node == nil {
		return -1
	}
	n := 0
	p.node.pConns.Range(func(_, v interface{}) bool {
		n += len(v.(*PFCPConn).store.GetAllSessions())
		return true
	})
	return n
}

// VerifAssociations counts registered PFCP connections.
func (p *PFCPIface) VerifAssociations() int {
	if p.node == nil {
		return -1
	}
	n := 0
	p.node.pConns.Range(func(_, _ interface{}) bool { n++; return true })
	return n
}

// VerifUP4Occupancy returns the sizes of the UP4 plug-in's bookkeeping maps and
// free-id pools (nil on another datapath; -1 for what this probe cannot read).
func (p *PFCPIface) VerifUP4Occupancy() map[string]int {
	u, ok := p.upf.datapath.(*UP4)
	if !ok {
		return nil
	}
	out := map[string]int{}
	for _, k := range []string{"tunnelPeerIDs", "tunnelPeerIDsPool", "applicationIDs", "applicationIDsPool", "meters", "ueAddrToFSEID", "fseidToUEAddr", "appMeterCellIDsPool", "sessMeterCellIDsPool"} {
		out[k] = verifLen(u, k)
	}
	out["counterIDsPools"] = 0
	if cs := verifField(u, "counters"); cs.IsValid() && cs.Kind() == reflect.Slice {
		for i := 0; i < cs.Len(); i++ {
			if n := verifLen(cs.Index(i).Addr().Interface(), "counterIDsPool"); n > 0 {
				out["counterIDsPools"] += n
			}
		}
	} else {
		out["counterIDsPools"] = -1
	}
	return out
}

// VerifUP4ShrinkIDPools leaves only the first keep free tunnel-peer and
// application ids in their pools (a deployment that has used up most of its
// ids), so that a wrongly released id comes round again after a few sessions.
// Called before the first session.
func (p *PFCPIface) VerifUP4ShrinkIDPools(keep int) bool {
	u, ok := p.upf.datapath.(*UP4)
	if !ok {
		return false
	}
	done := false
	for _, k := range []string{"tunnelPeerIDsPool", "applicationIDsPool"} {
		f := verifField(u, k)
		if f.IsValid() && f.Kind() == reflect.Slice && f.Len() > keep {
			f.Set(f.Slice3(0, keep, keep))
			done = true
		}
	}
	return done
}

// VerifUP4FreeIDs returns the ids currently in the free pools of the UP4
// plug-in, per id space (a space this probe cannot read is absent).
func (p *PFCPIface) VerifUP4FreeIDs() map[string][]uint64 {
	u, ok := p.upf.datapath.(*UP4)
	if !ok {
		return nil
	}
	out := map[string][]uint64{}
	for space, field := range map[string]string{"tunnel-peer": "tunnelPeerIDsPool", "application": "applicationIDsPool", "app-meter-cell": "appMeterCellIDsPool", "session-meter-cell": "sessMeterCellIDsPool"} {
		if ids := verifUints(verifField(u, field)); ids != nil {
			out[space] = ids
		}
	}
	if cs := verifField(u, "counters"); cs.IsValid() && cs.Kind() == reflect.Slice && cs.Len() > 0 {
		if ids := verifUints(verifField(cs.Index(0).Addr().Interface(), "counterIDsPool")); ids != nil {
			out["counter-cell"] = ids
		}
	}
	return out
}

// VerifSetSeqCursor places the sequence-number counter of every registered PFCP
// connection so that the next request the agent originates on it carries the
// number next (wrap-around of the 24 bits PFCP has on the wire: more than 16
// million heartbeats / reports into the life of an association). Returns the
// number of connections whose counter this probe could set.
func (p *PFCPIface) VerifSetSeqCursor(next uint32) int {
	if p.node == nil {
		return 0
	}
	n := 0
	p.node.pConns.Range(func(_, v interface{}) bool {
		sn := verifField(v, "seqNum")
		if !sn.IsValid() || sn.Kind() != reflect.Struct || !sn.CanAddr() {
			return true
		}
		f := verifField(sn.Addr().Interface(), "seq")
		if f.IsValid() && f.CanSet() {
			switch f.Kind() {
			case reflect.Uint32, reflect.Uint64, reflect.Uint:
				f.SetUint(uint64(next - 1))
				n++
			}
		}
		return true
	})
	return n
}
