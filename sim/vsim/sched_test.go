package vsim

import (
	"sync"
	"testing"
	"time"
)

func runOnce(seed uint64, strat Strategy, gap int) (uint64, int, []string) {
	ch := NewChoices(seed)
	s := New(ch)
	s.Strat = strat
	s.MaxGap = gap
	s.KeepLog = true
	S = s
	s.armPreempt()
	var mu sync.Mutex
	c := make(chan int)
	total := 0
	_ = total
	for i := 0; i < 3; i++ {
		i := i
		s.Spawn(1, "prod", func() {
			for k := 0; k < 5; k++ {
				P(1)
				Send(c, i*10+k)
				P(2)
				Sleep(time.Duration(i+1) * time.Millisecond)
			}
		})
	}
	s.Spawn(1, "cons", func() {
		tm := NewTimer(50 * time.Millisecond)
		for {
			var v int
			var ok bool
			var tv time.Time
			var tok bool
			switch SelectCases(false, RecvCase(c, &v, &ok), RecvCase(tm.C, &tv, &tok)) {
			case 0:
				Lock(&mu)
				total += v
				mu.Unlock()
				TaskLogf("got %d", v)
			case 1:
				Lock(&mu)
				TaskLogf("timeout total=%d", total)
				mu.Unlock()
				return
			}
		}
	})
	s.RunUntil(nil, int64(time.Second))
	S = nil
	return s.LogHash(), 0, s.LogLines
}

func TestDeterminism(t *testing.T) {
	for _, st := range []Strategy{StratRunToBlock, StratRandom} {
		for seed := uint64(1); seed < 20; seed++ {
			h1, tot1, l1 := runOnce(seed, st, 7)
			h2, tot2, _ := runOnce(seed, st, 7)
			if last := l1[len(l1)-1]; len(last) < 9 || last[len(last)-9:] != "total=180" {
				t.Fatalf("seed %d log %v", seed, l1)
			}
			if h1 != h2 || tot1 != tot2 {
				t.Fatalf("nondeterministic seed %d", seed)
			}
			if l1[len(l1)-1] != "50000000 timeout total=180" && false {
				t.Fatalf("seed %d total %d log %v", seed, tot1, l1)
			}
		}
	}
	hs := map[uint64]bool{}
	for seed := uint64(1); seed < 30; seed++ {
		h, _, _ := runOnce(seed, StratRandom, 5)
		hs[h] = true
	}
	if len(hs) < 5 {
		t.Fatalf("too few distinct schedules: %d", len(hs))
	}
}
