package vsim

import (
	"fmt"
	"math/rand"
	"reflect"
	"runtime"
	"sort"
	"sync"
	"time"
)

// ---------------------------------------------------------------- channels
//
// Channels stay the program's real channels. A task never really blocks on
// one while it holds the token: every operation is first tried as a real
// non-blocking operation (this is all a *buffered* channel, a closed channel
// or a channel whose other end is an uninstrumented goroutine ever needs).
//
// Two polling tasks can never rendezvous on an *unbuffered* channel through
// non-blocking operations alone (a non-blocking send succeeds only if a
// receiver is really parked). For cap==0 channels a small CSP side table,
// owned by the simulator goroutine, matches a blocked sender with a receiver:
// the value travels through a one-slot auxiliary channel (real send + real
// receive: the sender->receiver happens-before edge is a real one) and a
// second one-slot channel carries the receiver->sender edge that an unbuffered
// channel guarantees.

type entry struct {
	grp  *selGroup
	idx  int // case index inside the group
	send bool
	id   uintptr
	aux  any           // chan T, cap 1
	back chan struct{} // cap 1: reverse edge (recv: filled at registration; send: filled by the matcher)
}

type selGroup struct {
	decided bool
	winner  *entry
	entries []*entry
}

type chanQ struct{ ents []*entry }

// side table; simulator goroutine only.
var chanTab = map[uintptr]*chanQ{}

func ResetChanTable() { chanTab = map[uintptr]*chanQ{} }

// Case is one communication clause of a select.
type Case struct {
	send    bool
	id      uintptr
	unbuf   bool
	null    bool
	tryReal func() bool
	mk      func() (aux any, back chan struct{}) // build the channels of my side-table entry
	match   func(aux any, back chan struct{})    // rendezvous with a registered peer entry
	finish  func(aux any, back chan struct{})    // my registered entry was matched by a peer
}

func ZeroOf[T any](c <-chan T) (z T)  { return }
func ZeroOfS[T any](c chan<- T) (z T) { return }

func chanID(c any) uintptr { return reflect.ValueOf(c).Pointer() }

func RecvCase[T any](c <-chan T, v *T, ok *bool) Case {
	cs := Case{id: chanID(c), unbuf: cap(c) == 0, null: c == nil}
	cs.tryReal = func() bool {
		select {
		case x, k := <-c:
			*v, *ok = x, k
			return true
		default:
			return false
		}
	}
	cs.mk = func() (any, chan struct{}) {
		back := make(chan struct{}, 1)
		back <- struct{}{} // release: everything before my receive op
		return make(chan T, 1), back
	}
	cs.match = func(aux any, back chan struct{}) { // peer is a waiting sender
		*v = <-aux.(chan T)
		*ok = true
		back <- struct{}{}
	}
	cs.finish = func(aux any, back chan struct{}) { // a sender matched my waiting entry
		*v = <-aux.(chan T)
		*ok = true
	}
	return cs
}

func SendCase[T any](c chan<- T, v T) Case {
	cs := Case{send: true, id: chanID(c), unbuf: cap(c) == 0, null: c == nil}
	cs.tryReal = func() bool {
		select {
		case c <- v: // panics on a closed channel, as the real send does
			return true
		default:
			return false
		}
	}
	cs.mk = func() (any, chan struct{}) {
		a := make(chan T, 1)
		a <- v
		return a, make(chan struct{}, 1)
	}
	cs.match = func(aux any, back chan struct{}) { // peer is a waiting receiver
		aux.(chan T) <- v
		<-back
	}
	cs.finish = func(aux any, back chan struct{}) { <-back }
	return cs
}

func Recv[T any](c <-chan T) T {
	var v T
	var ok bool
	SelectCases(false, RecvCase(c, &v, &ok))
	return v
}

func Recv2[T any](c <-chan T) (T, bool) {
	var v T
	var ok bool
	SelectCases(false, RecvCase(c, &v, &ok))
	return v, ok
}

func Send[T any](c chan<- T, v T) { SelectCases(false, SendCase(c, v)) }

func Close[T any](c chan<- T) {
	syncPoint()
	close(c)
}

func removeGroup(g *selGroup) {
	for _, e := range g.entries {
		q := chanTab[e.id]
		if q == nil {
			continue
		}
		for i, x := range q.ents {
			if x == e {
				q.ents = append(q.ents[:i], q.ents[i+1:]...)
				break
			}
		}
		if len(q.ents) == 0 {
			delete(chanTab, e.id)
		}
	}
	g.entries = nil
}

// findPeer returns the oldest registered entry of the opposite direction on
// channel id that belongs to an undecided group other than g, and marks that
// group decided.
func findPeer(id uintptr, wantSend bool, g *selGroup) *entry {
	q := chanTab[id]
	if q == nil {
		return nil
	}
	for _, e := range q.ents {
		if e.send == wantSend && e.grp != g && !e.grp.decided {
			e.grp.decided = true
			e.grp.winner = e
			removeGroup(e.grp)
			return e
		}
	}
	return nil
}

// SelectCases implements select (and, with one case, plain send / receive).
// Cases are tried in a recorded rotation; the index of the one that fires is
// returned, -1 for default.
func SelectCases(hasDefault bool, cases ...Case) int {
	t := Cur()
	n := len(cases)
	if t == nil {
		// outside the scheduler: real polling (no rendezvous table)
		for {
			for i := range cases {
				if !cases[i].null && cases[i].tryReal() {
					return i
				}
			}
			if hasDefault {
				return -1
			}
			runtime.Gosched()
			time.Sleep(50 * time.Microsecond)
		}
	}
	syncPoint()
	off := 0
	if n > 1 {
		off = chooseFromTask(n, "select")
	}
	var g *selGroup
	registered := false
	for {
		if g != nil {
			if idx, aux, back := selWinner(g); idx >= 0 {
				cases[idx].finish(aux, back)
				return idx
			}
		}
		for k := 0; k < n; k++ {
			i := (off + k) % n
			cs := &cases[i]
			if cs.null {
				continue
			}
			if cs.tryReal() {
				if registered {
					selWithdraw(g)
				}
				return i
			}
			if cs.unbuf {
				if g == nil {
					g = selNewGroup()
				}
				if ok, aux, back := selFindPeer(cs.id, !cs.send, g); ok {
					if registered {
						selWithdraw(g)
					}
					cs.match(aux, back)
					return i
				}
			}
		}
		if hasDefault {
			return -1
		}
		if !registered {
			registered = true
			if g == nil {
				g = selNewGroup()
			}
			for i := range cases {
				cs := &cases[i]
				if cs.null || !cs.unbuf {
					continue
				}
				aux, back := cs.mk()
				selRegister(g, i, cs.id, cs.send, aux, back)
			}
		}
		blockYield(t)
	}
}

//go:norace
func selNewGroup() *selGroup {
	var g *selGroup
	call(func() { g = &selGroup{} })
	return g
}

//go:norace
func selWinner(g *selGroup) (int, any, chan struct{}) {
	idx := -1
	var aux any
	var back chan struct{}
	call(func() {
		if g.decided {
			idx, aux, back = g.winner.idx, g.winner.aux, g.winner.back
		}
	})
	return idx, aux, back
}

//go:norace
func selWithdraw(g *selGroup) { call(func() { removeGroup(g) }) }

//go:norace
func selFindPeer(id uintptr, wantSend bool, g *selGroup) (bool, any, chan struct{}) {
	var ok bool
	var aux any
	var back chan struct{}
	call(func() {
		if e := findPeer(id, wantSend, g); e != nil {
			ok, aux, back = true, e.aux, e.back
		}
	})
	return ok, aux, back
}

//go:norace
func selRegister(g *selGroup, idx int, id uintptr, send bool, aux any, back chan struct{}) {
	call(func() {
		e := &entry{grp: g, idx: idx, id: id, send: send, aux: aux, back: back}
		g.entries = append(g.entries, e)
		q := chanTab[id]
		if q == nil {
			q = &chanQ{}
			chanTab[id] = q
		}
		q.ents = append(q.ents, e)
	})
}

// Select is the closure form (kept for harness code): polls are tried in a
// recorded rotation. It cannot rendezvous on unbuffered channels.
func Select(hasDefault bool, polls ...func() bool) int {
	t := Cur()
	if t == nil {
		for {
			for i, p := range polls {
				if p() {
					return i
				}
			}
			if hasDefault {
				return -1
			}
		}
	}
	syncPoint()
	n := len(polls)
	off := 0
	if n > 1 {
		off = chooseFromTask(n, "select")
	}
	for {
		for k := 0; k < n; k++ {
			i := (off + k) % n
			if polls[i]() {
				return i
			}
		}
		if hasDefault {
			return -1
		}
		blockYield(t)
	}
}

// chooseFromTask draws a choice on behalf of a task (executed by the
// simulator goroutine, which owns the choice stream).
//
//go:norace
func chooseFromTask(n int, label string) int {
	var v int
	s := S
	call(func() { v = s.Ch.Choose(n, label) })
	return v
}

// Choose is the exported form (environment code running on a task).
func Choose(n int, label string) int {
	if Cur() == nil {
		return S.Ch.Choose(n, label)
	}
	return chooseFromTask(n, label)
}

// ---------------------------------------------------------------- locks

func Lock(m *sync.Mutex) { Block(m.TryLock) }

func RWLock(m *sync.RWMutex)  { Block(m.TryLock) }
func RWRLock(m *sync.RWMutex) { Block(m.TryRLock) }

// Once: side table so that a second caller of Do waits (by polling) while the
// first one is pre-empted inside it.
type onceState struct {
	done    bool
	running bool
}

var onceTab sync.Map // *sync.Once -> *onceState (touched by tasks only; one at a time)

// oncePoll / onceFinish touch the side table entry, which tasks of different
// goroutines share with nothing but the (invisible) token between them: the race
// detector must not see these accesses. The program-visible happens-before edge
// of sync.Once is kept by the real o.Do calls below.
//
//go:norace
func oncePoll(st *onceState, mine *bool) bool {
	if st.done {
		return true
	}
	if !st.running {
		st.running = true
		*mine = true
		return true
	}
	return false
}

//go:norace
func onceFinish(st *onceState) {
	st.done = true
	st.running = false
}

func OnceDo(o *sync.Once, f func()) {
	if Cur() == nil {
		o.Do(f)
		return
	}
	v, _ := onceTab.LoadOrStore(o, &onceState{})
	st := v.(*onceState)
	mine := new(bool)
	Block(func() bool { return oncePoll(st, mine) })
	if *mine {
		defer func() {
			onceFinish(st)
			// keep sync.Once's own happens-before edge
			o.Do(func() {})
		}()
		f()
		return
	}
	o.Do(func() {})
}

// WaitGroup: a side counter (simulator goroutine only) decides readiness
// deterministically; the real WaitGroup is kept in step so that its
// happens-before edges stay real (Wait is only called once it cannot block).
var wgTab = map[*sync.WaitGroup]int{}

func ResetWaitGroups() { wgTab = map[*sync.WaitGroup]int{} }

//go:norace
func wgDelta(wg *sync.WaitGroup, d int) {
	call(func() { wgTab[wg] += d })
}

//go:norace
func wgZero(wg *sync.WaitGroup) bool {
	var z bool
	call(func() { z = wgTab[wg] <= 0 })
	return z
}

func WaitGroupAdd(wg *sync.WaitGroup, n int) {
	if Cur() != nil {
		wgDelta(wg, n)
	}
	wg.Add(n)
}

func WaitGroupDone(wg *sync.WaitGroup) {
	if Cur() != nil {
		syncPoint()
	}
	// the real Done first: when the side counter reaches zero every real Done
	// has completed, so the waiter's real Wait cannot block
	wg.Done()
	if Cur() != nil {
		wgDelta(wg, -1)
	}
}

func WaitGroupWait(wg *sync.WaitGroup) {
	if Cur() == nil {
		wg.Wait()
		return
	}
	Block(func() bool { return wgZero(wg) })
	wg.Wait() // cannot block: see WaitGroupDone
}

// ---------------------------------------------------------------- sync.Map with deterministic Range

// Map is a real sync.Map (happens-before semantics kept) whose Range visits
// keys in a recorded, seeded permutation of their sorted order.
type Map struct{ m sync.Map }

func (m *Map) Load(k any) (any, bool)           { return m.m.Load(k) }
func (m *Map) Store(k, v any)                   { m.m.Store(k, v) }
func (m *Map) LoadOrStore(k, v any) (any, bool) { return m.m.LoadOrStore(k, v) }
func (m *Map) LoadAndDelete(k any) (any, bool)  { return m.m.LoadAndDelete(k) }
func (m *Map) Delete(k any)                     { m.m.Delete(k) }
func (m *Map) Swap(k, v any) (any, bool)        { return m.m.Swap(k, v) }
func (m *Map) CompareAndSwap(k, o, n any) bool  { return m.m.CompareAndSwap(k, o, n) }
func (m *Map) CompareAndDelete(k, o any) bool   { return m.m.CompareAndDelete(k, o) }
func (m *Map) Clear()                           { m.m.Clear() }

func (m *Map) Range(f func(k, v any) bool) {
	type kv struct {
		k, v any
		s    string
	}
	var all []kv
	m.m.Range(func(k, v any) bool {
		all = append(all, kv{k, v, fmt.Sprintf("%T:%v", k, k)})
		return true
	})
	sort.SliceStable(all, func(i, j int) bool { return all[i].s < all[j].s })
	permute(len(all), func(i, j int) { all[i], all[j] = all[j], all[i] }, "range")
	for _, e := range all {
		if !f(e.k, e.v) {
			return
		}
	}
}

// permute applies a recorded Fisher-Yates shuffle (identity when every choice is 0).
func permute(n int, swap func(i, j int), label string) {
	if S == nil {
		return
	}
	for i := 0; i+1 < n; i++ {
		j := i + Choose(n-i, label)
		if j != i {
			swap(i, j)
		}
	}
}

// MapKeys returns the keys of m sorted by their printed form, then permuted by
// recorded choices: deterministic replacement for Go's random map iteration.
func MapKeys[K comparable, V any](m map[K]V) []K {
	keys := make([]K, 0, len(m))
	strs := make(map[K]string, len(m))
	for k := range m {
		keys = append(keys, k)
		strs[k] = fmt.Sprintf("%v", k)
	}
	sort.SliceStable(keys, func(i, j int) bool { return strs[keys[i]] < strs[keys[j]] })
	permute(len(keys), func(i, j int) { keys[i], keys[j] = keys[j], keys[i] }, "maprange")
	return keys
}

// SetPopper is the subset of golang-set's Set used by SetPop.
type SetPopper interface {
	ToSlice() []interface{}
	Remove(i interface{})
}

// SetPop replaces (set.Set).Pop, which returns "an arbitrary element" through
// Go map iteration: sorted slice, recorded choice, Remove.
func SetPop(s SetPopper) interface{} {
	all := s.ToSlice()
	if len(all) == 0 {
		return nil
	}
	sort.SliceStable(all, func(i, j int) bool { return lessAny(all[i], all[j]) })
	v := all[Choose(len(all), "setpop")]
	s.Remove(v)
	return v
}

func lessAny(a, b interface{}) bool {
	switch x := a.(type) {
	case uint64:
		if y, ok := b.(uint64); ok {
			return x < y
		}
	case uint32:
		if y, ok := b.(uint32); ok {
			return x < y
		}
	case int:
		if y, ok := b.(int); ok {
			return x < y
		}
	case uint8:
		if y, ok := b.(uint8); ok {
			return x < y
		}
	}
	return fmt.Sprintf("%T:%v", a, a) < fmt.Sprintf("%T:%v", b, b)
}

// ---------------------------------------------------------------- PRNG handed to the agent

// RandMode selects what vsim.NewRandSource returns: the per-association
// generator of UP F-SEIDs. Adversarial modes are a fault kind (C07, C13).
type RandMode int

const (
	RandSeeded    RandMode = iota // honest PRNG seeded from the choice stream
	RandRepeat                    // short cycle of values drawn once (repeats)
	RandConstant                  // always the same non-zero value
	RandZeroFirst                 // zero first, then honest
	RandScript                    // values from Script, then honest
)

type RandConfig struct {
	Mode   RandMode
	Cycle  int
	Script []uint64
}

var RandCfg RandConfig

type simSource struct {
	mode   RandMode
	vals   []uint64
	i      int
	inner  rand.Source64
	script []uint64
}

func (s *simSource) Seed(int64)   {}
func (s *simSource) Int63() int64 { return int64(s.Uint64() >> 1) }
func (s *simSource) Uint64() uint64 {
	switch s.mode {
	case RandRepeat:
		v := s.vals[s.i%len(s.vals)]
		s.i++
		return v
	case RandConstant:
		return s.vals[0]
	case RandZeroFirst:
		s.i++
		if s.i == 1 {
			return 0
		}
	case RandScript:
		if s.i < len(s.script) {
			v := s.script[s.i]
			s.i++
			return v
		}
	}
	return s.inner.Uint64()
}

// NewRandSource replaces rand.NewSource.
//
//go:norace
func NewRandSource(seed int64) rand.Source {
	if S == nil {
		return rand.NewSource(seed)
	}
	// The stream is a function of the seed the agent passes (derived from its
	// clock reads: equal seeds give equal streams, as with math/rand) and of a
	// salt drawn once per run from the choice stream.
	var salt uint64
	sim := S
	call(func() {
		if !sim.rngSalted {
			sim.rngSalted = true
			sim.rngSalt = uint64(sim.Ch.Choose(1<<30, "rng-salt"))
		}
		salt = sim.rngSalt
	})
	a := Mix(uint64(seed), salt, 0x726e67)
	src := &simSource{mode: RandCfg.Mode, inner: rand.NewSource(int64(a >> 1)).(rand.Source64), script: RandCfg.Script}
	n := RandCfg.Cycle
	if n <= 0 {
		n = 2
	}
	switch RandCfg.Mode {
	case RandRepeat:
		for i := 0; i < n; i++ {
			src.vals = append(src.vals, src.inner.Uint64())
		}
	case RandConstant:
		src.vals = []uint64{src.inner.Uint64() | 1}
	}
	return src
}

// ---------------------------------------------------------------- sync.Pool, deterministic

// Pool replaces sync.Pool: the real one hands out objects depending on the P
// the goroutine runs on and on GC cycles. This one is a LIFO stack; the mutex
// never blocks (no scheduling point inside) and gives Put -> Get the same
// happens-before edge the real pool gives.
type Pool struct {
	New func() any
	mu  sync.Mutex
	st  []any
	reg bool
}

// pools are often package-level variables: they are emptied at the start of
// every run so that no object crosses from one run into the next.
var allPools []*Pool

func ResetPools() {
	for _, p := range allPools {
		p.mu.Lock()
		p.st = nil
		p.mu.Unlock()
	}
}

func (p *Pool) Get() any {
	p.mu.Lock()
	if !p.reg {
		p.reg = true
		allPools = append(allPools, p)
	}
	var x any
	if n := len(p.st); n > 0 {
		x = p.st[n-1]
		p.st = p.st[:n-1]
	}
	p.mu.Unlock()
	if x == nil && p.New != nil {
		x = p.New()
	}
	return x
}

func (p *Pool) Put(x any) {
	if x == nil {
		return
	}
	p.mu.Lock()
	if !p.reg {
		p.reg = true
		allPools = append(allPools, p)
	}
	p.st = append(p.st, x)
	p.mu.Unlock()
}
