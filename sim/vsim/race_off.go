//go:build !race

package vsim

const RaceEnabled = false

func raceDisable() {}
func raceEnable()  {}
