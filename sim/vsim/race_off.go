//go:build !race

package vsim

const RaceEnabled = false

func raceDisable()          {}
func raceEnable()           {}
func raceReleaseToBarrier() {}

// RaceBarrier is a no-op without the race detector.
func RaceBarrier() {}
