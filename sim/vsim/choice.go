package vsim

// Choice stream: the single source of nondeterminism of a run.
//
// Record mode: values come from a splitmix64 PRNG seeded with the run seed and
// are appended to Trace. Replay mode: values come from the given trace; once it
// is exhausted every choice is 0 (the "simplest" value by construction of all
// generators), which is what makes span deletion a useful shrink step.

type Choices struct {
	state  uint64
	replay []uint32
	pos    int
	Trace  []uint32
	isRep  bool
	// Labels is filled only when KeepLabels is set (debugging / sample output).
	KeepLabels bool
	Labels     []string
}

func splitmix(x *uint64) uint64 {
	*x += 0x9E3779B97F4A7C15
	z := *x
	z = (z ^ (z >> 30)) * 0xBF58476D1CE4E5B9
	z = (z ^ (z >> 27)) * 0x94D049BB133111EB
	return z ^ (z >> 31)
}

// Mix derives an independent seed from (seed, a, b).
func Mix(seed uint64, a, b uint64) uint64 {
	x := seed ^ (a * 0xD6E8FEB86659FD93) ^ (b * 0xCA5A826395121157)
	splitmix(&x)
	return splitmix(&x)
}

func NewChoices(seed uint64) *Choices {
	return &Choices{state: seed}
}

func ReplayChoices(trace []uint32) *Choices {
	return &Choices{replay: trace, isRep: true}
}

// Choose returns a value in [0,n). n<=1 returns 0 without consuming a choice.
func (c *Choices) Choose(n int, label string) int {
	if n <= 1 {
		return 0
	}
	var v uint32
	if c.isRep {
		if c.pos < len(c.replay) {
			v = c.replay[c.pos]
			c.pos++
			if int(v) >= n {
				v = uint32(n - 1)
			}
		}
	} else {
		v = uint32(splitmix(&c.state) % uint64(n))
	}
	c.Trace = append(c.Trace, v)
	if c.KeepLabels {
		c.Labels = append(c.Labels, label)
	}
	return int(v)
}

// Bool is true with probability num/den; 0 (false) is the simple choice.
func (c *Choices) Bool(num, den int, label string) bool {
	if num <= 0 {
		return false
	}
	if num >= den {
		return true
	}
	// value v in [0,den): true iff v >= den-num, so that 0 is "false".
	return c.Choose(den, label) >= den-num
}
