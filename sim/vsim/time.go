package vsim

import (
	"context"
	"time"
)

// ---------------------------------------------------------------- clock reads

//go:norace
func nowNS() int64 {
	s := S
	if s == nil {
		return time.Now().UnixNano()
	}
	// every read returns a strictly larger value than the previous one, as a
	// real clock does (the agent treats a measured duration of exactly 0 as
	// "session not yet deleted").
	s.now++
	return s.now
}

//go:norace
func peekNS() int64 {
	if S == nil {
		return time.Now().UnixNano()
	}
	return S.now
}

//go:norace
func epochNS() int64 {
	if S == nil {
		return 0
	}
	return S.epoch
}

//go:norace
func Now() time.Time {
	if S == nil {
		return time.Now()
	}
	return time.Unix(0, epochNS()+nowNS()).UTC()
}

// WallOf converts a virtual instant to the wall time tasks would read.
func (s *Sim) WallOf(ns int64) time.Time { return time.Unix(0, s.epoch+ns).UTC() }

// VirtOf converts a wall time produced by Now back to virtual nanoseconds.
func (s *Sim) VirtOf(t time.Time) int64 { return t.UnixNano() - s.epoch }

func Since(t time.Time) time.Duration { return Now().Sub(t) }
func Until(t time.Time) time.Duration { return t.Sub(Now()) }

//go:norace
func Sleep(d time.Duration) {
	if Cur() == nil {
		if S == nil {
			time.Sleep(d)
		}
		return
	}
	wake := peekNS() + int64(d)
	call(func() { S.At(wake, func() {}) })
	Block(func() bool { return peekNS() >= wake })
}

// ---------------------------------------------------------------- timers

type Timer struct {
	C  <-chan time.Time
	c  chan time.Time
	f  func()
	ev *Event
}

//go:norace
func (t *Timer) arm(d time.Duration) {
	s := S
	inc := curInc()
	call(func() {
		t.ev = s.afterTimer(inc, d, func() {
			t.ev = nil
			if s.dead[inc] && inc != 0 {
				return
			}
			if t.f != nil {
				f := t.f
				nt := s.newTask(inc, "AfterFunc")
				go s.taskMain(nt, f)
				return
			}
			at := s.WallOf(s.now)
			Ephemeral(func() {
				select {
				case t.c <- at:
				default:
				}
			})
		})
	})
}

//go:norace
func NewTimer(d time.Duration) *Timer {
	if S == nil {
		panic("vsim.NewTimer outside simulation")
	}
	c := make(chan time.Time, 1)
	t := &Timer{C: c, c: c}
	t.arm(d)
	return t
}

//go:norace
func AfterFunc(d time.Duration, f func()) *Timer {
	t := &Timer{f: f}
	t.arm(d)
	return t
}

func After(d time.Duration) <-chan time.Time { return NewTimer(d).C }

//go:norace
func (t *Timer) Stop() bool {
	active := false
	call(func() {
		if t.ev != nil && !t.ev.canceled {
			active = true
			t.ev.Cancel()
			t.ev = nil
		}
	})
	return active
}

//go:norace
func (t *Timer) Reset(d time.Duration) bool {
	active := t.Stop()
	// Go 1.23+ semantics: no stale value is observable after Reset.
	if t.c != nil {
		select {
		case <-t.c:
		default:
		}
	}
	t.arm(d)
	return active
}

type Ticker struct {
	C       <-chan time.Time
	c       chan time.Time
	d       time.Duration
	ev      *Event
	inc     int
	stopped bool
}

func (t *Ticker) schedule() {
	s := S
	t.ev = s.afterTimer(t.inc, t.d, func() {
		if t.stopped || (s.dead[t.inc] && t.inc != 0) {
			return
		}
		at := s.WallOf(s.now)
		Ephemeral(func() {
			select {
			case t.c <- at:
			default:
			}
		})
		t.schedule()
	})
}

//go:norace
func NewTicker(d time.Duration) *Ticker {
	if d <= 0 {
		panic("non-positive interval for NewTicker")
	}
	c := make(chan time.Time, 1)
	t := &Ticker{C: c, c: c, d: d, inc: curInc()}
	call(func() { t.schedule() })
	return t
}

func Tick(d time.Duration) <-chan time.Time { return NewTicker(d).C }

//go:norace
func (t *Ticker) Stop() {
	call(func() {
		t.stopped = true
		t.ev.Cancel()
	})
}

//go:norace
func (t *Ticker) Reset(d time.Duration) {
	if d <= 0 {
		panic("non-positive interval for Ticker.Reset")
	}
	call(func() {
		t.ev.Cancel()
		t.d = d
		t.stopped = false
		t.schedule()
	})
	// Go 1.23+ semantics: drop a stale tick.
	select {
	case <-t.c:
	default:
	}
}

// ---------------------------------------------------------------- contexts with virtual deadlines

type deadlineCtx struct {
	context.Context
	deadline time.Time
}

func (c *deadlineCtx) Deadline() (time.Time, bool) { return c.deadline, true }
func (c *deadlineCtx) Err() error {
	err := c.Context.Err()
	if err != nil && context.Cause(c.Context) == context.DeadlineExceeded {
		return context.DeadlineExceeded
	}
	return err
}

//go:norace
func WithTimeout(parent context.Context, d time.Duration) (context.Context, context.CancelFunc) {
	if S == nil {
		return context.WithTimeout(parent, d)
	}
	ctx, cancel := context.WithCancelCause(parent)
	dl := time.Unix(0, epochNS()+peekNS()+int64(d)).UTC()
	var ev *Event
	s := S
	inc := curInc()
	call(func() {
		ev = s.afterTimer(inc, d, func() {
			Ephemeral(func() { cancel(context.DeadlineExceeded) })
		})
	})
	return &deadlineCtx{Context: ctx, deadline: dl}, func() {
		call(func() { ev.Cancel() })
		cancel(context.Canceled)
	}
}

func WithDeadline(parent context.Context, t time.Time) (context.Context, context.CancelFunc) {
	if S == nil {
		return context.WithDeadline(parent, t)
	}
	return WithTimeout(parent, time.Duration(t.UnixNano()-epochNS()-peekNS()))
}
