//go:build race

package vsim

import "runtime"

const RaceEnabled = true

func raceDisable() { runtime.RaceDisable() }
func raceEnable()  { runtime.RaceEnable() }
