//go:build race

package vsim

import (
	"runtime"
	"unsafe"
)

const RaceEnabled = true

func raceDisable() { runtime.RaceDisable() }
func raceEnable()  { runtime.RaceEnable() }

// runBarrier orders everything tasks did before their latest yield before the
// simulator goroutine's next RaceBarrier call - and nothing else: tasks only
// release into it, only the simulator goroutine acquires. It stands for the
// process boundary between runs / agent incarnations (a new process in reality).
var runBarrier int

func raceReleaseToBarrier() { runtime.RaceReleaseMerge(unsafe.Pointer(&runBarrier)) }

// RaceBarrier is called by the simulator goroutine before it starts a new run
// or a new agent incarnation.
func RaceBarrier() { runtime.RaceAcquire(unsafe.Pointer(&runBarrier)) }
