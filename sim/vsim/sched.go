// Package vsim is the deterministic scheduler, virtual clock and choice stream
// under which the instrumented PFCP agent runs.
//
// One token: exactly one task goroutine, or the simulator goroutine, runs at a
// time. Tasks are real goroutines parked on a per-task channel. All of the
// scheduler's own channel operations are wrapped in raceDisable/raceEnable and
// its task-side bookkeeping lives in //go:norace functions, so that in -race
// builds the detector sees only the happens-before edges the *program* creates.
//
// Discipline (matters only for the race build): task-side entry points are
// //go:norace, copy program-owned memory into fresh buffers, and hand a closure
// to the simulator goroutine (call) which is the only goroutine that touches
// simulator / environment state. The simulator goroutine never performs a
// visible acquire on a program object; such effects run on ephemeral goroutines.
package vsim

import (
	"fmt"
	"hash/fnv"
	"os"
	"runtime"
	"runtime/debug"
	"sort"
	"strings"
	"sync/atomic"
	"time"
)

type taskState int

const (
	stRunnable taskState = iota
	stBlocked
	stDead
)

type Task struct {
	ID    int
	Name  string
	Inc   int // incarnation this task belongs to (0 = harness)
	wake  chan struct{}
	state taskState
	dirty bool
	// set by the task before it yields
	progress    bool
	forceSwitch bool
	ioYield     bool
	req         func() // pending call for the simulator goroutine
	prio        int
	run         int // consecutive picks
	instPicks   int // picks with progress since the task last blocked (spin detection)
	stmts       int // statements executed since the task was last given the token
	LastSite    int
	blockedAt   int
	exited      bool
}

// RunawayStatements: a task that executes this many statements in one go (no
// synchronisation point, sleep or I/O in between) is taken for a loop that never ends.
const RunawayStatements = 2_000_000

type Runaway struct {
	Task string
	Inc  int
	Site string
}

type Event struct {
	at       int64
	seq      uint64
	fn       func()
	canceled bool
	idx      int
	timer    int // incarnation+1 of the task that armed it as a timer; 0 = not a timer
}

// TimersDue returns, in ascending order, the distinct instants in (now, now+max]
// at which a pending timer (Timer, Ticker, AfterFunc, context deadline) armed by
// incarnation inc falls due. Scenario code uses it to aim a message at the
// instant a timer of the agent fires, so that the two handlers run concurrently.
func (s *Sim) TimersDue(inc int, max int64) []int64 {
	var out []int64
	for _, e := range s.events.a {
		if e.canceled || e.timer != inc+1 || e.at <= s.now || e.at > s.now+max {
			continue
		}
		out = append(out, e.at)
	}
	sort.Slice(out, func(i, j int) bool { return out[i] < out[j] })
	k := 0
	for i, v := range out {
		if i == 0 || v != out[k-1] {
			out[k] = v
			k++
		}
	}
	return out[:k]
}

func (e *Event) Cancel() {
	if e != nil {
		e.canceled = true
	}
}

type PanicRec struct {
	Task  string
	Inc   int
	Value string
	Stack string
	Fatal bool // zap Fatal (process exit) rather than panic
	Step  uint64
	Now   int64
}

type Strategy int

const (
	StratRunToBlock Strategy = iota
	StratRandom
	StratPCT
	numStrats
)

func (s Strategy) String() string {
	return [...]string{"run-to-block", "random", "pct"}[s]
}

type stepEvent struct {
	at uint64
	fn func()
}

type Sim struct {
	Ch *Choices

	schedSteps uint64
	stepEvents []stepEvent

	now    int64
	seq    uint64
	events evHeap
	tasks  []*Task
	cur    *Task
	last   *Task
	forced *Task
	back   chan struct{}

	Steps        uint64 // statement-level steps (P)
	SyncSteps    uint64 // scheduling decisions
	Switches     uint64
	instantSteps int
	SpinBreaks   int

	Strat       Strategy
	SwitchDen   int    // StratRandom: switch with probability 1/SwitchDen at sync points
	MaxGap      int    // statement-level pre-emption: next after 1+Choose(MaxGap) steps; 0 = never
	nextPreempt uint64 // absolute step
	pctChanges  []uint64
	pctNext     int
	pctLow      int
	Preempts    int

	// kill request: at statement step KillStep, incarnation KillInc dies.
	KillStep uint64
	KillInc  int
	OnKill   func(inc int)
	dead     map[int]bool
	exited   map[int]bool
	stalled  map[int]bool

	Panics  []PanicRec
	OnPanic func(p PanicRec)

	MaxSteps uint64
	// StepCost: virtual nanoseconds every scheduling step of a task costs (0 =
	// computation is instantaneous). With a cost, code paths have a width in
	// virtual time and events can land inside them ("slow agent" schedules).
	StepCost int64
	// IODen: switch away from a task at an IOPoint with probability 1/IODen (0 = IOPoints off)
	IODen       int
	IOSwitches  int
	spinQuantum int64  // clock advance at the next spin break (doubles while the spinning goes on)
	rngSalt     uint64 // per-run salt of the random sources
	rngSalted   bool
	ioLast      *Task
	Exhausted   bool
	Runaways    []Runaway
	logH        uint64
	LogLines    []string
	KeepLog     bool
	switchH     uint64 // hash of (task,site) switch sequence
	progressAt  atomic.Int64
	epoch       int64
}

// S is the active simulation of this process (one at a time).
var S *Sim

const spinLimit = 4000

func New(ch *Choices) *Sim {
	RaceBarrier()
	s := &Sim{
		Ch:        ch,
		back:      make(chan struct{}),
		dead:      map[int]bool{},
		exited:    map[int]bool{},
		stalled:   map[int]bool{},
		MaxSteps:  3_000_000,
		SwitchDen: 4,
		epoch:     time.Date(2026, 1, 1, 0, 0, 0, 0, time.UTC).UnixNano(),
		logH:      1469598103934665603,
		switchH:   1469598103934665603,
	}
	s.progressAt.Store(time.Now().UnixNano())
	return s
}

// ---------------------------------------------------------------- event log

// Logf appends to the deterministic event log (hash always, text optionally).
// It never draws a choice and never reads the real clock.
func (s *Sim) Logf(format string, a ...any) {
	line := fmt.Sprintf("%d %s", s.now, fmt.Sprintf(format, a...))
	h := fnv.New64a()
	h.Write([]byte(line))
	s.logH = (s.logH ^ h.Sum64()) * 1099511628211
	if s.KeepLog {
		s.LogLines = append(s.LogLines, line)
	}
}

func (s *Sim) LogHash() uint64    { return s.logH }
func (s *Sim) SwitchHash() uint64 { return s.switchH }

// ---------------------------------------------------------------- time

func (s *Sim) NowNS() int64 { return s.now }

func (s *Sim) After(d time.Duration, fn func()) *Event {
	if d < 0 {
		d = 0
	}
	return s.At(s.now+int64(d), fn)
}

func (s *Sim) At(at int64, fn func()) *Event {
	if at < s.now {
		at = s.now
	}
	s.seq++
	e := &Event{at: at, seq: s.seq, fn: fn}
	s.events.push(e)
	return e
}

func (s *Sim) afterTimer(inc int, d time.Duration, fn func()) *Event {
	e := s.After(d, fn)
	e.timer = inc + 1
	return e
}

// MarkDirty makes every blocked task re-poll. Called after any environment
// event that may have changed what a poll closure looks at.
func (s *Sim) MarkDirty() {
	for _, t := range s.tasks {
		if t.state == stBlocked {
			t.dirty = true
		}
	}
}

// ---------------------------------------------------------------- tasks

// Spawn starts f as a new task of incarnation inc. Called on the simulator
// goroutine (scenario code).
func (s *Sim) Spawn(inc int, name string, f func()) *Task {
	t := s.newTask(inc, name)
	go s.taskMain(t, f)
	return t
}

func (s *Sim) newTask(inc int, name string) *Task {
	t := &Task{ID: len(s.tasks), Name: name, Inc: inc, wake: make(chan struct{}), state: stRunnable}
	if s.Strat == StratPCT {
		t.prio = 1000 + s.Ch.Choose(1000, "pct-prio")
	}
	s.tasks = append(s.tasks, t)
	return t
}

type fatalExit struct{ msg string }

// FatalExit is what the zap fatal hook (and os.Exit) call: "the process exits
// now". It records the exit, kills the incarnation and never returns (the
// calling task is parked for ever), so no recover() in the program can undo it.
//
//go:norace
func FatalExit(msg string) {
	s := S
	t := Cur()
	if s == nil || t == nil {
		panic(fatalExit{msg})
	}
	rec := PanicRec{Task: t.Name, Inc: t.Inc, Step: s.Steps, Now: s.now, Fatal: true, Value: CloneString(msg), Stack: CloneString(string(debug.Stack()))}
	call(func() { s.recordPanic(rec) })
	// unreachable: recordPanic killed this task's incarnation
	select {}
}

// ProcessExit: main returned / os.Exit(0): the incarnation ends here, every
// other goroutine of it dies with the process. Never returns.
//
//go:norace
func ProcessExit() {
	s := S
	t := Cur()
	if s == nil || t == nil {
		return
	}
	inc := t.Inc
	call(func() {
		s.Logf("EXIT inc=%d", inc)
		s.exited[inc] = true
		s.killInc(inc)
	})
	select {}
}

// Exited: the incarnation ended through ProcessExit (not a crash, not a kill).
func (s *Sim) Exited(inc int) bool { return s.exited[inc] }

// Stall freezes every task of an incarnation for d of virtual time (VM pause,
// GC storm, SIGSTOP) while the environment keeps running.
func (s *Sim) Stall(inc int, d time.Duration) {
	s.stalled[inc] = true
	s.Logf("STALL inc=%d for %v", inc, d)
	s.After(d, func() {
		delete(s.stalled, inc)
		s.Logf("RESUME inc=%d", inc)
	})
}

type killedSentinel struct{}

//go:norace
func (s *Sim) taskMain(t *Task, f func()) {
	raceDisable()
	<-t.wake
	raceEnable()
	defer s.taskExit(t)
	f()
}

// taskExit is the deferred tail of every task: records a panic / Fatal, marks
// the task dead and returns the token.
//
//go:norace
func (s *Sim) taskExit(t *Task) {
	if r := recover(); r != nil {
		if _, ok := r.(killedSentinel); !ok {
			rec := PanicRec{Task: t.Name, Inc: t.Inc, Step: s.Steps, Now: s.now}
			if fe, ok := r.(fatalExit); ok {
				rec.Fatal = true
				rec.Value = CloneString(fe.msg)
			} else {
				rec.Value = CloneString(fmt.Sprint(r))
			}
			rec.Stack = CloneString(string(debug.Stack()))
			t.req = func() { s.recordPanic(rec) }
		}
	}
	t.exitTask()
}

func (s *Sim) recordPanic(rec PanicRec) {
	s.Panics = append(s.Panics, rec)
	s.Logf("PANIC inc=%d fatal=%v %s @%s", rec.Inc, rec.Fatal, firstLine(rec.Value), RepoFrame(rec.Stack))
	// A panic or Fatal ends the whole process: the incarnation is dead.
	if rec.Inc != 0 {
		s.killInc(rec.Inc)
	}
	if s.OnPanic != nil {
		s.OnPanic(rec)
	}
}

func firstLine(x string) string {
	if i := strings.IndexByte(x, '\n'); i >= 0 {
		return x[:i]
	}
	return x
}

// RepoFrame extracts the innermost frame of a stack that lies inside the
// module under test (not the harness, not libraries).
func RepoFrame(stack string) string {
	lines := strings.Split(stack, "\n")
	for i := 0; i+1 < len(lines); i++ {
		fn := lines[i]
		if !strings.HasPrefix(fn, "github.com/omec-project/upf-epc/") {
			continue
		}
		if strings.Contains(fn, "/zzverif/") {
			continue
		}
		// strip arguments
		if j := strings.LastIndexByte(fn, '('); j > 0 {
			fn = fn[:j]
		}
		fn = strings.TrimPrefix(fn, "github.com/omec-project/upf-epc/")
		return fn
	}
	return "?"
}

//go:norace
func (t *Task) exitTask() {
	s := S
	t.state = stDead
	t.exited = true
	t.progress = true
	raceReleaseToBarrier()
	raceDisable()
	s.back <- struct{}{}
	raceEnable()
}

// yield hands the token back to the simulator goroutine and waits for it.
//
//go:norace
func (t *Task) yield() {
	s := S
	raceReleaseToBarrier()
	raceDisable()
	s.back <- struct{}{}
	<-t.wake
	raceEnable()
	if s.dead[t.Inc] && t.Inc != 0 {
		// unreachable: dead tasks are never woken
		panic(killedSentinel{})
	}
}

// call runs f on the simulator goroutine and returns when it is done. The
// task keeps the token (no scheduling decision).
//
//go:norace
func call(f func()) {
	s := S
	t := s.cur
	if t == nil {
		// simulator goroutine itself (scenario code) or no simulation.
		f()
		return
	}
	t.req = f
	t.state = stRunnable
	t.progress = true
	t.yield()
}

// Call is the exported form used by the environment packages.
//
//go:norace
func Call(f func()) { call(f) }

// Cur returns the running task or nil (simulator goroutine).
//
//go:norace
func Cur() *Task {
	if S == nil {
		return nil
	}
	return S.cur
}

//go:norace
func curInc() int {
	if t := Cur(); t != nil {
		return t.Inc
	}
	return 0
}

// CurInc is the incarnation of the running task (0 on the simulator goroutine).
//
//go:norace
func CurInc() int { return curInc() }

// ---------------------------------------------------------------- task side

// P is the statement-level pre-emption point inserted by the instrumenter.
//
//go:norace
func P(site int) {
	s := S
	if s == nil {
		return
	}
	t := s.cur
	if t == nil {
		return
	}
	s.Steps++
	t.LastSite = site
	t.stmts++
	if t.stmts > RunawayStatements && t.Inc != 0 {
		// The task has executed millions of statements without reaching a single
		// synchronisation point, sleep or I/O: a loop that does not end. It is parked
		// for good (whatever it holds stays held, as with a spinning thread) and the
		// run goes on, so that the oracles see what the rest of the agent does.
		t.req = func() {
			s.Runaways = append(s.Runaways, Runaway{Task: t.Name, Inc: t.Inc, Site: SiteName(site)})
			s.Logf("RUNAWAY task=%s site=%s", t.Name, SiteName(site))
			t.state = stDead
			s.MarkDirty()
		}
		t.state = stRunnable
		t.progress = true
		t.yield()
		return
	}
	if s.Steps == s.KillStep && t.Inc == s.KillInc && t.Inc != 0 {
		t.req = func() { s.killInc(t.Inc) }
		t.state = stRunnable
		t.progress = true
		t.yield()
		return
	}
	if s.nextPreempt != 0 && s.Steps >= s.nextPreempt {
		t.forceSwitch = true
		t.state = stRunnable
		t.progress = true
		t.yield()
	}
}

// IOPoint is a scheduling point placed by the simulated environment just before
// a task performs an externally visible I/O operation (socket write). With
// IODen>0 the scheduler switches to another candidate there with probability
// 1/IODen whatever the strategy: the classic windows (state prepared, not yet
// written) sit right before I/O.
//
//go:norace
func IOPoint() {
	s := S
	if s == nil || s.IODen == 0 {
		return
	}
	t := s.cur
	if t == nil {
		return
	}
	t.ioYield = true
	t.state = stRunnable
	t.progress = true
	t.yield()
}

// syncPoint is a scheduling decision point before a synchronisation operation.
//
//go:norace
func syncPoint() {
	t := Cur()
	if t == nil {
		return
	}
	t.state = stRunnable
	t.progress = true
	t.yield()
}

// Yield is an explicit scheduling point (used by harness tasks).
//
//go:norace
func Yield() { syncPoint() }

// Block waits until poll returns true. poll runs on the caller's goroutine, so
// a successful non-blocking receive / TryLock gives *this* goroutine the
// acquire edge. poll must not block.
func Block(poll func() bool) {
	t := Cur()
	if t == nil {
		// Not under the scheduler (package init, ephemeral goroutine):
		// fall back to real polling.
		for !poll() {
			runtime.Gosched()
			time.Sleep(50 * time.Microsecond)
		}
		return
	}
	syncPoint()
	for {
		if poll() {
			return
		}
		blockYield(t)
	}
}

//go:norace
func blockYield(t *Task) {
	t.state = stBlocked
	t.dirty = false
	t.progress = false
	t.blockedAt = t.LastSite
	t.yield()
}

// Go starts f as a task of the caller's incarnation. The real go statement
// runs outside the race-ignore region so the creator->child edge is kept.
func Go(site int, f func()) {
	t := Cur()
	if t == nil || S == nil {
		go f()
		return
	}
	nt := newTaskFromTask(site)
	go S.taskMain(nt, f)
	syncPoint()
}

//go:norace
func newTaskFromTask(site int) *Task {
	var nt *Task
	s := S
	name := SiteName(site)
	inc := s.cur.Inc
	call(func() { nt = s.newTask(inc, name) })
	return nt
}

// ---------------------------------------------------------------- simulator side

func (s *Sim) killInc(inc int) {
	if s.dead[inc] {
		return
	}
	s.dead[inc] = true
	for _, t := range s.tasks {
		if t.Inc == inc && t.state != stDead {
			t.state = stDead
		}
	}
	s.Logf("KILL inc=%d step=%d", inc, s.Steps)
	if s.OnKill != nil {
		s.OnKill(inc)
	}
	s.MarkDirty()
}

// Kill marks an incarnation dead now (simulator goroutine).
func (s *Sim) Kill(inc int) { s.killInc(inc) }

func (s *Sim) IncDead(inc int) bool { return s.dead[inc] }

// runTask gives the token to t until it yields, then serves its pending call.
func (s *Sim) runTask(t *Task) {
	t.stmts = 0
	for {
		s.cur = t
		raceDisable()
		t.wake <- struct{}{}
		<-s.back
		raceEnable()
		s.cur = nil
		s.progressAt.Store(time.Now().UnixNano())
		if t.req != nil {
			f := t.req
			t.req = nil
			f()
			if t.state == stDead || t.exited {
				break
			}
			if t.forceSwitch {
				break
			}
			// a plain call: resume the same task at once (no decision)
			if t.state == stRunnable && !s.dead[t.Inc] {
				continue
			}
		}
		break
	}
	if t.progress {
		s.MarkDirty()
	}
}

func (s *Sim) candidates() []*Task {
	// runnable tasks and blocked tasks whose poll may succeed now ("dirty"): a
	// spinning task that is always runnable must not keep the others from
	// being polled
	var c []*Task
	for _, t := range s.tasks {
		if s.stalled[t.Inc] {
			continue
		}
		if t.state == stRunnable || (t.state == stBlocked && t.dirty) {
			c = append(c, t)
		}
	}
	return c
}

func (s *Sim) pick(c []*Task) *Task {
	if len(c) == 1 {
		return c[0]
	}
	s.SyncSteps++
	// index of the task that ran last, if it is a candidate
	li := -1
	for i, t := range c {
		if t == s.last {
			li = i
		}
	}
	if li >= 0 && c[li] == s.ioLast && s.Strat != StratPCT {
		if !s.Ch.Bool(1, s.IODen, "io-switch") {
			return c[li]
		}
		s.IOSwitches++
		others := append(append([]*Task{}, c[:li]...), c[li+1:]...)
		return others[s.Ch.Choose(len(others), "io-switch-to")]
	}
	if li >= 0 && c[li] == s.forced {
		// statement-level pre-emption: must run somebody else
		others := append(append([]*Task{}, c[:li]...), c[li+1:]...)
		return others[s.Ch.Choose(len(others), "preempt-to")]
	}
	const fair = 200
	switch s.Strat {
	case StratPCT:
		best := c[0]
		for _, t := range c[1:] {
			if t.prio > best.prio {
				best = t
			}
		}
		if best.instPicks > fair*4 { // a spinning task must not starve the rest
			best.prio = s.pctLow
			s.pctLow--
			best.instPicks = 0
		}
		return best
	case StratRandom:
		if li >= 0 && c[li].run < fair {
			if !s.Ch.Bool(1, s.SwitchDen, "switch") {
				return c[li]
			}
			others := append(append([]*Task{}, c[:li]...), c[li+1:]...)
			return others[s.Ch.Choose(len(others), "switch-to")]
		}
		return c[s.Ch.Choose(len(c), "next")]
	default: // run to block
		if li >= 0 && c[li].run < fair {
			return c[li]
		}
		if li >= 0 {
			others := append(append([]*Task{}, c[:li]...), c[li+1:]...)
			return others[s.Ch.Choose(len(others), "next")]
		}
		return c[s.Ch.Choose(len(c), "next")]
	}
}

func (s *Sim) armPreempt() {
	if s.MaxGap > 0 {
		s.nextPreempt = s.Steps + 1 + uint64(s.Ch.Choose(s.MaxGap, "gap"))
	} else {
		s.nextPreempt = 0
	}
	if s.Strat == StratPCT && s.pctNext < len(s.pctChanges) {
		s.nextPreempt = s.pctChanges[s.pctNext]
	}
}

// SetPCT draws d priority change points among the first horizon steps.
func (s *Sim) SetPCT(d int, horizon int) {
	s.Strat = StratPCT
	s.pctChanges = nil
	for i := 0; i < d; i++ {
		s.pctChanges = append(s.pctChanges, s.Steps+1+uint64(s.Ch.Choose(horizon, "pct-cp")))
	}
	sort.Slice(s.pctChanges, func(i, j int) bool { return s.pctChanges[i] < s.pctChanges[j] })
	s.pctNext = 0
	s.pctLow = 999
	s.armPreempt()
}

// AfterSteps runs fn on the simulator after n further scheduling steps, or at
// the next quiescent point if that comes first: an arrival aimed at a window
// that has no width on the clock (between two statements of different tasks at
// one instant).
func (s *Sim) AfterSteps(n int, fn func()) {
	s.stepEvents = append(s.stepEvents, stepEvent{s.schedSteps + uint64(n), fn})
}

func (s *Sim) fireStepEvents(all bool) bool {
	if len(s.stepEvents) == 0 {
		return false
	}
	fired := false
	var keep []stepEvent
	evs := s.stepEvents
	s.stepEvents = nil
	for _, e := range evs {
		if all || e.at <= s.schedSteps {
			e.fn()
			fired = true
		} else {
			keep = append(keep, e)
		}
	}
	s.stepEvents = append(keep, s.stepEvents...)
	if fired {
		s.MarkDirty()
		// new input arrived: a task that keeps consuming it is not spinning
		for _, t := range s.tasks {
			t.instPicks = 0
		}
	}
	return fired
}

// step runs one scheduling step. It returns false when the system is quiescent.
func (s *Sim) step() bool {
	c := s.candidates()
	if len(c) == 0 {
		return false
	}
	s.schedSteps++
	t := s.pick(c)
	if t != s.last {
		s.Switches++
		s.switchH = (s.switchH ^ uint64(t.ID*131071+t.LastSite)) * 1099511628211
		if s.last != nil {
			s.last.run = 0
		}
	}
	t.run++
	s.last = t
	s.forced = nil
	s.ioLast = nil
	s.runTask(t)
	if t.ioYield {
		t.ioYield = false
		s.ioLast = t
		s.instantSteps--
	}
	if t.state == stBlocked {
		t.instPicks = 0
	} else if t.progress {
		t.instPicks++
	}
	if t.forceSwitch {
		s.instantSteps-- // a statement-level pre-emption is computation, not spinning
		t.forceSwitch = false
		s.Preempts++
		if s.Strat == StratPCT {
			// priority change point: current task drops below everybody
			t.prio = s.pctLow
			s.pctLow--
			s.pctNext++
		} else {
			s.forced = t
		}
		s.armPreempt()
	}
	s.instantSteps++
	return true
}

// RunUntil runs tasks and fires events until pred holds at a quiescent point
// (returns true) or no event is left at or before deadline (returns false; the
// clock is then left at deadline when that is later than now). pred==nil: run
// until deadline.
func (s *Sim) RunUntil(pred func() bool, deadline int64) bool {
	for {
		if s.Steps+s.SyncSteps > s.MaxSteps {
			s.Exhausted = true
			return false
		}
		if s.step() {
			s.fireStepEvents(false)
			if s.StepCost > 0 {
				s.now += s.StepCost
				s.instantSteps = 0 // time passes with every step: nothing can spin within one instant
				// events that fall due while tasks are running fire now
				for {
					ev := s.events.peek()
					if ev == nil || ev.at > s.now || ev.at > deadline {
						break
					}
					s.events.pop()
					ev.fn()
					s.MarkDirty()
				}
			}
			if s.instantSteps < spinLimit {
				continue
			}
			// A task is spinning at this instant. Spinning costs time: the clock
			// moves on by a quantum that doubles with every consecutive break (1 us
			// ... 100 ms), so that it cannot freeze, while tasks that are busy with
			// a long computation at the same instant go on making progress. Only
			// when the quantum reaches the next event is that event taken.
			s.SpinBreaks++
			s.instantSteps = 0
			if s.spinQuantum == 0 {
				s.spinQuantum = 1000
			} else if s.spinQuantum < int64(100*time.Millisecond) {
				s.spinQuantum *= 2
			}
			limit := deadline
			if ev := s.events.peek(); ev != nil && ev.at < limit {
				limit = ev.at
			}
			if s.now+s.spinQuantum < limit {
				s.now += s.spinQuantum
				if pred != nil && pred() {
					return true
				}
				continue
			}
		} else {
			s.spinQuantum = 0 // quiescent: nobody spins any more
			if s.fireStepEvents(true) {
				continue
			}
		}
		if pred != nil && pred() {
			return true
		}
		ev := s.events.peek()
		if ev == nil || ev.at > deadline {
			if deadline > s.now && deadline != Forever {
				s.now = deadline
				s.instantSteps = 0
			}
			return false
		}
		s.events.pop()
		if ev.at > s.now {
			s.now = ev.at
			s.instantSteps = 0
		}
		ev.fn()
		// everything due at the same instant fires before any task runs, so
		// that the tasks these events wake are scheduled against each other
		for {
			nx := s.events.peek()
			if nx == nil || nx.at > s.now || nx.at > deadline {
				break
			}
			s.events.pop()
			nx.fn()
		}
		s.MarkDirty()
	}
}

const Forever = int64(1) << 62

// Settle runs until quiescent without letting time pass beyond d.
func (s *Sim) RunFor(d time.Duration) { s.RunUntil(nil, s.now+int64(d)) }

// Quiesce runs tasks and events due *now* until nothing is runnable.
func (s *Sim) Quiesce() { s.RunUntil(nil, s.now) }

// BlockedTable describes every live task (for liveness reports).
func (s *Sim) BlockedTable() []string {
	var out []string
	for _, t := range s.tasks {
		if t.state == stDead {
			continue
		}
		st := "runnable"
		if t.state == stBlocked {
			st = "blocked"
		}
		out = append(out, fmt.Sprintf("task %d inc=%d %s %s at %s", t.ID, t.Inc, t.Name, st, SiteName(t.LastSite)))
	}
	return out
}

// LiveTasks counts live tasks of an incarnation.
func (s *Sim) LiveTasks(inc int) int {
	n := 0
	for _, t := range s.tasks {
		if t.Inc == inc && t.state != stDead {
			n++
		}
	}
	return n
}

func (s *Sim) TaskCount() int { return len(s.tasks) }

// ---------------------------------------------------------------- ephemeral effects

// Ephemeral runs f on a fresh goroutine and waits for it, with the wait hidden
// from the race detector. Used for every simulator-side effect that performs a
// visible synchronisation on a program object (timer channel send, context
// cancel, white-box probes taking program locks).
func Ephemeral(f func()) {
	done := make(chan struct{})
	go func() {
		defer func() {
			raceDisable()
			close(done)
			raceEnable()
		}()
		f()
	}()
	raceDisable()
	<-done
	raceEnable()
}

// ---------------------------------------------------------------- watchdog

// StartWatchdog aborts the process (exit 2) when the simulator makes no
// progress for the given wall-clock duration: an uninstrumented blocking call.
func (s *Sim) StartWatchdog(d time.Duration, what func() string) (stop func()) {
	quit := make(chan struct{})
	go func() {
		tk := time.NewTicker(d / 4)
		defer tk.Stop()
		for {
			select {
			case <-quit:
				return
			case <-tk.C:
				if time.Now().UnixNano()-s.progressAt.Load() > int64(d) {
					buf := make([]byte, 1<<20)
					n := runtime.Stack(buf, true)
					fmt.Fprintf(os.Stderr, "WATCHDOG: no simulator progress for %v (%s)\n%s\n", d, what(), buf[:n])
					os.Exit(2)
				}
			}
		}
	}()
	return func() { close(quit) }
}

// Touch tells the watchdog that the simulator goroutine is alive (long oracle).
func (s *Sim) Touch() { s.progressAt.Store(time.Now().UnixNano()) }

// ---------------------------------------------------------------- event heap (no container/heap: keep it local)

type evHeap struct{ a []*Event }

func (h *evHeap) less(i, j int) bool {
	if h.a[i].at != h.a[j].at {
		return h.a[i].at < h.a[j].at
	}
	return h.a[i].seq < h.a[j].seq
}
func (h *evHeap) swap(i, j int) { h.a[i], h.a[j] = h.a[j], h.a[i] }
func (h *evHeap) push(e *Event) {
	h.a = append(h.a, e)
	i := len(h.a) - 1
	for i > 0 {
		p := (i - 1) / 2
		if !h.less(i, p) {
			break
		}
		h.swap(i, p)
		i = p
	}
}
func (h *evHeap) peek() *Event {
	for len(h.a) > 0 && h.a[0].canceled {
		h.pop()
	}
	if len(h.a) == 0 {
		return nil
	}
	return h.a[0]
}
func (h *evHeap) pop() *Event {
	n := len(h.a)
	if n == 0 {
		return nil
	}
	e := h.a[0]
	h.a[0] = h.a[n-1]
	h.a = h.a[:n-1]
	i := 0
	for {
		l, r, m := 2*i+1, 2*i+2, i
		if l < len(h.a) && h.less(l, m) {
			m = l
		}
		if r < len(h.a) && h.less(r, m) {
			m = r
		}
		if m == i {
			break
		}
		h.swap(i, m)
		i = m
	}
	return e
}

// PendingEvents reports whether any event is scheduled.
func (s *Sim) PendingEvents() int {
	n := 0
	for _, e := range s.events.a {
		if !e.canceled {
			n++
		}
	}
	return n
}

// ---------------------------------------------------------------- site table

var siteTable []string

func SetSites(t []string) { siteTable = t }

func SiteName(i int) string {
	if i >= 0 && i < len(siteTable) {
		return siteTable[i]
	}
	return fmt.Sprintf("site#%d", i)
}

// ---------------------------------------------------------------- norace copies across the task/simulator boundary

// CloneBytes copies program-owned memory into a fresh buffer without the race
// detector recording the read. The copy is a plain loop: the builtin copy()
// goes through runtime.slicecopy, which reports to the detector on behalf of
// its caller even when the caller is //go:norace.
//
//go:norace
func CloneBytes(b []byte) []byte {
	if b == nil {
		return nil
	}
	out := make([]byte, len(b))
	for i := range b {
		out[i] = b[i]
	}
	return out
}

//go:norace
func CloneString(x string) string {
	b := make([]byte, len(x))
	for i := 0; i < len(x); i++ {
		b[i] = x[i]
	}
	return string(b)
}

// CopyInto copies simulator-owned bytes into a program buffer (unrecorded).
//
//go:norace
func CopyInto(dst, src []byte) int {
	n := len(src)
	if len(dst) < n {
		n = len(dst)
	}
	for i := 0; i < n; i++ {
		dst[i] = src[i]
	}
	return n
}

// TaskLogf appends to the event log from a task.
//
//go:norace
func TaskLogf(format string, a ...any) {
	line := CloneString(fmt.Sprintf(format, a...))
	s := S
	call(func() { s.Logf("%s", line) })
}

// ArmPreempt (re)draws the next statement-level pre-emption point.
func (s *Sim) ArmPreempt() { s.armPreempt() }
