package vsimenv

import (
	"bytes"
	"context"
	"errors"
	"io"
	"net/http"
	"sync"
	"time"

	"github.com/omec-project/upf-epc/zzverif/vsim"
)

// The HTTP listener is replaced; the handler is the agent's real one. The task
// blocked in ListenAndServe plays the accept loop: it takes pending requests
// and starts one handler task per request (so the creator->handler edge is the
// same as in net/http).

type BodyFault int

const (
	BodyOK    BodyFault = iota
	BodyError           // reader returns an error after Cut bytes
	BodyShort           // body ends after Cut bytes although more was announced (io.ErrUnexpectedEOF)
)

type HTTPReq struct {
	Method string
	Path   string
	Body   []byte
	Fault  BodyFault
	Cut    int
	// CancelAfter: the client goes away this long after the handler started (its
	// request context is cancelled, as net/http does when the connection closes); 0 = stays
	CancelAfter time.Duration
	// results (simulator side)
	Done         bool
	Status       int
	WriteHeaders int
	RespBody     []byte
	Panicked     bool
}

type httpSrv struct {
	srv     *http.Server
	inc     int
	closed  bool
	pending []*HTTPReq
}

type SimHTTP struct {
	w       *World
	servers []*httpSrv
}

// Submit queues a request for the live server of incarnation inc. It returns
// false when no server is listening.
func (h *SimHTTP) Submit(inc int, r *HTTPReq) bool {
	for _, s := range h.servers {
		if s.inc == inc && !s.closed && !h.w.Sim.IncDead(inc) {
			s.pending = append(s.pending, r)
			h.w.Sim.MarkDirty()
			return true
		}
	}
	return false
}

func (h *SimHTTP) Listening(inc int) bool {
	for _, s := range h.servers {
		if s.inc == inc && !s.closed {
			return true
		}
	}
	return false
}

//go:norace
func httpRegister(srv *http.Server) *httpSrv {
	inc := vsim.CurInc()
	var hs *httpSrv
	vsim.Call(func() {
		hs = &httpSrv{srv: srv, inc: inc}
		W.HTTP.servers = append(W.HTTP.servers, hs)
		W.Sim.Logf("http listen inc=%d", inc)
	})
	return hs
}

//go:norace
func httpTake(hs *httpSrv) (closed bool, r *HTTPReq, method, path string, body []byte, fault BodyFault, cut int, cancelAfter time.Duration) {
	vsim.Call(func() {
		if hs.closed {
			closed = true
			return
		}
		if len(hs.pending) > 0 {
			r = hs.pending[0]
			hs.pending = hs.pending[1:]
		}
	})
	if r != nil {
		method, path = vsim.CloneString(r.Method), vsim.CloneString(r.Path)
		body = vsim.CloneBytes(r.Body)
		fault, cut = r.Fault, r.Cut
		cancelAfter = r.CancelAfter
	}
	return
}

//go:norace
func httpFinish(r *HTTPReq, status, nwh int, body []byte, panicked bool) {
	body = vsim.CloneBytes(body)
	vsim.Call(func() {
		r.Done, r.Status, r.WriteHeaders, r.RespBody, r.Panicked = true, status, nwh, body, panicked
		W.Sim.Logf("http done %d wh=%d", status, nwh)
	})
}

type faultReader struct {
	data  []byte
	pos   int
	fault BodyFault
	cut   int
}

func (f *faultReader) Read(p []byte) (int, error) {
	limit := len(f.data)
	if f.fault != BodyOK && f.cut < limit {
		limit = f.cut
	}
	if f.pos >= limit {
		if f.fault == BodyError {
			return 0, errors.New("simulated body read error")
		}
		if f.fault == BodyShort {
			// what net/http reports when the peer closes before Content-Length bytes arrived
			return 0, io.ErrUnexpectedEOF
		}
		return 0, io.EOF
	}
	n := copy(p, f.data[f.pos:limit])
	f.pos += n
	return n, nil
}
func (f *faultReader) Close() error { return nil }

type respRec struct {
	hdr    http.Header
	status int
	nwh    int
	body   bytes.Buffer
}

func (r *respRec) Header() http.Header { return r.hdr }
func (r *respRec) WriteHeader(c int) {
	r.nwh++
	if r.status == 0 {
		r.status = c
	}
}
func (r *respRec) Write(b []byte) (int, error) {
	if r.status == 0 {
		r.WriteHeader(200)
	}
	return r.body.Write(b)
}

func HTTPListenAndServe(srv *http.Server) error {
	hs := httpRegister(srv)
	for {
		var closed bool
		var r *HTTPReq
		var method, path string
		var body []byte
		var fault BodyFault
		var cut int
		var cancelAfter time.Duration
		vsim.Block(func() bool {
			closed, r, method, path, body, fault, cut, cancelAfter = httpTake(hs)
			return closed || r != nil
		})
		if closed {
			return http.ErrServerClosed
		}
		req, err := http.NewRequest(method, "http://upf"+path, &faultReader{data: body, fault: fault, cut: cut})
		if err != nil {
			httpFinish(r, 400, 0, nil, false)
			continue
		}
		if cancelAfter > 0 {
			ctx, cancel := context.WithCancel(context.Background())
			req = req.WithContext(ctx)
			httpCancelLater(cancelAfter, cancel)
		}
		handler := srv.Handler
		rr := r
		vsim.Go(-1, func() {
			rec := &respRec{hdr: http.Header{}}
			defer func() {
				// net/http recovers handler panics and keeps serving
				if x := recover(); x != nil {
					httpFinish(rr, rec.status, rec.nwh, rec.body.Bytes(), true)
					return
				}
				httpFinish(rr, rec.status, rec.nwh, rec.body.Bytes(), false)
			}()
			handler.ServeHTTP(rec, req)
		})
	}
}

//go:norace
func httpCancelLater(d time.Duration, cancel context.CancelFunc) {
	vsim.Call(func() {
		W.Sim.After(d, func() {
			vsim.Ephemeral(cancel)
			W.Sim.Logf("http client gone")
		})
	})
}

//go:norace
func HTTPShutdown(srv *http.Server, ctx context.Context) error {
	vsim.Call(func() {
		for _, s := range W.HTTP.servers {
			if s.srv == srv {
				s.closed = true
			}
		}
	})
	return nil
}

// HTTPTimeoutHandler stands in for net/http.TimeoutHandler, whose own goroutine
// and real-time timer the simulator could not schedule: the inner handler runs as
// a task of its own against a buffered writer; if it has not returned after dt of
// virtual time the client is answered 503 with msg and the inner handler goes on
// in the background, its later writes failing with http.ErrHandlerTimeout -
// exactly what the library does.
func HTTPTimeoutHandler(h http.Handler, dt time.Duration, msg string) http.Handler {
	return &simTimeoutHandler{h: h, dt: dt, msg: msg}
}

type simTimeoutHandler struct {
	h   http.Handler
	dt  time.Duration
	msg string
}

type simTimeoutWriter struct {
	mu       sync.Mutex
	hdr      http.Header
	status   int
	nwh      int
	body     bytes.Buffer
	timedOut bool
	done     bool
	panicked interface{}
}

func (w *simTimeoutWriter) Header() http.Header { return w.hdr }
func (w *simTimeoutWriter) WriteHeader(c int) {
	w.mu.Lock()
	defer w.mu.Unlock()
	if w.timedOut {
		return
	}
	w.nwh++
	if w.status == 0 {
		w.status = c
	}
}
func (w *simTimeoutWriter) Write(b []byte) (int, error) {
	w.mu.Lock()
	defer w.mu.Unlock()
	if w.timedOut {
		return 0, http.ErrHandlerTimeout
	}
	if w.status == 0 {
		w.nwh++
		w.status = 200
	}
	return w.body.Write(b)
}

func (t *simTimeoutHandler) ServeHTTP(w http.ResponseWriter, r *http.Request) {
	ctx, cancel := vsim.WithTimeout(r.Context(), t.dt)
	defer cancel()
	r = r.WithContext(ctx)
	tw := &simTimeoutWriter{hdr: http.Header{}}
	vsim.Go(-1, func() {
		defer func() {
			x := recover()
			tw.mu.Lock()
			tw.done, tw.panicked = true, x
			tw.mu.Unlock()
		}()
		t.h.ServeHTTP(tw, r)
	})
	deadline := vsim.Now().Add(t.dt)
	vsim.AfterFunc(t.dt, func() {}) // an event at the deadline wakes the poll below
	vsim.Block(func() bool {
		tw.mu.Lock()
		d := tw.done
		tw.mu.Unlock()
		return d || !vsim.Now().Before(deadline)
	})
	tw.mu.Lock()
	defer tw.mu.Unlock()
	if tw.done {
		if tw.panicked != nil {
			panic(tw.panicked)
		}
		dst := w.Header()
		for k, v := range tw.hdr {
			dst[k] = v
		}
		for i := 0; i < tw.nwh; i++ {
			if i == 0 {
				w.WriteHeader(tw.status)
			} else {
				w.WriteHeader(tw.status) // a superfluous WriteHeader of the inner handler stays visible
			}
		}
		w.Write(tw.body.Bytes())
		return
	}
	tw.timedOut = true
	w.WriteHeader(http.StatusServiceUnavailable)
	io.WriteString(w, t.msg)
}
