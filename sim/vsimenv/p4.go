package vsimenv

import (
	"google.golang.org/grpc/connectivity"
)

type SimP4 struct {
	w     *World
	State connectivity.State
	Fired map[string]int
}

func newSimP4(w *World) *SimP4 { return &SimP4{w: w, State: connectivity.Ready, Fired: map[string]int{}} }
