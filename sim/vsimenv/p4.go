package vsimenv

import (
	_ "embed"
	"fmt"
	"math/big"
	"sort"
	"strings"
	"time"

	"github.com/golang/protobuf/proto" //nolint:staticcheck // text format of the shipped P4Info
	p4cfg "github.com/p4lang/p4runtime/go/p4/config/v1"
	p4 "github.com/p4lang/p4runtime/go/p4/v1"
	spb "google.golang.org/genproto/googleapis/rpc/status"
	"google.golang.org/grpc/codes"
	"google.golang.org/grpc/connectivity"
	"google.golang.org/grpc/status"
)

// The P4Info the simulated switch serves is the file shipped in the repo
// (copied next to this package by build.sh), parsed independently of
// internal/p4constants.
//
//go:embed p4info.txt
var p4infoText string

type P4Invalid struct {
	What   string
	Entity string
	Stamp  uint64
}

type P4WriteRec struct {
	N       int // 1-based index of the Write RPC since the run started
	Inc     int
	Updates int
	Failed  string // "" | "transport" | "update" | "semantic"
	Summary string
	Stamp   uint64
}

type p4Stream struct {
	inc    int
	q      [][]byte // serialized StreamMessageResponse
	closed bool
}

type SimP4 struct {
	w      *World
	State  connectivity.State
	Fired  map[string]int
	Info   *p4cfg.P4Info
	Faults RPCFaults
	// FailKind: how the FailNth / FailDen write fails: "transport" (nothing
	// applied, gRPC error), "lost" (applied, response lost), "update" (per-update
	// P4 error on one update of the batch, the others are applied)
	FailKind string
	// FailCode: canonical code of the injected per-update error (kind "update"; default INTERNAL)
	FailCode codes.Code

	Tables       map[uint32]map[string]*p4.TableEntry
	Meters       map[uint32]map[int64]*p4.MeterConfig
	Counters     map[uint32]map[int64]bool
	PacketOuts   []UnixWrite
	Writes       int
	WriteLog     []P4WriteRec
	Invalid      []P4Invalid
	KeyConflicts []P4KeyConflict
	// OnWrite, when set, sees the summary of every Write RPC as the switch receives
	// it and may add to its processing time (the simulator aims another event at a
	// particular write being in flight)
	OnWrite func(summary string) time.Duration
	// NeedReconnect: set by Restart; the channel reads IDLE until it is used again
	NeedReconnect bool
	streams       []*p4Stream
	Reads         int

	tabByID  map[uint32]*p4cfg.Table
	actByID  map[uint32]*p4cfg.Action
	metByID  map[uint32]*p4cfg.Meter
	ctrByID  map[uint32]*p4cfg.Counter
	nameToID map[string]uint32
}

func newSimP4(w *World) *SimP4 {
	s := &SimP4{w: w, State: connectivity.Ready, Fired: map[string]int{}, Faults: RPCFaults{LatMin: 100 * time.Microsecond}, FailKind: "transport"}
	s.resetState()
	info := &p4cfg.P4Info{}
	if err := proto.UnmarshalText(p4infoText, info); err != nil {
		panic("vsimenv: cannot parse the shipped p4info.txt: " + err.Error())
	}
	s.SetInfo(info)
	return s
}

// P4KeyConflict records an INSERT whose key was installed with different contents.
type P4KeyConflict struct {
	Table    string
	Old, New *p4.TableEntry
}

func (s *SimP4) resetState() {
	s.Tables = map[uint32]map[string]*p4.TableEntry{}
	s.Meters = map[uint32]map[int64]*p4.MeterConfig{}
	s.Counters = map[uint32]map[int64]bool{}
}

// SetInfo installs the pipeline description (optionally with reduced array sizes).
func (s *SimP4) SetInfo(info *p4cfg.P4Info) {
	s.Info = info
	s.tabByID, s.actByID, s.metByID, s.ctrByID = map[uint32]*p4cfg.Table{}, map[uint32]*p4cfg.Action{}, map[uint32]*p4cfg.Meter{}, map[uint32]*p4cfg.Counter{}
	s.nameToID = map[string]uint32{}
	for _, t := range info.Tables {
		s.tabByID[t.Preamble.Id] = t
		s.nameToID[t.Preamble.Name] = t.Preamble.Id
	}
	for _, a := range info.Actions {
		s.actByID[a.Preamble.Id] = a
		s.nameToID[a.Preamble.Name] = a.Preamble.Id
	}
	for _, m := range info.Meters {
		s.metByID[m.Preamble.Id] = m
		s.nameToID[m.Preamble.Name] = m.Preamble.Id
	}
	for _, c := range info.Counters {
		s.ctrByID[c.Preamble.Id] = c
		s.nameToID[c.Preamble.Name] = c.Preamble.Id
	}
}

// Resize changes the size of a counter or meter array in the served P4Info.
func (s *SimP4) Resize(name string, size int64) {
	for _, m := range s.Info.Meters {
		if m.Preamble.Name == name {
			m.Size = size
		}
	}
	for _, c := range s.Info.Counters {
		if c.Preamble.Name == name {
			c.Size = size
		}
	}
}

// ResizeTable changes the capacity of a table at run time (a switch whose table
// is full answers an INSERT with RESOURCE_EXHAUSTED) and returns the old size.
func (s *SimP4) ResizeTable(name string, size int64) int64 {
	t := s.tabByID[s.nameToID[name]]
	if t == nil {
		return -1
	}
	old := t.Size
	t.Size = size
	return old
}

func (s *SimP4) ID(name string) uint32 { return s.nameToID[name] }

func (s *SimP4) Table(name string) map[string]*p4.TableEntry { return s.Tables[s.nameToID[name]] }

func (s *SimP4) SortedEntries(name string) []*p4.TableEntry {
	t := s.Table(name)
	keys := make([]string, 0, len(t))
	for k := range t {
		keys = append(keys, k)
	}
	sort.Strings(keys)
	out := make([]*p4.TableEntry, 0, len(keys))
	for _, k := range keys {
		out = append(out, t[k])
	}
	return out
}

func (s *SimP4) MatchFieldID(table, field string) uint32 {
	for _, f := range s.tabByID[s.nameToID[table]].GetMatchFields() {
		if f.Name == field {
			return f.Id
		}
	}
	return 0
}

func (s *SimP4) ParamID(action, param string) uint32 {
	for _, p := range s.actByID[s.nameToID[action]].GetParams() {
		if p.Name == param {
			return p.Id
		}
	}
	return 0
}

func (s *SimP4) ActionName(id uint32) string {
	if a := s.actByID[id]; a != nil {
		return a.Preamble.Name
	}
	return fmt.Sprintf("action#%d", id)
}

func (s *SimP4) MeterSize(name string) int64   { return s.metByID[s.nameToID[name]].GetSize() }
func (s *SimP4) CounterSize(name string) int64 { return s.ctrByID[s.nameToID[name]].GetSize() }

// ---------------------------------------------------------------- canonical values

func canon(b []byte) string {
	i := 0
	for i < len(b)-1 && b[i] == 0 {
		i++
	}
	if len(b) == 0 {
		return "00"
	}
	return fmt.Sprintf("%x", b[i:])
}

// BytesToU64 decodes a P4Runtime bytestring.
func BytesToU64(b []byte) uint64 {
	var v uint64
	for _, x := range b {
		v = v<<8 | uint64(x)
	}
	return v
}

func fits(b []byte, bw int32) bool {
	v := new(big.Int).SetBytes(b)
	return v.BitLen() <= int(bw)
}

func entryKey(e *p4.TableEntry) string {
	var parts []string
	for _, m := range e.Match {
		switch x := m.FieldMatchType.(type) {
		case *p4.FieldMatch_Exact_:
			parts = append(parts, fmt.Sprintf("%d=e:%s", m.FieldId, canon(x.Exact.Value)))
		case *p4.FieldMatch_Lpm:
			parts = append(parts, fmt.Sprintf("%d=l:%s/%d", m.FieldId, canon(x.Lpm.Value), x.Lpm.PrefixLen))
		case *p4.FieldMatch_Ternary_:
			parts = append(parts, fmt.Sprintf("%d=t:%s&%s", m.FieldId, canon(x.Ternary.Value), canon(x.Ternary.Mask)))
		case *p4.FieldMatch_Range_:
			parts = append(parts, fmt.Sprintf("%d=r:%s-%s", m.FieldId, canon(x.Range.Low), canon(x.Range.High)))
		default:
			parts = append(parts, fmt.Sprintf("%d=?", m.FieldId))
		}
	}
	sort.Strings(parts)
	return strings.Join(parts, ",") + fmt.Sprintf("|p%d", e.Priority)
}

// ---------------------------------------------------------------- validation against the served P4Info (C16 monitor)

func (s *SimP4) invalid(what string, ent proto.Message) {
	txt := ""
	if ent != nil {
		txt = fmt.Sprint(ent)
		if len(txt) > 400 {
			txt = txt[:400]
		}
	}
	s.Invalid = append(s.Invalid, P4Invalid{What: what, Entity: txt, Stamp: s.w.NextStamp()})
	s.w.Sim.Logf("p4 INVALID %s", what)
}

// validateTableEntry returns "" when the entry conforms to the P4Info.
func (s *SimP4) validateTableEntry(e *p4.TableEntry, del bool) string {
	t := s.tabByID[e.TableId]
	if t == nil {
		return fmt.Sprintf("table:unknown-id:%d", e.TableId)
	}
	name := t.Preamble.Name
	needPrio := false
	seen := map[uint32]bool{}
	fields := map[uint32]*p4cfg.MatchField{}
	for _, f := range t.MatchFields {
		fields[f.Id] = f
		if f.GetMatchType() == p4cfg.MatchField_TERNARY || f.GetMatchType() == p4cfg.MatchField_RANGE || f.GetMatchType() == p4cfg.MatchField_OPTIONAL {
			needPrio = true
		}
	}
	for _, m := range e.Match {
		f := fields[m.FieldId]
		if f == nil {
			return fmt.Sprintf("match:field-not-in-table:%s:%d", name, m.FieldId)
		}
		if seen[m.FieldId] {
			return fmt.Sprintf("match:field-repeated:%s.%s", name, f.Name)
		}
		seen[m.FieldId] = true
		switch x := m.FieldMatchType.(type) {
		case *p4.FieldMatch_Exact_:
			if f.GetMatchType() != p4cfg.MatchField_EXACT {
				return fmt.Sprintf("match:wrong-kind:%s.%s:exact", name, f.Name)
			}
			if !fits(x.Exact.Value, f.Bitwidth) {
				return fmt.Sprintf("match:value-too-wide:%s.%s", name, f.Name)
			}
		case *p4.FieldMatch_Lpm:
			if f.GetMatchType() != p4cfg.MatchField_LPM {
				return fmt.Sprintf("match:wrong-kind:%s.%s:lpm", name, f.Name)
			}
			if !fits(x.Lpm.Value, f.Bitwidth) {
				return fmt.Sprintf("match:value-too-wide:%s.%s", name, f.Name)
			}
			if x.Lpm.PrefixLen <= 0 || x.Lpm.PrefixLen > f.Bitwidth {
				return fmt.Sprintf("match:bad-prefix-length:%s.%s", name, f.Name)
			}
		case *p4.FieldMatch_Ternary_:
			if f.GetMatchType() != p4cfg.MatchField_TERNARY {
				return fmt.Sprintf("match:wrong-kind:%s.%s:ternary", name, f.Name)
			}
			if !fits(x.Ternary.Value, f.Bitwidth) || !fits(x.Ternary.Mask, f.Bitwidth) {
				return fmt.Sprintf("match:value-too-wide:%s.%s", name, f.Name)
			}
			if new(big.Int).SetBytes(x.Ternary.Mask).Sign() == 0 {
				return fmt.Sprintf("match:zero-ternary-mask:%s.%s", name, f.Name)
			}
		case *p4.FieldMatch_Range_:
			if f.GetMatchType() != p4cfg.MatchField_RANGE {
				return fmt.Sprintf("match:wrong-kind:%s.%s:range", name, f.Name)
			}
			if !fits(x.Range.Low, f.Bitwidth) || !fits(x.Range.High, f.Bitwidth) {
				return fmt.Sprintf("match:value-too-wide:%s.%s", name, f.Name)
			}
			if new(big.Int).SetBytes(x.Range.Low).Cmp(new(big.Int).SetBytes(x.Range.High)) > 0 {
				return fmt.Sprintf("match:range-low-above-high:%s.%s", name, f.Name)
			}
		default:
			return fmt.Sprintf("match:unsupported-kind:%s.%s", name, f.Name)
		}
	}
	// exact fields are mandatory
	for _, f := range t.MatchFields {
		if f.GetMatchType() == p4cfg.MatchField_EXACT && !seen[f.Id] {
			return fmt.Sprintf("match:exact-field-missing:%s.%s", name, f.Name)
		}
	}
	if needPrio && e.Priority <= 0 {
		return fmt.Sprintf("priority:zero-on-ternary-or-range-table:%s", name)
	}
	if !needPrio && e.Priority != 0 {
		return fmt.Sprintf("priority:nonzero-on-exact-table:%s", name)
	}
	if del {
		return ""
	}
	act := e.GetAction().GetAction()
	if act == nil {
		return fmt.Sprintf("action:missing:%s", name)
	}
	allowed := false
	for _, r := range t.ActionRefs {
		if r.Id == act.ActionId {
			allowed = true
		}
	}
	a := s.actByID[act.ActionId]
	if a == nil || !allowed {
		return fmt.Sprintf("action:not-allowed-for-table:%s:%s", name, s.ActionName(act.ActionId))
	}
	got := map[uint32]bool{}
	for _, p := range act.Params {
		var decl *p4cfg.Action_Param
		for _, d := range a.Params {
			if d.Id == p.ParamId {
				decl = d
			}
		}
		if decl == nil {
			return fmt.Sprintf("action:unknown-param:%s:%d", a.Preamble.Name, p.ParamId)
		}
		if got[p.ParamId] {
			return fmt.Sprintf("action:param-repeated:%s.%s", a.Preamble.Name, decl.Name)
		}
		got[p.ParamId] = true
		if !fits(p.Value, decl.Bitwidth) {
			return fmt.Sprintf("action:param-too-wide:%s.%s", a.Preamble.Name, decl.Name)
		}
	}
	for _, d := range a.Params {
		if !got[d.Id] {
			return fmt.Sprintf("action:param-missing:%s.%s", a.Preamble.Name, d.Name)
		}
	}
	return ""
}

// ---------------------------------------------------------------- Write / Read

func p4err(code codes.Code, msg string) *p4.Error {
	return &p4.Error{CanonicalCode: int32(code), Message: msg, Space: "ALL-sswitch-p4org"}
}

// applyUpdate validates and applies one update; returns the per-update status.
func (s *SimP4) applyUpdate(u *p4.Update) *p4.Error {
	switch ent := u.GetEntity().GetEntity().(type) {
	case *p4.Entity_TableEntry:
		e := ent.TableEntry
		if bad := s.validateTableEntry(e, u.Type == p4.Update_DELETE); bad != "" {
			s.invalid(bad, e)
			return p4err(codes.InvalidArgument, bad)
		}
		tab := s.Tables[e.TableId]
		if tab == nil {
			tab = map[string]*p4.TableEntry{}
			s.Tables[e.TableId] = tab
		}
		k := entryKey(e)
		_, exists := tab[k]
		switch u.Type {
		case p4.Update_INSERT:
			if exists {
				if old := tab[k]; !proto.Equal(old.GetAction(), e.GetAction()) {
					// an INSERT under an installed key with other contents: the
					// writer believes the key (for tunnel_peers: the id) is free
					s.KeyConflicts = append(s.KeyConflicts, P4KeyConflict{Table: s.tabByID[e.TableId].Preamble.Name, Old: proto.Clone(old).(*p4.TableEntry), New: proto.Clone(e).(*p4.TableEntry)})
				}
				return p4err(codes.AlreadyExists, "entry exists")
			}
			if int64(len(tab)) >= s.tabByID[e.TableId].Size {
				s.Fired["p4-table-full"]++
				return p4err(codes.ResourceExhausted, "table full")
			}
			tab[k] = proto.Clone(e).(*p4.TableEntry)
		case p4.Update_MODIFY:
			if !exists {
				return p4err(codes.NotFound, "entry not found")
			}
			tab[k] = proto.Clone(e).(*p4.TableEntry)
		case p4.Update_DELETE:
			if !exists {
				return p4err(codes.NotFound, "entry not found")
			}
			delete(tab, k)
		default:
			return p4err(codes.InvalidArgument, "update type unspecified")
		}
	case *p4.Entity_MeterEntry:
		m := ent.MeterEntry
		decl := s.metByID[m.MeterId]
		if decl == nil {
			s.invalid(fmt.Sprintf("meter:unknown-id:%d", m.MeterId), m)
			return p4err(codes.InvalidArgument, "unknown meter")
		}
		if m.Index == nil || m.Index.Index < 0 || m.Index.Index >= decl.Size {
			s.invalid(fmt.Sprintf("meter:index-out-of-range:%s", decl.Preamble.Name), m)
			return p4err(codes.InvalidArgument, "meter index out of range")
		}
		if u.Type != p4.Update_MODIFY {
			s.invalid(fmt.Sprintf("meter:update-type-not-modify:%s", decl.Preamble.Name), m)
			return p4err(codes.InvalidArgument, "meter entries can only be modified")
		}
		if c := m.Config; c != nil && (c.Cir < 0 || c.Pir < 0 || c.Cburst < 0 || c.Pburst < 0 || c.Cir > c.Pir) {
			s.invalid(fmt.Sprintf("meter:bad-config:%s", decl.Preamble.Name), m)
			return p4err(codes.InvalidArgument, "bad meter config")
		}
		if s.Meters[m.MeterId] == nil {
			s.Meters[m.MeterId] = map[int64]*p4.MeterConfig{}
		}
		if m.Config == nil {
			delete(s.Meters[m.MeterId], m.Index.Index) // reset to default
		} else {
			s.Meters[m.MeterId][m.Index.Index] = proto.Clone(m.Config).(*p4.MeterConfig)
		}
	case *p4.Entity_CounterEntry:
		c := ent.CounterEntry
		decl := s.ctrByID[c.CounterId]
		if decl == nil {
			s.invalid(fmt.Sprintf("counter:unknown-id:%d", c.CounterId), c)
			return p4err(codes.InvalidArgument, "unknown counter")
		}
		if c.Index == nil || c.Index.Index < 0 || c.Index.Index >= decl.Size {
			s.invalid(fmt.Sprintf("counter:index-out-of-range:%s", decl.Preamble.Name), c)
			return p4err(codes.InvalidArgument, "counter index out of range")
		}
		if u.Type != p4.Update_MODIFY {
			s.invalid(fmt.Sprintf("counter:update-type-not-modify:%s", decl.Preamble.Name), c)
			return p4err(codes.InvalidArgument, "counter entries can only be modified")
		}
		if s.Counters[c.CounterId] == nil {
			s.Counters[c.CounterId] = map[int64]bool{}
		}
		s.Counters[c.CounterId][c.Index.Index] = true
	default:
		if u.GetEntity() == nil {
			// the agent's ClearTable pads its batch with nil updates
			s.invalid("update:nil-entity", nil)
			return p4err(codes.InvalidArgument, "empty update")
		}
		s.invalid("update:unsupported-entity", u.GetEntity())
		return p4err(codes.Unimplemented, "entity kind not supported")
	}
	return &p4.Error{CanonicalCode: int32(codes.OK)}
}

func summarize(req *p4.WriteRequest) string {
	var parts []string
	for _, u := range req.Updates {
		kind := "?"
		switch ent := u.GetEntity().GetEntity().(type) {
		case *p4.Entity_TableEntry:
			kind = fmt.Sprintf("T%d", ent.TableEntry.TableId)
		case *p4.Entity_MeterEntry:
			kind = fmt.Sprintf("M%d[%d]", ent.MeterEntry.MeterId, ent.MeterEntry.GetIndex().GetIndex())
		case *p4.Entity_CounterEntry:
			kind = fmt.Sprintf("C%d[%d]", ent.CounterEntry.CounterId, ent.CounterEntry.GetIndex().GetIndex())
		}
		parts = append(parts, u.Type.String()[:3]+":"+kind)
	}
	return strings.Join(parts, " ")
}

// EntryCount: entries in all tables of the switch.
func (s *SimP4) EntryCount() int {
	n := 0
	for _, t := range s.Tables {
		n += len(t)
	}
	return n
}

func summarizeBytes(reqBytes []byte) string {
	var req p4.WriteRequest
	if err := proto.Unmarshal(reqBytes, &req); err != nil {
		return "?"
	}
	return summarize(&req)
}

// write handles one Write RPC on the simulator goroutine; returns the
// serialized google.rpc.Status (nil = OK).
func (s *SimP4) write(reqBytes []byte, inc int, failThis bool) (st []byte) {
	var req p4.WriteRequest
	if err := proto.Unmarshal(reqBytes, &req); err != nil {
		b, _ := proto.Marshal(status.New(codes.Internal, "unmarshal").Proto())
		return b
	}
	rec := P4WriteRec{N: s.Writes, Inc: inc, Updates: len(req.Updates), Summary: summarize(&req), Stamp: s.w.NextStamp()}
	var errs []*p4.Error
	anyErr := false
	failIdx := -1
	if failThis && s.FailKind == "update" && len(req.Updates) > 0 {
		failIdx = s.w.Sim.Ch.Choose(len(req.Updates), "p4-fail-update")
	}
	for i, u := range req.Updates {
		if i == failIdx {
			code := s.FailCode
			if code == codes.OK {
				code = codes.Internal
			}
			errs = append(errs, p4err(code, "injected per-update failure"))
			anyErr = true
			continue
		}
		e := s.applyUpdate(u)
		if e.CanonicalCode != int32(codes.OK) {
			anyErr = true
			if rec.Failed == "" {
				rec.Failed = "semantic"
			}
		}
		errs = append(errs, e)
	}
	if failIdx >= 0 {
		rec.Failed = "update"
	}
	s.WriteLog = append(s.WriteLog, rec)
	s.w.Sim.Logf("p4 write #%d inc=%d %s failed=%q", rec.N, inc, rec.Summary, rec.Failed)
	if !anyErr {
		return nil
	}
	stt := status.New(codes.Unknown, "write failed for some updates")
	for _, e := range errs {
		if d, err := stt.WithDetails(e); err == nil {
			stt = d
		}
	}
	b, _ := proto.Marshal(stt.Proto())
	return b
}

func (s *SimP4) submitWrite(reqBytes []byte, inc int) *rpcCall {
	sim := s.w.Sim
	s.Writes++
	if s.State == connectivity.Ready {
		s.NeedReconnect = false
	}
	c := &rpcCall{id: s.Writes, inc: inc}
	f := &s.Faults
	finish := func(d time.Duration, fn func()) {
		sim.After(d, func() {
			fn()
			c.done = true
		})
	}
	if s.State != connectivity.Ready {
		s.Fired["p4-unavailable"]++
		finish(f.LatMin, func() { c.errCode, c.errMsg = codes.Unavailable, "switch unreachable (simulated)" })
		return c
	}
	failThis := (f.FailNth != 0 && s.Writes == f.FailNth) || (f.FailDen > 0 && sim.Ch.Bool(1, f.FailDen, "p4-fail"))
	d1 := f.lat(sim)
	if s.OnWrite != nil {
		d1 += s.OnWrite(summarizeBytes(reqBytes))
	}
	if f.SlowDen > 0 && sim.Ch.Bool(1, f.SlowDen, "p4-slow") {
		// one slow round trip: later writes of other handlers overtake this one
		d1 += f.SlowBy
		s.Fired["p4-write-slow"]++
	}
	if failThis && s.FailKind == "bare-unknown" {
		// what gRPC makes of an exception in the server: UNKNOWN, no per-update details, nothing applied
		s.Fired["p4-write-fail-bare-unknown"]++
		n := s.Writes
		finish(d1, func() {
			s.WriteLog = append(s.WriteLog, P4WriteRec{N: n, Inc: inc, Failed: "bare-unknown", Stamp: s.w.NextStamp()})
			sim.Logf("p4 write #%d inc=%d failed=bare-unknown", n, inc)
			c.errCode, c.errMsg = codes.Unknown, "internal server error (simulated)"
		})
		return c
	}
	if failThis && s.FailKind == "transport" {
		s.Fired["p4-write-fail-transport"]++
		n := s.Writes
		finish(d1, func() {
			s.WriteLog = append(s.WriteLog, P4WriteRec{N: n, Inc: inc, Failed: "transport", Summary: summarizeBytes(reqBytes), Stamp: s.w.NextStamp()})
			sim.Logf("p4 write #%d inc=%d failed=transport", n, inc)
			c.errCode, c.errMsg = codes.Unavailable, "transport failure (simulated)"
		})
		return c
	}
	sim.After(d1, func() {
		upd := failThis && s.FailKind == "update"
		if upd {
			s.Fired["p4-write-fail-update"]++
		}
		st := s.write(reqBytes, inc, upd)
		d2 := f.lat(sim)
		if failThis && s.FailKind == "lost" {
			s.Fired["p4-write-response-lost"]++
			finish(d2, func() { c.errCode, c.errMsg = codes.Unavailable, "response lost (simulated)" })
			return
		}
		finish(d2, func() {
			if st != nil {
				c.errCode, c.errMsg, c.detail = codes.Unknown, "write failed", st
			} else {
				c.resp, _ = proto.Marshal(&p4.WriteResponse{})
			}
		})
	})
	return c
}

func (s *SimP4) submitRead(reqBytes []byte, inc int) *rpcCall {
	sim := s.w.Sim
	s.Reads++
	c := &rpcCall{inc: inc}
	if s.State != connectivity.Ready {
		sim.After(s.Faults.LatMin, func() { c.errCode, c.errMsg, c.done = codes.Unavailable, "switch unreachable (simulated)", true })
		return c
	}
	sim.After(s.Faults.lat(sim), func() {
		var req p4.ReadRequest
		resp := &p4.ReadResponse{}
		if err := proto.Unmarshal(reqBytes, &req); err == nil {
			for _, ent := range req.Entities {
				if te := ent.GetTableEntry(); te != nil {
					if s.tabByID[te.TableId] == nil && te.TableId != 0 {
						s.invalid(fmt.Sprintf("read:unknown-table:%d", te.TableId), te)
						continue
					}
					var keys []string
					for k := range s.Tables[te.TableId] {
						keys = append(keys, k)
					}
					sort.Strings(keys)
					for _, k := range keys {
						resp.Entities = append(resp.Entities, &p4.Entity{Entity: &p4.Entity_TableEntry{TableEntry: s.Tables[te.TableId][k]}})
					}
				}
			}
		}
		out, _ := proto.Marshal(resp)
		sim.After(s.Faults.lat(sim), func() { c.resp, c.done = out, true })
	})
	return c
}

func (s *SimP4) submitGetConfig(inc int) *rpcCall {
	sim := s.w.Sim
	c := &rpcCall{inc: inc}
	if s.State != connectivity.Ready {
		sim.After(s.Faults.LatMin, func() { c.errCode, c.errMsg, c.done = codes.Unavailable, "switch unreachable (simulated)", true })
		return c
	}
	sim.After(2*s.Faults.lat(sim), func() {
		resp := &p4.GetForwardingPipelineConfigResponse{Config: &p4.ForwardingPipelineConfig{P4Info: s.Info, Cookie: &p4.ForwardingPipelineConfig_Cookie{Cookie: 1}}}
		c.resp, _ = proto.Marshal(resp)
		c.done = true
	})
	return c
}

// ---------------------------------------------------------------- stream channel

func (s *SimP4) openStream(inc int) (*p4Stream, codes.Code) {
	if s.State != connectivity.Ready {
		return nil, codes.Unavailable
	}
	st := &p4Stream{inc: inc}
	s.streams = append(s.streams, st)
	s.NeedReconnect = false
	return st, codes.OK
}

func (s *SimP4) streamSend(st *p4Stream, reqBytes []byte) codes.Code {
	if st.closed || s.State != connectivity.Ready {
		return codes.Unavailable
	}
	var req p4.StreamMessageRequest
	if err := proto.Unmarshal(reqBytes, &req); err != nil {
		return codes.Internal
	}
	switch u := req.Update.(type) {
	case *p4.StreamMessageRequest_Arbitration:
		resp := &p4.StreamMessageResponse{Update: &p4.StreamMessageResponse_Arbitration{Arbitration: &p4.MasterArbitrationUpdate{
			DeviceId: u.Arbitration.DeviceId, ElectionId: u.Arbitration.ElectionId, Status: &spb.Status{Code: int32(codes.OK)}}}}
		b, _ := proto.Marshal(resp)
		s.w.Sim.After(s.Faults.LatMin, func() { st.q = append(st.q, b) })
	case *p4.StreamMessageRequest_Packet:
		s.PacketOuts = append(s.PacketOuts, UnixWrite{Data: append([]byte{}, u.Packet.Payload...), At: s.w.Sim.NowNS(), Seq: s.w.NextStamp()})
		s.w.Sim.Logf("p4 packet-out %d bytes", len(u.Packet.Payload))
	}
	return codes.OK
}

// InjectDigest delivers a digest carrying a UE address on every live stream.
func (s *SimP4) InjectDigest(ueAddr uint32) int {
	d := &p4.StreamMessageResponse{Update: &p4.StreamMessageResponse_Digest{Digest: &p4.DigestList{
		Data: []*p4.P4Data{{Data: &p4.P4Data_Bitstring{Bitstring: []byte{byte(ueAddr >> 24), byte(ueAddr >> 16), byte(ueAddr >> 8), byte(ueAddr)}}}}}}}
	b, _ := proto.Marshal(d)
	n := 0
	for _, st := range s.streams {
		if !st.closed && !s.w.Sim.IncDead(st.inc) {
			st.q = append(st.q, b)
			n++
		}
	}
	s.w.Sim.MarkDirty()
	return n
}

// Restart models a switch / ONOS restart: streams break; state is lost unless keep.
func (s *SimP4) Restart(keep bool) {
	for _, st := range s.streams {
		st.closed = true
	}
	if !keep {
		s.resetState()
	}
	// the client's channel lost its transport: it reads IDLE (not READY) until a
	// new stream or RPC makes it connect again
	s.NeedReconnect = true
	s.w.Sim.Logf("p4 restart keep=%v", keep)
	s.w.Sim.MarkDirty()
}
