// Package vsimenv is the simulated environment of the PFCP agent: datagram
// network with SO_REUSEPORT-style demultiplexing, unix sockets, the BESS and
// P4Runtime gRPC services, the HTTP listener and name/interface lookups.
//
// All state in this package is owned by the simulator goroutine. Task-side
// entry points (the methods of the net.Conn / client implementations handed to
// the agent) are //go:norace, copy program memory, and hand a closure to the
// simulator goroutine through vsim.Call.
package vsimenv

import (
	"errors"
	"fmt"
	"net"
	"os"
	"strconv"
	"strings"
	"syscall"
	"time"

	"github.com/omec-project/upf-epc/zzverif/vsim"
)

// W is the world of the current run.
var W *World

type World struct {
	Sim  *vsim.Sim
	Net  *Net
	Bess *SimBESS
	P4   *SimP4
	HTTP *SimHTTP

	AgentIP string
	Ifaces  map[string]string   // interface name -> "a.b.c.d/len"
	Hosts   map[string][]string // LookupHost table
	FQDN    string

	Exits []string // os.Exit calls
	stamp uint64
	sigs  []sigReg
}

func NewWorld(s *vsim.Sim) *World {
	w := &World{Sim: s, AgentIP: "10.250.0.1", Ifaces: map[string]string{}, Hosts: map[string][]string{}, FQDN: "upf.sim.local"}
	w.Net = newNet(w)
	w.Bess = newSimBESS(w)
	w.P4 = newSimP4(w)
	w.HTTP = &SimHTTP{w: w}
	W = w
	return w
}

// ---------------------------------------------------------------- datagram network

type dgram struct {
	src  string
	data []byte
}

type sockKind int

const (
	skListen sockKind = iota
	skConn
	skUnix
)

type sock struct {
	id        int
	inc       int
	kind      sockKind
	local     string
	remote    string
	q         []dgram
	closed    bool
	rdeadline int64
	refused   bool
}

type NetFaults struct {
	DropDen int           // drop 1 in DropDen datagrams (0 = never)
	DupDen  int           // duplicate 1 in DupDen
	LatMin  time.Duration // base one-way latency
	LatJit  time.Duration // + uniform jitter (reordering when > spacing)
	SlowDen int           // 1 in SlowDen datagrams gets SlowBy extra
	SlowBy  time.Duration
}

type Verdict int

const (
	Deliver Verdict = iota
	Drop
)

type Net struct {
	w         *World
	socks     []*sock
	peers     map[string]func(src string, data []byte)
	down      map[string]bool
	ToAgent   NetFaults
	FromAgent NetFaults
	// Filter, when set, is consulted first for every datagram (scripted loss).
	Filter func(src, dst string, data []byte) Verdict
	// OnAgentSend observes every datagram the agent transmits (before faults).
	OnAgentSend func(src, dst string, data []byte)
	// OnConnClose observes the close of a connected UDP socket of the agent (the
	// simulator may aim an arrival at the instants right after it).
	OnConnClose func(local, remote string)

	Stats     map[string]int
	ephemeral int
	UnixSink  map[string][]UnixWrite
	// UnixFailNext: the next n writes to the path fail with ECONNREFUSED
	UnixFailNext map[string]int
	UnixOpen     map[string]bool
	// UnixStallUntil: writes to the path block until this virtual instant (use StallUnix)
	UnixStallUntil map[string]int64
	// DialFailNext: the next n attempts to create a connected UDP socket fail with EMFILE
	DialFailNext int
}

type UnixWrite struct {
	Data []byte
	At   int64
	Seq  uint64 // global event order stamp
}

func newNet(w *World) *Net {
	return &Net{w: w, peers: map[string]func(string, []byte){}, down: map[string]bool{}, Stats: map[string]int{},
		ephemeral: 50000, UnixSink: map[string][]UnixWrite{}, UnixFailNext: map[string]int{}, UnixOpen: map[string]bool{}, UnixStallUntil: map[string]int64{},
		ToAgent: NetFaults{LatMin: 200 * time.Microsecond}, FromAgent: NetFaults{LatMin: 200 * time.Microsecond}}
}

// Register attaches an external endpoint (a control-plane peer model).
func (n *Net) Register(addr string, h func(src string, data []byte)) { n.peers[addr] = h }

// SetDown makes an external endpoint unreachable (ICMP port unreachable).
func (n *Net) SetDown(addr string, down bool) { n.down[addr] = down }

func (n *Net) stat(k string) { n.Stats[k]++ }

// Send injects a datagram from an external endpoint towards dst.
func (n *Net) Send(src, dst string, data []byte) { n.route(src, dst, data, &n.ToAgent, "in") }

func (n *Net) route(src, dst string, data []byte, f *NetFaults, dir string) {
	s := n.w.Sim
	if n.Filter != nil && n.Filter(src, dst, data) == Drop {
		n.stat("filtered-" + dir)
		s.Logf("net filter-drop %s->%s %d", src, dst, len(data))
		return
	}
	if f.DropDen > 0 && s.Ch.Bool(1, f.DropDen, "drop") {
		n.stat("drop-" + dir)
		s.Logf("net drop %s->%s %d", src, dst, len(data))
		return
	}
	lat := func() time.Duration {
		d := f.LatMin
		if f.LatJit > 0 {
			d += time.Duration(s.Ch.Choose(int(f.LatJit/time.Microsecond)+1, "jitter")) * time.Microsecond
		}
		if f.SlowDen > 0 && s.Ch.Bool(1, f.SlowDen, "slow") {
			d += f.SlowBy
			n.stat("delay-" + dir)
		}
		return d
	}
	s.After(lat(), func() { n.arrive(src, dst, data) })
	if f.DupDen > 0 && s.Ch.Bool(1, f.DupDen, "dup") {
		n.stat("dup-" + dir)
		cp := append([]byte{}, data...)
		s.After(lat()+50*time.Microsecond, func() { n.arrive(src, dst, cp) })
	}
}

// Arrive delivers a datagram now (no latency, no faults): for arrivals the
// simulator aims at an instant.
func (n *Net) Arrive(src, dst string, data []byte) { n.arrive(src, dst, data) }

// arrive performs kernel demultiplexing at arrival time.
func (n *Net) arrive(src, dst string, data []byte) {
	s := n.w.Sim
	if h, ok := n.peers[dst]; ok {
		if n.down[dst] {
			n.stat("to-down-peer")
			// ICMP port unreachable back to a connected socket
			for _, sk := range n.socks {
				if sk.kind == skConn && !sk.closed && !s.IncDead(sk.inc) && sk.local == src && sk.remote == dst {
					sk.refused = true
					n.stat("econnrefused")
				}
			}
			return
		}
		h(src, data)
		return
	}
	var lst *sock
	for _, sk := range n.socks {
		if sk.closed || s.IncDead(sk.inc) {
			continue
		}
		if sk.kind == skConn && sk.local == dst && sk.remote == src {
			n.enqueue(sk, src, data)
			return
		}
		if sk.kind == skListen && sk.local == dst {
			lst = sk
		}
	}
	if lst != nil {
		n.enqueue(lst, src, data)
		return
	}
	n.stat("no-socket")
	s.Logf("net no-socket %s->%s", src, dst)
}

func (n *Net) enqueue(sk *sock, src string, data []byte) {
	if len(sk.q) >= 512 {
		n.stat("rcvbuf-overflow")
		return
	}
	sk.q = append(sk.q, dgram{src, data})
	n.w.Sim.Logf("net rx sock=%d %s<-%s %d", sk.id, sk.local, src, len(data))
}

func (n *Net) newSock(inc int, k sockKind, local, remote string) *sock {
	sk := &sock{id: len(n.socks), inc: inc, kind: k, local: local, remote: remote}
	n.socks = append(n.socks, sk)
	return sk
}

// Listening: the incarnation has a live UDP listening socket.
func (n *Net) Listening(inc int) bool {
	for _, sk := range n.socks {
		if sk.inc == inc && sk.kind == skListen && !sk.closed {
			return true
		}
	}
	return false
}

// OpenSockets lists live sockets of an incarnation (leak oracle).
func (n *Net) OpenSockets(inc int) []string {
	var out []string
	for _, sk := range n.socks {
		if sk.inc == inc && !sk.closed {
			out = append(out, fmt.Sprintf("%d:%s->%s", sk.kind, sk.local, sk.remote))
		}
	}
	return out
}

func (w *World) normLocal(addr string) string {
	host, port, err := net.SplitHostPort(addr)
	if err != nil {
		return addr
	}
	ip := net.ParseIP(host)
	if host == "" || (ip != nil && ip.IsUnspecified()) {
		host = w.AgentIP
	}
	return net.JoinHostPort(host, port)
}

func udpAddr(a string) *net.UDPAddr {
	host, port, err := net.SplitHostPort(a)
	if err != nil {
		return &net.UDPAddr{}
	}
	p, _ := strconv.Atoi(port)
	return &net.UDPAddr{IP: net.ParseIP(host), Port: p}
}

// ---------------------------------------------------------------- task-side: UDP

type PacketConn struct {
	s     *sock
	local string
}

type UDPConn struct {
	s             *sock
	local, remote string
}

//go:norace
func ListenPacket(network, address string) (net.PacketConn, error) {
	if !strings.HasPrefix(network, "udp") {
		return nil, fmt.Errorf("vsimenv: ListenPacket %s unsupported", network)
	}
	address = vsim.CloneString(address)
	inc := vsim.CurInc()
	var sk *sock
	var local string
	code := eOK
	vsim.Call(func() {
		w := W
		local = w.normLocal(address)
		for _, x := range w.Net.socks {
			if x.kind == skListen && !x.closed && !w.Sim.IncDead(x.inc) && x.local == local {
				code = eAddrInUse
				return
			}
		}
		sk = w.Net.newSock(inc, skListen, local, "")
	})
	if code != eOK {
		return nil, mkErr(code, "listen")
	}
	return &PacketConn{s: sk, local: vsim.CloneString(local)}, nil
}

//go:norace
func DialUDP(network, laddr, raddr string) (net.Conn, error) {
	laddr, raddr = vsim.CloneString(laddr), vsim.CloneString(raddr)
	inc := vsim.CurInc()
	var sk *sock
	var local string
	failed := false
	vsim.Call(func() {
		w := W
		if w.Net.DialFailNext > 0 {
			// the process is out of file descriptors (or memory for socket
			// buffers): socket() fails
			w.Net.DialFailNext--
			w.Net.Stats["dial-failed-emfile"]++
			failed = true
			return
		}
		local = w.normLocal(laddr)
		sk = w.Net.newSock(inc, skConn, local, raddr)
	})
	if failed {
		return nil, &net.OpError{Op: "dial", Net: "udp", Err: os.NewSyscallError("socket", syscall.EMFILE)}
	}
	return &UDPConn{s: sk, local: vsim.CloneString(local), remote: raddr}, nil
}

//go:norace
func Dial(network, address string) (net.Conn, error) {
	address = vsim.CloneString(address)
	inc := vsim.CurInc()
	if strings.HasPrefix(network, "unix") {
		var sk *sock
		code := eOK
		vsim.Call(func() {
			w := W
			if !w.Net.UnixOpen[address] {
				code = eNoEnt
				return
			}
			sk = w.Net.newSock(inc, skUnix, "", address)
		})
		if code != eOK {
			return nil, mkErr(code, "dial")
		}
		return &UnixConn{s: sk, path: address}, nil
	}
	if !strings.HasPrefix(network, "udp") {
		return nil, fmt.Errorf("vsimenv: Dial %s unsupported", network)
	}
	var sk *sock
	var local string
	vsim.Call(func() {
		w := W
		w.Net.ephemeral++
		local = net.JoinHostPort(w.AgentIP, strconv.Itoa(w.Net.ephemeral))
		sk = w.Net.newSock(inc, skConn, local, address)
	})
	return &UDPConn{s: sk, local: vsim.CloneString(local), remote: address}, nil
}

// error codes cross the task/simulator boundary; error values are built task-side.
const (
	eOK = iota
	eClosed
	eRefused
	eTimeout
	eNoEnt
	eAddrInUse
)

func mkErr(code int, op string) error {
	switch code {
	case eClosed:
		return &net.OpError{Op: op, Net: "udp", Err: net.ErrClosed}
	case eRefused:
		return &net.OpError{Op: op, Net: "udp", Err: os.NewSyscallError(op, syscall.ECONNREFUSED)}
	case eTimeout:
		return &net.OpError{Op: op, Net: "udp", Err: os.ErrDeadlineExceeded}
	case eNoEnt:
		return &net.OpError{Op: op, Net: "unixpacket", Err: os.NewSyscallError("connect", syscall.ENOENT)}
	case eAddrInUse:
		return &net.OpError{Op: op, Net: "udp", Err: os.NewSyscallError("bind", syscall.EADDRINUSE)}
	}
	return nil
}

// tryRead runs on the simulator goroutine.
func (sk *sock) tryRead(now int64) (d dgram, code int, done bool) {
	if sk.closed {
		return d, eClosed, true
	}
	if len(sk.q) > 0 {
		d = sk.q[0]
		sk.q = sk.q[1:]
		return d, eOK, true
	}
	if sk.refused {
		sk.refused = false
		return d, eRefused, true
	}
	if sk.rdeadline != 0 && now >= sk.rdeadline {
		return d, eTimeout, true
	}
	return d, eOK, false
}

//go:norace
func sockTryRead(sk *sock, b []byte) (n int, src string, code int, done bool) {
	var d dgram
	vsim.Call(func() { d, code, done = sk.tryRead(W.Sim.NowNS()) })
	if done && code == eOK {
		n = vsim.CopyInto(b, d.data)
		src = vsim.CloneString(d.src)
	}
	return
}

func sockRead(sk *sock, b []byte) (int, string, error) {
	var n, code int
	var src string
	vsim.Block(func() bool {
		var done bool
		n, src, code, done = sockTryRead(sk, b)
		return done
	})
	if code != eOK {
		return 0, "", mkErr(code, "read")
	}
	return n, src, nil
}

//go:norace
func sockWrite(sk *sock, b []byte, dst string) (int, error) {
	vsim.IOPoint() // the bytes are read only after this scheduling point, as a real write(2) would
	data := vsim.CloneBytes(b)
	dst = vsim.CloneString(dst)
	code := eOK
	vsim.Call(func() {
		w := W
		if sk.closed {
			code = eClosed
			return
		}
		if sk.refused {
			sk.refused = false
			code = eRefused
			return
		}
		if dst == "" {
			dst = sk.remote
		}
		w.Sim.Logf("net tx sock=%d %s->%s %d", sk.id, sk.local, dst, len(data))
		if w.Net.OnAgentSend != nil {
			w.Net.OnAgentSend(sk.local, dst, data)
		}
		w.Net.route(sk.local, dst, data, &w.Net.FromAgent, "out")
	})
	if code != eOK {
		return 0, mkErr(code, "write")
	}
	return len(b), nil
}

//go:norace
func sockClose(sk *sock) error {
	code := eOK
	vsim.Call(func() {
		if sk.closed {
			code = eClosed
			return
		}
		sk.closed = true
		W.Sim.Logf("net close sock=%d", sk.id)
		if sk.kind == skConn && W.Net.OnConnClose != nil {
			W.Net.OnConnClose(sk.local, sk.remote)
		}
	})
	return mkErr(code, "close")
}

//go:norace
func sockSetDeadline(sk *sock, t time.Time) error {
	code := eOK
	vsim.Call(func() {
		if sk.closed {
			code = eClosed
			return
		}
		if t.IsZero() {
			sk.rdeadline = 0
			return
		}
		sk.rdeadline = W.Sim.VirtOf(t)
		W.Sim.At(sk.rdeadline, func() {})
	})
	return mkErr(code, "set")
}

func (c *UDPConn) Read(b []byte) (int, error) {
	n, _, err := sockRead(c.s, b)
	return n, err
}
func (c *UDPConn) Write(b []byte) (int, error)        { return sockWrite(c.s, b, "") }
func (c *UDPConn) Close() error                       { return sockClose(c.s) }
func (c *UDPConn) LocalAddr() net.Addr                { return udpAddr(c.local) }
func (c *UDPConn) RemoteAddr() net.Addr               { return udpAddr(c.remote) }
func (c *UDPConn) SetDeadline(t time.Time) error      { return sockSetDeadline(c.s, t) }
func (c *UDPConn) SetReadDeadline(t time.Time) error  { return sockSetDeadline(c.s, t) }
func (c *UDPConn) SetWriteDeadline(t time.Time) error { return nil }

func (c *PacketConn) ReadFrom(b []byte) (int, net.Addr, error) {
	n, src, err := sockRead(c.s, b)
	if err != nil {
		return 0, nil, err
	}
	return n, udpAddr(src), nil
}
func (c *PacketConn) WriteTo(b []byte, a net.Addr) (int, error) { return sockWrite(c.s, b, a.String()) }
func (c *PacketConn) Close() error                              { return sockClose(c.s) }
func (c *PacketConn) LocalAddr() net.Addr                       { return udpAddr(c.local) }
func (c *PacketConn) SetDeadline(t time.Time) error             { return sockSetDeadline(c.s, t) }
func (c *PacketConn) SetReadDeadline(t time.Time) error         { return sockSetDeadline(c.s, t) }
func (c *PacketConn) SetWriteDeadline(t time.Time) error        { return nil }

// ---------------------------------------------------------------- task-side: unix packet sockets

type UnixConn struct {
	s    *sock
	path string
}

type unixAddr string

func (a unixAddr) Network() string { return "unixpacket" }
func (a unixAddr) String() string  { return string(a) }

func (c *UnixConn) Read(b []byte) (int, error) {
	n, _, err := sockRead(c.s, b)
	return n, err
}

// unixStalled runs the check on the simulator goroutine.
//
//go:norace
func unixStalled(path string) bool {
	stalled := false
	vsim.Call(func() {
		w := W
		if until, ok := w.Net.UnixStallUntil[path]; ok && w.Sim.NowNS() < until {
			stalled = true
		}
	})
	return stalled
}

//go:norace
func (c *UnixConn) Write(b []byte) (int, error) {
	data := vsim.CloneBytes(b)
	code := eOK
	sk := c.s
	path := c.path
	// the receiving end is not reading and its queue is full: a unix datagram
	// sender blocks until there is room again
	if unixStalled(path) {
		vsim.Block(func() bool { return !unixStalled(path) })
	}
	vsim.Call(func() {
		w := W
		if sk.closed {
			code = eClosed
			return
		}
		if w.Net.UnixFailNext[path] > 0 {
			// the peer of the unix socket is not reading for a moment (restart): ECONNREFUSED
			w.Net.UnixFailNext[path]--
			w.Net.Stats["unix-write-failed"]++
			w.Sim.Logf("unix tx %s fails", path)
			code = eRefused
			return
		}
		w.Sim.Logf("unix tx %s %d", path, len(data))
		w.Net.UnixSink[path] = append(w.Net.UnixSink[path], UnixWrite{Data: data, At: w.Sim.NowNS(), Seq: w.NextStamp()})
	})
	if code != eOK {
		return 0, mkErr(code, "write")
	}
	return len(b), nil
}
func (c *UnixConn) Close() error                       { return sockClose(c.s) }
func (c *UnixConn) LocalAddr() net.Addr                { return unixAddr("") }
func (c *UnixConn) RemoteAddr() net.Addr               { return unixAddr(c.path) }
func (c *UnixConn) SetDeadline(t time.Time) error      { return sockSetDeadline(c.s, t) }
func (c *UnixConn) SetReadDeadline(t time.Time) error  { return sockSetDeadline(c.s, t) }
func (c *UnixConn) SetWriteDeadline(t time.Time) error { return nil }

// StallUnix makes every write to path block for d from now on (the receiver's
// queue is full and it is not reading); blocked writers go on when it ends.
func (n *Net) StallUnix(w *World, path string, d time.Duration) {
	n.UnixStallUntil[path] = w.Sim.NowNS() + int64(d)
	n.Stats["unix-stalled"]++
	w.Sim.After(d, func() {}) // an environment event at the end of the stall wakes the writers
}

// UnixInject delivers a packet on every live unix socket dialled to path.
func (n *Net) UnixInject(path string, data []byte) int {
	cnt := 0
	for _, sk := range n.socks {
		if sk.kind == skUnix && !sk.closed && !n.w.Sim.IncDead(sk.inc) && sk.remote == path {
			n.enqueue(sk, path, append([]byte{}, data...))
			cnt++
		}
	}
	n.w.Sim.MarkDirty()
	return cnt
}

// UnixQueueLen: datagrams waiting on the live unix sockets dialled to path (a
// unix datagram sender blocks while the receiver's queue is full: the simulated
// sender looks before it injects).
func (n *Net) UnixQueueLen(path string) int {
	l := 0
	for _, sk := range n.socks {
		if sk.kind == skUnix && !sk.closed && !n.w.Sim.IncDead(sk.inc) && sk.remote == path && len(sk.q) > l {
			l = len(sk.q)
		}
	}
	return l
}

// ---------------------------------------------------------------- misc lookups

type Iface struct {
	Name string
	cidr string
}

type ifAddr string

func (a ifAddr) Network() string { return "ip+net" }
func (a ifAddr) String() string  { return string(a) }

func (i *Iface) Addrs() ([]net.Addr, error) { return []net.Addr{ifAddr(i.cidr)}, nil }

//go:norace
func InterfaceByName(name string) (*Iface, error) {
	name = vsim.CloneString(name)
	var cidr string
	vsim.Call(func() { cidr = W.Ifaces[name] })
	if cidr == "" {
		return nil, errors.New("route ip+net: no such network interface")
	}
	return &Iface{Name: name, cidr: vsim.CloneString(cidr)}, nil
}

//go:norace
func LookupHost(host string) ([]string, error) {
	host = vsim.CloneString(host)
	if ip := net.ParseIP(host); ip != nil {
		return []string{host}, nil
	}
	var r []string
	vsim.Call(func() { r = W.Hosts[host] })
	if len(r) == 0 {
		return nil, &net.DNSError{Err: "no such host", Name: host, IsNotFound: true}
	}
	out := make([]string, len(r))
	for i := range r {
		out[i] = vsim.CloneString(r[i])
	}
	return out, nil
}

//go:norace
func FqdnHostname() (string, error) {
	var r string
	vsim.Call(func() { r = W.FQDN })
	return vsim.CloneString(r), nil
}

//go:norace
func OSExit(code int) {
	vsim.FatalExit("os.Exit(" + strconv.Itoa(code) + ")")
}

// stamp: global order of environment-visible effects (used to order e.g. an
// end-marker emission against the datapath acknowledging a FAR).
func (w *World) NextStamp() uint64 {
	w.stamp++
	return w.stamp
}

// ---------------------------------------------------------------- signals

type sigReg struct {
	inc int
	c   chan<- os.Signal
}

// SignalNotify replaces signal.Notify: the channel is remembered so that the
// scenario can deliver SIGTERM to an incarnation.
//
//go:norace
func SignalNotify(c chan<- os.Signal, sig ...os.Signal) {
	inc := vsim.CurInc()
	vsim.Call(func() {
		for _, r := range W.sigs {
			if r.c == c {
				return
			}
		}
		W.sigs = append(W.sigs, sigReg{inc, c})
	})
}

// Signal delivers sig to every registered channel of incarnation inc (the send
// runs on an ephemeral goroutine, as the runtime's signal goroutine would).
func (w *World) Signal(inc int, sig os.Signal) int {
	n := 0
	for _, r := range w.sigs {
		if r.inc == inc {
			c := r.c
			vsim.Ephemeral(func() {
				select {
				case c <- sig:
				default:
				}
			})
			n++
		}
	}
	w.Sim.MarkDirty()
	return n
}
