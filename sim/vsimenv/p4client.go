package vsimenv

import (
	"context"
	"io"

	"github.com/golang/protobuf/proto" //nolint:staticcheck // P4Runtime stubs are APIv1 messages
	"github.com/omec-project/upf-epc/zzverif/vsim"
	p4 "github.com/p4lang/p4runtime/go/p4/v1"
	spb "google.golang.org/genproto/googleapis/rpc/status"
	"google.golang.org/grpc"
	"google.golang.org/grpc/codes"
	"google.golang.org/grpc/metadata"
	"google.golang.org/grpc/status"
)

// Task-side P4Runtime client: requests are marshalled, handed to the simulated
// switch as bytes, and the answers unmarshalled again.

type P4Client struct {
	p4.P4RuntimeClient // nil: methods the agent does not use panic
}

func NewP4Client(conn *grpc.ClientConn) p4.P4RuntimeClient {
	setKind(conn, "p4")
	return &P4Client{}
}

//go:norace
func p4Submit(kind int, data []byte) *rpcCall {
	data = vsim.CloneBytes(data)
	inc := vsim.CurInc()
	var c *rpcCall
	vsim.Call(func() {
		switch kind {
		case 0:
			c = W.P4.submitWrite(data, inc)
		case 1:
			c = W.P4.submitRead(data, inc)
		case 2:
			c = W.P4.submitGetConfig(inc)
		}
	})
	return c
}

func statusFromDetail(det []byte, fallback error) error {
	if det == nil {
		return fallback
	}
	var sp spb.Status
	if err := proto.Unmarshal(cloneLocal(det), &sp); err != nil {
		return fallback
	}
	return status.FromProto(&sp).Err()
}

func (c *P4Client) Write(ctx context.Context, in *p4.WriteRequest, opts ...grpc.CallOption) (*p4.WriteResponse, error) {
	data, err := proto.Marshal(in)
	if err != nil {
		return nil, status.Error(codes.Internal, err.Error())
	}
	call := p4Submit(0, data)
	out, err, det := rpcWait(ctx, call)
	if err != nil {
		return nil, statusFromDetail(det, err)
	}
	var resp p4.WriteResponse
	_ = proto.Unmarshal(cloneLocal(out), &resp)
	return &resp, nil
}

func (c *P4Client) GetForwardingPipelineConfig(ctx context.Context, in *p4.GetForwardingPipelineConfigRequest, opts ...grpc.CallOption) (*p4.GetForwardingPipelineConfigResponse, error) {
	call := p4Submit(2, nil)
	out, err, _ := rpcWait(ctx, call)
	if err != nil {
		return nil, err
	}
	var resp p4.GetForwardingPipelineConfigResponse
	if err := proto.Unmarshal(cloneLocal(out), &resp); err != nil {
		return nil, status.Error(codes.Internal, err.Error())
	}
	return &resp, nil
}

type readClient struct {
	grpc.ClientStream
	resp *p4.ReadResponse
	err  error
	done bool
}

func (r *readClient) Recv() (*p4.ReadResponse, error) {
	if r.err != nil {
		return nil, r.err
	}
	if r.done {
		return nil, io.EOF
	}
	r.done = true
	return r.resp, nil
}
func (r *readClient) Header() (metadata.MD, error) { return nil, nil }
func (r *readClient) Trailer() metadata.MD         { return nil }
func (r *readClient) CloseSend() error             { return nil }
func (r *readClient) Context() context.Context     { return context.Background() }

func (c *P4Client) Read(ctx context.Context, in *p4.ReadRequest, opts ...grpc.CallOption) (p4.P4Runtime_ReadClient, error) {
	data, err := proto.Marshal(in)
	if err != nil {
		return nil, status.Error(codes.Internal, err.Error())
	}
	call := p4Submit(1, data)
	out, err, _ := rpcWait(ctx, call)
	if err != nil {
		return &readClient{err: err}, nil
	}
	var resp p4.ReadResponse
	if err := proto.Unmarshal(cloneLocal(out), &resp); err != nil {
		return nil, status.Error(codes.Internal, err.Error())
	}
	return &readClient{resp: &resp}, nil
}

// ---------------------------------------------------------------- stream

type streamClient struct {
	grpc.ClientStream
	st *p4Stream
}

//go:norace
func p4OpenStream() (*p4Stream, codes.Code) {
	inc := vsim.CurInc()
	var st *p4Stream
	var code codes.Code
	vsim.Call(func() { st, code = W.P4.openStream(inc) })
	return st, code
}

func (c *P4Client) StreamChannel(ctx context.Context, opts ...grpc.CallOption) (p4.P4Runtime_StreamChannelClient, error) {
	st, code := p4OpenStream()
	if code != codes.OK {
		return nil, status.Error(code, "switch unreachable (simulated)")
	}
	return &streamClient{st: st}, nil
}

//go:norace
func p4StreamSend(st *p4Stream, data []byte) codes.Code {
	data = vsim.CloneBytes(data)
	var code codes.Code
	vsim.Call(func() { code = W.P4.streamSend(st, data) })
	return code
}

func (s *streamClient) Send(m *p4.StreamMessageRequest) error {
	data, err := proto.Marshal(m)
	if err != nil {
		return status.Error(codes.Internal, err.Error())
	}
	if code := p4StreamSend(s.st, data); code != codes.OK {
		return status.Error(code, "stream broken (simulated)")
	}
	return nil
}

//go:norace
func p4StreamTryRecv(st *p4Stream) (data []byte, closed bool, ok bool) {
	vsim.Call(func() {
		if len(st.q) > 0 {
			data, ok = st.q[0], true
			st.q = st.q[1:]
			return
		}
		if st.closed {
			closed, ok = true, true
		}
	})
	if data != nil {
		data = vsim.CloneBytes(data)
	}
	return
}

func (s *streamClient) Recv() (*p4.StreamMessageResponse, error) {
	var data []byte
	var closed bool
	vsim.Block(func() bool {
		d, c, ok := p4StreamTryRecv(s.st)
		if ok {
			data, closed = d, c
		}
		return ok
	})
	if closed {
		return nil, status.Error(codes.Unavailable, "stream closed (simulated)")
	}
	var resp p4.StreamMessageResponse
	if err := proto.Unmarshal(data, &resp); err != nil {
		return nil, status.Error(codes.Internal, err.Error())
	}
	return &resp, nil
}

//go:norace
func (s *streamClient) CloseSend() error {
	st := s.st
	vsim.Call(func() { st.closed = true })
	return nil
}
func (s *streamClient) Header() (metadata.MD, error) { return nil, nil }
func (s *streamClient) Trailer() metadata.MD         { return nil }
func (s *streamClient) Context() context.Context     { return context.Background() }
