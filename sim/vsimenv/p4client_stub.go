package vsimenv

import (
	p4 "github.com/p4lang/p4runtime/go/p4/v1"
	"google.golang.org/grpc"
)

type P4Client struct{ p4.P4RuntimeClient }

func NewP4Client(conn *grpc.ClientConn) p4.P4RuntimeClient {
	setKind(conn, "p4")
	return &P4Client{}
}
