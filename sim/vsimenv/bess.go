package vsimenv

import (
	"context"
	"fmt"
	"sort"
	"strings"
	"time"

	pb "github.com/omec-project/upf-epc/pfcpiface/bess_pb"
	"github.com/omec-project/upf-epc/zzverif/vsim"
	"google.golang.org/grpc"
	"google.golang.org/grpc/codes"
	"google.golang.org/grpc/connectivity"
	"google.golang.org/grpc/credentials/insecure"
	"google.golang.org/grpc/status"
	"google.golang.org/protobuf/proto"
	"google.golang.org/protobuf/types/known/anypb"
)

// ---------------------------------------------------------------- gRPC conn tokens

// A real, lazily connecting *grpc.ClientConn per target serves only as a typed
// token; it is never used for I/O and never closed. Process-wide.
// Simulator goroutine only.
var (
	connToken = map[string]*grpc.ClientConn{}
	connKind  = map[*grpc.ClientConn]string{} // "bess" | "p4"
)

//go:norace
func GRPCNewClient(target string, opts ...grpc.DialOption) (*grpc.ClientConn, error) {
	target = vsim.CloneString(target)
	var c *grpc.ClientConn
	var err error
	vsim.Call(func() {
		if x, ok := connToken[target]; ok {
			c = x
			return
		}
		c, err = grpc.NewClient("passthrough:///"+target, grpc.WithTransportCredentials(insecure.NewCredentials()))
		if err == nil {
			connToken[target] = c
		}
	})
	return c, err
}

//go:norace
func setKind(conn *grpc.ClientConn, k string) {
	vsim.Call(func() { connKind[conn] = k })
}

//go:norace
func ConnState(conn *grpc.ClientConn) connectivity.State {
	var st connectivity.State
	vsim.Call(func() {
		switch connKind[conn] {
		case "p4":
			st = W.P4.State
			if st == connectivity.Ready && W.P4.NeedReconnect {
				st = connectivity.Idle
			}
		default:
			st = W.Bess.State
			// grpc-go parks a channel without RPCs in IDLE after its idle timeout
			// (30 min by default); the next RPC or Connect() wakes it transparently
			if b := W.Bess; st == connectivity.Ready && b.IdleTimeout > 0 && W.Sim.NowNS()-b.lastRPC >= int64(b.IdleTimeout) {
				st = connectivity.Idle
				b.Fired["grpc-channel-idle-seen"]++
			}
		}
	})
	return st
}

// ConnClose replaces (*grpc.ClientConn).Close: tearing the transports down takes
// a moment (other goroutines run meanwhile).
func ConnClose(conn *grpc.ClientConn) error {
	if vsim.Cur() != nil {
		vsim.Sleep(300 * time.Microsecond)
	}
	return nil
}

// ConnConnect replaces (*grpc.ClientConn).Connect: leaves IDLE.
//
//go:norace
func ConnConnect(conn *grpc.ClientConn) {
	vsim.Call(func() {
		if connKind[conn] != "p4" {
			W.Bess.lastRPC = W.Sim.NowNS()
		}
	})
}

// ConnWaitForStateChange replaces (*grpc.ClientConn).WaitForStateChange.
func ConnWaitForStateChange(conn *grpc.ClientConn, ctx context.Context, s connectivity.State) bool {
	for ConnState(conn) == s {
		if ctx.Err() != nil {
			return false
		}
		vsim.Sleep(5 * time.Millisecond)
	}
	return true
}

// ---------------------------------------------------------------- simulated RPC plumbing

type rpcCall struct {
	id        int
	inc       int
	done      bool
	resp      []byte
	errCode   codes.Code
	errMsg    string
	detail    []byte // serialized status details (P4 errors)
	cancelled bool   // the client gave the call up (context done) before it completed
}

type RPCFaults struct {
	LatMin  time.Duration
	LatJit  time.Duration
	SlowDen int // 1 in SlowDen calls is delayed by SlowBy (beyond the join timeout)
	SlowBy  time.Duration
	SlowNth int // exactly the n-th call (1-based) is delayed by SlowBy; 0 = off
	FailDen int // 1 in FailDen calls fails with a transport error
	// FailNth fails exactly the n-th call (1-based) of the kinds counted by the service; 0 = off
	FailNth      int
	FailLostResp bool // the failing call is applied, only the response is lost
}

func (f *RPCFaults) lat(s *vsim.Sim) time.Duration {
	d := f.LatMin
	if f.LatJit > 0 {
		d += time.Duration(s.Ch.Choose(int(f.LatJit/time.Microsecond)+1, "rpc-jit")) * time.Microsecond
	}
	return d
}

// rpcWait blocks the calling task until the call completes or ctx is done.
//
//go:norace
func rpcPoll(c *rpcCall) (bool, []byte, codes.Code, string, []byte) {
	var done bool
	var resp, det []byte
	var code codes.Code
	var msg string
	vsim.Call(func() { done, resp, code, msg, det = c.done, c.resp, c.errCode, c.errMsg, c.detail })
	return done, resp, code, msg, det
}

func rpcWait(ctx context.Context, c *rpcCall) ([]byte, error, []byte) {
	var resp, det []byte
	var code codes.Code
	var msg string
	ctxErr := false
	vsim.Block(func() bool {
		d, r, cd, m, dt := rpcPoll(c)
		if d {
			resp, code, msg, det = r, cd, m, dt
			return true
		}
		if ctx != nil && ctx.Err() != nil {
			ctxErr = true
			return true
		}
		return false
	})
	if ctxErr {
		rpcCancelled(c)
		if ctx.Err() == context.DeadlineExceeded {
			return nil, status.Error(codes.DeadlineExceeded, "context deadline exceeded"), nil
		}
		return nil, status.Error(codes.Canceled, "context canceled"), nil
	}
	if code != codes.OK {
		return nil, status.Error(code, msg), det
	}
	return resp, nil, nil
}

//go:norace
func rpcCancelled(c *rpcCall) { vsim.Call(func() { c.cancelled = true }) }

// ---------------------------------------------------------------- BESS model

type WCEntry struct {
	Values   [8]uint64
	Masks    [8]uint64
	Gate     uint64
	Priority int64
	Valuesv  [5]uint64
	Stamp    uint64
}

type EMEntry struct {
	Fields [2]uint64
	Gate   uint64
	Values [6]uint64
	Stamp  uint64
}

type QosEntry struct {
	Fields    []uint64
	Values    []uint64
	Gate      uint64
	Cir, Pir  uint64
	Cbs, Pbs  uint64
	Ebs       uint64
	DeductLen int64 // -1 when absent
	Stamp     uint64
}

type BessCmd struct {
	Module string
	Cmd    string
	Key    string
	OK     bool // applied without error reply
	At     int64
	Stamp  uint64
	Inc    int
}

type SimBESS struct {
	w      *World
	State  connectivity.State
	Faults RPCFaults
	// DropCancelled: a call the client has given up (context cancelled / deadline)
	// before the daemon got to it is not applied (RST_STREAM overtakes the handler);
	// default: the daemon applies what it has received
	DropCancelled bool

	PDR   map[string]*WCEntry             // key: masked values + masks
	FAR   map[string]*EMEntry             // key: fields
	Qos   map[string]map[string]*QosEntry // module -> key(fields) -> entry
	Gtpu  map[uint32]int
	Cmds  []BessCmd
	calls int
	Calls int // total ModuleCommand calls received
	// IdleTimeout: the channel reads IDLE after this long without an RPC (grpc-go default: 30 min)
	IdleTimeout time.Duration
	lastRPC     int64
	Fired       map[string]int
	// OnApply is called after each applied command (oracles hook in here).
	OnApply func(c BessCmd)
}

func newSimBESS(w *World) *SimBESS {
	return &SimBESS{w: w, State: connectivity.Ready, Faults: RPCFaults{LatMin: 100 * time.Microsecond}, IdleTimeout: 30 * time.Minute,
		PDR: map[string]*WCEntry{}, FAR: map[string]*EMEntry{},
		Qos:  map[string]map[string]*QosEntry{"appQERLookup": {}, "sessionQERLookup": {}, "sliceMeter": {}},
		Gtpu: map[uint32]int{}, Fired: map[string]int{}}
}

func fields(fs []*pb.FieldData) []uint64 {
	out := make([]uint64, len(fs))
	for i, f := range fs {
		out[i] = f.GetValueInt()
	}
	return out
}

func keyOf(v []uint64) string {
	var sb strings.Builder
	for i, x := range v {
		if i > 0 {
			sb.WriteByte(',')
		}
		fmt.Fprintf(&sb, "%d", x)
	}
	return sb.String()
}

func bessErr(code int32, msg string) *pb.CommandResponse {
	return &pb.CommandResponse{Error: &pb.Error{Code: code, Errmsg: msg}}
}

// apply executes one ModuleCommand against the model. Runs on the simulator goroutine.
func (b *SimBESS) apply(req *pb.CommandRequest, inc int) *pb.CommandResponse {
	s := b.w.Sim
	cmd := BessCmd{Module: req.Name, Cmd: req.Cmd, At: s.NowNS(), Stamp: b.w.NextStamp(), Inc: inc, OK: true}
	resp := &pb.CommandResponse{}
	fail := func(code int32, msg string) {
		cmd.OK = false
		resp = bessErr(code, msg)
	}
	switch req.Name {
	case "pdrLookup":
		switch req.Cmd {
		case "add":
			var a pb.WildcardMatchCommandAddArg
			if err := req.Arg.UnmarshalTo(&a); err != nil || len(a.Values) != 8 || len(a.Masks) != 8 || len(a.Valuesv) != 5 {
				fail(22, "bad wildcard add argument")
				break
			}
			e := &WCEntry{Gate: a.Gate, Priority: a.Priority, Stamp: cmd.Stamp}
			copy(e.Values[:], fields(a.Values))
			copy(e.Masks[:], fields(a.Masks))
			copy(e.Valuesv[:], fields(a.Valuesv))
			for i := range e.Values {
				e.Values[i] &= e.Masks[i]
			}
			cmd.Key = keyOf(e.Values[:]) + "/" + keyOf(e.Masks[:])
			b.PDR[cmd.Key] = e
		case "delete":
			var a pb.WildcardMatchCommandDeleteArg
			if err := req.Arg.UnmarshalTo(&a); err != nil || len(a.Values) != 8 || len(a.Masks) != 8 {
				fail(22, "bad wildcard delete argument")
				break
			}
			v, m := fields(a.Values), fields(a.Masks)
			for i := range v {
				v[i] &= m[i]
			}
			cmd.Key = keyOf(v) + "/" + keyOf(m)
			if _, ok := b.PDR[cmd.Key]; !ok {
				fail(2, "rule not found")
				break
			}
			delete(b.PDR, cmd.Key)
		case "clear":
			b.PDR = map[string]*WCEntry{}
		default:
			fail(22, "unknown command")
		}
	case "farLookup":
		switch req.Cmd {
		case "add":
			var a pb.ExactMatchCommandAddArg
			if err := req.Arg.UnmarshalTo(&a); err != nil || len(a.Fields) != 2 || len(a.Values) != 6 {
				fail(22, "bad exact add argument")
				break
			}
			e := &EMEntry{Gate: a.Gate, Stamp: cmd.Stamp}
			copy(e.Fields[:], fields(a.Fields))
			copy(e.Values[:], fields(a.Values))
			cmd.Key = keyOf(e.Fields[:])
			b.FAR[cmd.Key] = e
		case "delete":
			var a pb.ExactMatchCommandDeleteArg
			if err := req.Arg.UnmarshalTo(&a); err != nil || len(a.Fields) != 2 {
				fail(22, "bad exact delete argument")
				break
			}
			cmd.Key = keyOf(fields(a.Fields))
			if _, ok := b.FAR[cmd.Key]; !ok {
				fail(2, "rule not found")
				break
			}
			delete(b.FAR, cmd.Key)
		case "clear":
			b.FAR = map[string]*EMEntry{}
		default:
			fail(22, "unknown command")
		}
	case "appQERLookup", "sessionQERLookup", "sliceMeter":
		tab := b.Qos[req.Name]
		switch req.Cmd {
		case "add":
			var a pb.QosCommandAddArg
			if err := req.Arg.UnmarshalTo(&a); err != nil {
				fail(22, "bad qos add argument")
				break
			}
			e := &QosEntry{Fields: fields(a.Fields), Values: fields(a.Values), Gate: a.Gate, Cir: a.Cir, Pir: a.Pir,
				Cbs: a.Cbs, Pbs: a.Pbs, Ebs: a.Ebs, DeductLen: -1, Stamp: cmd.Stamp}
			if d, ok := a.OptionalDeductLen.(*pb.QosCommandAddArg_DeductLen); ok {
				e.DeductLen = d.DeductLen
			}
			cmd.Key = keyOf(e.Fields)
			tab[cmd.Key] = e
		case "delete":
			var a pb.QosCommandDeleteArg
			if err := req.Arg.UnmarshalTo(&a); err != nil {
				fail(22, "bad qos delete argument")
				break
			}
			cmd.Key = keyOf(fields(a.Fields))
			if _, ok := tab[cmd.Key]; !ok {
				fail(2, "rule not found")
				break
			}
			delete(tab, cmd.Key)
		case "clear":
			b.Qos[req.Name] = map[string]*QosEntry{}
		default:
			fail(22, "unknown command")
		}
	case "gtpuPathMonitoring":
		switch req.Cmd {
		case "add", "delete":
			var a pb.GtpuPathMonitoringCommandAddDeleteArg
			if err := req.Arg.UnmarshalTo(&a); err != nil {
				fail(22, "bad argument")
				break
			}
			cmd.Key = fmt.Sprint(a.GnbIp)
			if req.Cmd == "add" {
				b.Gtpu[a.GnbIp]++
			} else {
				delete(b.Gtpu, a.GnbIp)
			}
		case "clear":
			b.Gtpu = map[uint32]int{}
		}
	default:
		// measurement modules etc.: accepted, no state
		if d := emptyDataFor(req); d != nil {
			resp.Data = d
		}
	}
	b.Cmds = append(b.Cmds, cmd)
	s.Logf("bess %s %s %s ok=%v", cmd.Module, cmd.Cmd, cmd.Key, cmd.OK)
	if b.OnApply != nil {
		b.OnApply(cmd)
	}
	return resp
}

func emptyDataFor(req *pb.CommandRequest) *anypb.Any {
	var m proto.Message
	switch req.Cmd {
	case "flip":
		m = &pb.FlowMeasureFlipResponse{}
	case "read":
		if strings.Contains(req.Name, "gtpu") {
			m = &pb.GtpuPathMonitoringCommandReadResponse{}
		} else {
			m = &pb.FlowMeasureReadResponse{}
		}
	case "get_summary":
		m = &pb.MeasureCommandGetSummaryResponse{}
	default:
		return nil
	}
	a, _ := anypb.New(m)
	return a
}

// submit is called on the simulator goroutine when a task issues ModuleCommand.
func (b *SimBESS) submit(reqBytes []byte, inc int) *rpcCall {
	s := b.w.Sim
	b.calls++
	b.lastRPC = b.w.Sim.NowNS()
	b.Calls++
	c := &rpcCall{id: b.calls, inc: inc}
	finish := func(d time.Duration, f func()) {
		s.After(d, func() {
			f()
			c.done = true
		})
	}
	if b.State != connectivity.Ready {
		b.Fired["bess-unavailable"]++
		finish(b.Faults.LatMin, func() { c.errCode, c.errMsg = codes.Unavailable, "connection refused (simulated)" })
		return c
	}
	f := &b.Faults
	failThis := (f.FailNth != 0 && b.calls == f.FailNth) || (f.FailDen > 0 && s.Ch.Bool(1, f.FailDen, "bess-fail"))
	d1 := f.lat(s)
	if f.SlowNth != 0 && b.calls == f.SlowNth {
		d1 += f.SlowBy
		b.Fired["bess-slow"]++
	} else if f.SlowDen > 0 && s.Ch.Bool(1, f.SlowDen, "bess-slow") {
		d1 += f.SlowBy
		b.Fired["bess-slow"]++
	}
	if failThis && !f.FailLostResp {
		b.Fired["bess-fail"]++
		finish(d1, func() { c.errCode, c.errMsg = codes.Unavailable, "transport failure (simulated)" })
		return c
	}
	s.After(d1, func() {
		var req pb.CommandRequest
		var out []byte
		if c.cancelled && b.DropCancelled {
			b.Fired["bess-cancelled-call-dropped"]++
			c.errCode, c.errMsg = codes.Canceled, "cancelled before the daemon got to it"
			c.done = true
			return
		}
		if err := proto.Unmarshal(reqBytes, &req); err != nil {
			c.errCode, c.errMsg = codes.Internal, "unmarshal"
		} else {
			out, _ = proto.Marshal(b.apply(&req, inc))
		}
		d2 := f.lat(s)
		if failThis {
			b.Fired["bess-lost-response"]++
			finish(d2, func() { c.errCode, c.errMsg = codes.Unavailable, "response lost (simulated)" })
			return
		}
		finish(d2, func() { c.resp = out })
	})
	return c
}

// ---------------------------------------------------------------- task-side client

type BessClient struct {
	pb.BESSControlClient // nil: any method the agent does not use panics
}

func NewBESSClient(conn *grpc.ClientConn) pb.BESSControlClient {
	setKind(conn, "bess")
	return &BessClient{}
}

//go:norace
func bessSubmit(data []byte) *rpcCall {
	data = vsim.CloneBytes(data)
	inc := vsim.CurInc()
	var c *rpcCall
	vsim.Call(func() { c = W.Bess.submit(data, inc) })
	return c
}

func (c *BessClient) ModuleCommand(ctx context.Context, in *pb.CommandRequest, opts ...grpc.CallOption) (*pb.CommandResponse, error) {
	if err := ctx.Err(); err != nil {
		return nil, status.FromContextError(err).Err()
	}
	data, err := proto.Marshal(in)
	if err != nil {
		return nil, status.Error(codes.Internal, err.Error())
	}
	call := bessSubmit(data)
	out, err, _ := rpcWait(ctx, call)
	if err != nil {
		return nil, err
	}
	var resp pb.CommandResponse
	if err := proto.Unmarshal(cloneLocal(out), &resp); err != nil {
		return nil, status.Error(codes.Internal, err.Error())
	}
	return &resp, nil
}

func (c *BessClient) GetPortStats(ctx context.Context, in *pb.GetPortStatsRequest, opts ...grpc.CallOption) (*pb.GetPortStatsResponse, error) {
	return &pb.GetPortStatsResponse{Inc: &pb.GetPortStatsResponse_Stat{}, Out: &pb.GetPortStatsResponse_Stat{}}, nil
}

// cloneLocal copies simulator-owned bytes into task-owned memory (unrecorded read).
//
//go:norace
func cloneLocal(b []byte) []byte { return vsim.CloneBytes(b) }

// ---------------------------------------------------------------- inspection helpers (simulator side)

func (b *SimBESS) SortedPDRKeys() []string {
	k := make([]string, 0, len(b.PDR))
	for x := range b.PDR {
		k = append(k, x)
	}
	sort.Strings(k)
	return k
}

func (b *SimBESS) SortedFARKeys() []string {
	k := make([]string, 0, len(b.FAR))
	for x := range b.FAR {
		k = append(k, x)
	}
	sort.Strings(k)
	return k
}

func (b *SimBESS) SortedQosKeys(mod string) []string {
	k := make([]string, 0, len(b.Qos[mod]))
	for x := range b.Qos[mod] {
		k = append(k, x)
	}
	sort.Strings(k)
	return k
}

// Classify returns the winning wildcard entry for a packet (8 field values):
// highest priority among matching entries; nil when none matches. ambiguous is
// set when two matching entries tie on the highest priority.
func (b *SimBESS) Classify(pkt [8]uint64) (win *WCEntry, ambiguous bool) {
	for _, k := range b.SortedPDRKeys() {
		e := b.PDR[k]
		ok := true
		for i := range pkt {
			if pkt[i]&e.Masks[i] != e.Values[i] {
				ok = false
				break
			}
		}
		if !ok {
			continue
		}
		if win == nil || e.Priority > win.Priority {
			win, ambiguous = e, false
		} else if e.Priority == win.Priority {
			ambiguous = true
		}
	}
	return
}
