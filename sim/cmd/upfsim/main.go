package main

import (
	"os"

	"github.com/omec-project/upf-epc/zzverif/harness"
)

func main() { os.Exit(harness.Main(os.Args[1:])) }
