module github.com/omec-project/upf-epc/zzverif

go 1.24.0
