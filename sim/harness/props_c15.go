package harness

import (
	"fmt"
	"time"

	"google.golang.org/grpc/codes"

	"github.com/omec-project/upf-epc/zzverif/vsim"
	"github.com/omec-project/upf-epc/zzverif/vsimenv"
)

const c15Variants = 48

func init() {
	Register(&PropDef{
		ID: "C15", QuickRuns: 200 * c15Variants, Level: "fault_enumeration", Variants: c15Variants,
		Rule:   fmt.Sprintf("scenario family on the P4Runtime datapath with small counter / meter arrays (8-16 cells): attach; attach + FAR update; attach + delete; two sessions sharing a gNB peer and an application filter; attach-fail-attach; two sessions behind one gNB, FAR update of the first, deletion of the second. For every scenario (one choice stream) the run is repeated with variant k = 0..%d: k=0 fault-free, k>0 fails exactly the k-th Write RPC after start-up (the failure kind is part of the scenario: transport error; response lost after the write was applied; per-update P4 error with code INTERNAL / UNAVAILABLE / NOT_FOUND / RESOURCE_EXHAUSTED / PERMISSION_DENIED / ABORTED - ALREADY_EXISTS is left out because the plug-in passes it over on purpose; UNKNOWN without details, what gRPC makes of a server exception); the FAR update goes to another gNB or repeats the same gNB; a share of the scenarios adds a random second fault. In half of the scenarios only 3-5 tunnel-peer / application ids are left in the pools (white-box bridge, before the first session). Each run then attaches further sessions towards up to nine gNBs so that a wrongly recycled id is handed out again. Oracle at the switch after every request: no counter cell, application-meter cell, session-meter cell, tunnel-peer id or application id is referenced by entries of two different owners; no id that an entry of a live session refers to sits in the plug-in's free pool (white-box bridge); no tunnel_peers INSERT arrives for an id that is installed for another gNB and referenced by a live session; the PFCP cause of an establishment / modification whose write failed is a rejection. Non-trivial = the fault fired inside a session request; distinct = different (scenario skeleton, k).", c15Variants-1),
		Assume: []string{"owner of a terminations / sessions entry = the UE address (downlink) or the TEID (uplink) it is installed under", "exhaustive in the position k of one failing write up to the number of writes a scenario performs (<= 47)"},
		Real:   CommonReal, Simulated: append(append([]string{}, CommonSim...), "P4Runtime switch with write-failure injection"),
		Scenario: scenarioC15,
	})
}

// checkP4IDs: no id of the five spaces is referenced by two different owners.
func checkP4IDs(r *Run, prop, ctx string) {
	fc := ":" + r.FaultCtx()
	sw := r.W.P4
	v := p4view{sw}
	// an INSERT under a tunnel_peers key (= the id) that is installed with another
	// gNB address: the agent handed the id out while its entry is still in use
	for _, c := range sw.KeyConflicts {
		if c.Table != tPeers {
			continue
		}
		id, _ := v.match(tPeers, c.Old, "tunnel_peer_id")
		oldDst, _ := v.param(c.Old, "dst_addr")
		newDst, _ := v.param(c.New, "dst_addr")
		users := 0
		for _, e := range sw.SortedEntries(tSessDL) {
			if tp, ok := v.param(e, "tunnel_peer_id"); ok && tp == id {
				users++
			}
		}
		if users == 0 {
			// an orphan entry whose DELETE failed earlier: no live session uses the
			// id, so handing it out again is not what this property forbids
			r.Probe("tunnel-peer-id-reused-over-orphan-entry")
			continue
		}
		r.Violate(prop, "tunnel-peer-id-handed-out-while-installed"+fc, "%s: the agent tried to INSERT tunnel peer id %d for gNB %v while that id is installed for gNB %v and referenced by %d sessions_downlink entr(ies)", ctx, id, u32IP(uint32(newDst)), u32IP(uint32(oldDst)), users)
	}
	// ids that entries of live sessions refer to must not sit in the plug-in's
	// free pools (a wrongly recycled id: the next allocation hands it out)
	if r.AgentAlive() && r.Agent != nil {
		var free map[string][]uint64
		a := r.Agent
		vsim.Ephemeral(func() { free = a.VerifUP4FreeIDs() })
		inFree := func(space string, id uint64) bool {
			for _, x := range free[space] {
				if x == id {
					return true
				}
			}
			return false
		}
		liveUE := map[uint64]uint64{}
		liveTEID := map[uint64]uint64{}
		for _, s := range r.LiveSessions() {
			// (also sessions whose modification was hit by a fault: the ids are
			// read from the switch, not from the model)
			for _, p := range s.PDRs {
				if p.SrcIface == IfCore {
					liveUE[uint64(p.EffUEIP())] = s.CPSEID
				} else {
					liveTEID[uint64(p.EffTEID())] = s.CPSEID
				}
			}
		}
		recycled := func(space string, id uint64, owner string, cp uint64) {
			if id != 0 && inFree(space, id) {
				r.Violate(prop, space+"-recycled-while-in-use"+fc, "%s: %s id %d is referenced by %s of live session cp=%d and is in the plug-in's free pool at the same time", ctx, space, id, owner, cp)
			}
		}
		for _, e := range sw.SortedEntries(tSessDL) {
			ue, _ := v.match(tSessDL, e, "ue_address")
			cp, ok := liveUE[ue]
			if !ok {
				continue
			}
			if tp, ok := v.param(e, "tunnel_peer_id"); ok && v.action(e) == aSessDL {
				recycled("tunnel-peer", tp, "the sessions_downlink entry", cp)
			}
			if m, ok := v.param(e, "session_meter_idx"); ok {
				recycled("session-meter-cell", m, "the sessions_downlink entry", cp)
			}
		}
		for _, e := range sw.SortedEntries(tSessUL) {
			teid, _ := v.match(tSessUL, e, "teid")
			if cp, ok := liveTEID[teid]; ok {
				if m, ok := v.param(e, "session_meter_idx"); ok {
					recycled("session-meter-cell", m, "the sessions_uplink entry", cp)
				}
			}
		}
		for _, tab := range []string{tTermUL, tTermDL} {
			for _, e := range sw.SortedEntries(tab) {
				ue, _ := v.match(tab, e, "ue_address")
				cp, ok := liveUE[ue]
				if !ok {
					continue
				}
				if app, ok := v.match(tab, e, "app_id"); ok {
					recycled("application", app, "a terminations entry", cp)
				}
				if c, ok := v.param(e, "ctr_idx"); ok {
					if inFree("counter-cell", c) {
						r.Violate(prop, "counter-cell-recycled-while-in-use"+fc, "%s: counter cell %d is referenced by a terminations entry of live session cp=%d and is in the plug-in's free pool at the same time", ctx, c, cp)
					}
				}
				if m, ok := v.param(e, "app_meter_idx"); ok {
					recycled("app-meter-cell", m, "a terminations entry", cp)
				}
			}
		}
	}
	// counters: one cell per terminations entry
	ctr := map[uint64]string{}
	appCell := map[uint64]uint64{} // cell -> ue
	for _, tab := range []string{tTermUL, tTermDL} {
		for _, e := range sw.SortedEntries(tab) {
			ue, _ := v.match(tab, e, "ue_address")
			app, _ := v.match(tab, e, "app_id")
			owner := fmt.Sprintf("%s ue=%v app=%d", tab[len("PreQosPipe."):], u32IP(uint32(ue)), app)
			if c, ok := v.param(e, "ctr_idx"); ok {
				if prev, dup := ctr[c]; dup && prev != owner {
					r.Violate(prop, "counter-cell-two-owners"+fc, "%s: counter cell %d is referenced by %s and by %s", ctx, c, prev, owner)
				}
				ctr[c] = owner
			}
			if m, ok := v.param(e, "app_meter_idx"); ok && m != 0 {
				if prev, dup := appCell[m]; dup && prev != ue {
					r.Violate(prop, "app-meter-cell-two-owners"+fc, "%s: application meter cell %d is referenced by entries of UE %v and of UE %v", ctx, m, u32IP(uint32(prev)), u32IP(uint32(ue)))
				}
				appCell[m] = ue
			}
		}
	}
	// session meter cells: per direction a cell belongs to one session
	sessCell := map[uint64]string{}
	for _, e := range sw.SortedEntries(tSessDL) {
		ue, _ := v.match(tSessDL, e, "ue_address")
		if m, ok := v.param(e, "session_meter_idx"); ok && m != 0 {
			owner := fmt.Sprintf("downlink ue=%v", u32IP(uint32(ue)))
			if prev, dup := sessCell[m]; dup && prev != owner {
				r.Violate(prop, "session-meter-cell-two-owners"+fc, "%s: session meter cell %d is referenced by %s and by %s", ctx, m, prev, owner)
			}
			sessCell[m] = owner
		}
	}
	for _, e := range sw.SortedEntries(tSessUL) {
		teid, _ := v.match(tSessUL, e, "teid")
		if m, ok := v.param(e, "session_meter_idx"); ok && m != 0 {
			owner := fmt.Sprintf("uplink teid=%d", teid)
			if prev, dup := sessCell[m]; dup && prev != owner {
				r.Violate(prop, "session-meter-cell-two-owners"+fc, "%s: session meter cell %d is referenced by %s and by %s", ctx, m, prev, owner)
			}
			sessCell[m] = owner
		}
	}
	// tunnel peers: one id per address, ids referenced by sessions exist
	peerByID := map[uint64]uint64{}
	for _, e := range sw.SortedEntries(tPeers) {
		id, _ := v.match(tPeers, e, "tunnel_peer_id")
		dst, _ := v.param(e, "dst_addr")
		peerByID[id] = dst
	}
	// a live downlink session must point to the peer that carries its FAR's address
	for _, s := range r.LiveSessions() {
		far := s.FAR(2)
		if far == nil || !far.HasOHC || r.faultedMod[s.UPSEID] {
			// a modification hit by a write failure may or may not have moved the
			// session to the new peer at the switch: the control plane's copy of
			// the FAR is no reference for it any more
			continue
		}
		for _, p := range s.PDRs {
			if p.SrcIface != IfCore {
				continue
			}
			for _, e := range sw.SortedEntries(tSessDL) {
				ue, _ := v.match(tSessDL, e, "ue_address")
				if ue != uint64(p.EffUEIP()) || v.action(e) != aSessDL {
					continue
				}
				tp, _ := v.param(e, "tunnel_peer_id")
				if a, ok := peerByID[tp]; ok && a != uint64(ipU32(far.PeerIP)) {
					r.Violate(prop, "tunnel-peer-id-recycled-while-live"+fc, "%s: session up=%d uses tunnel peer id %d for %v, but that id now belongs to %v", ctx, s.UPSEID, tp, far.PeerIP, u32IP(uint32(a)))
				}
			}
		}
	}
	// application ids: one id per filter
	appByID := map[uint64]string{}
	for _, e := range sw.SortedEntries(tApps) {
		id, _ := v.param(e, "app_id")
		k := fmt.Sprint(e.Match)
		if prev, dup := appByID[id]; dup && prev != k {
			r.Violate(prop, "application-id-two-filters"+fc, "%s: application id %d is carried by two different filters", ctx, id)
		}
		appByID[id] = k
	}
}

func scenarioC15(r *Run) {
	r.FirstOnly = true
	r.DrawUP4Conf()
	r.DrawStrategy()
	sw := r.W.P4
	small := int64(8 + 4*r.Ch.Choose(3, "arrays"))
	for _, n := range []string{mApp, mSess, cPre, cPost} {
		sw.Resize(n, small)
	}
	sw.FailKind = []string{"transport", "update", "lost", "update", "bare-unknown"}[r.Ch.Choose(5, "failkind")]
	codeName := ""
	if sw.FailKind == "update" {
		// ALREADY_EXISTS is left out: the plug-in passes it over on purpose (entries shared between PDRs)
		k := r.Ch.Choose(6, "failcode")
		sw.FailCode = []codes.Code{codes.Internal, codes.Unavailable, codes.NotFound, codes.ResourceExhausted, codes.PermissionDenied, codes.Aborted}[k]
		codeName = ":" + sw.FailCode.String()
	}
	family := r.Ch.Choose(8, "family")
	second := r.Ch.Choose(5, "second-fault") == 1
	p := r.AddPeer()
	r.StartAgent()
	if !r.WaitUP4Ready() {
		r.CheckNoPanics("C15")
		return
	}
	if p.AssociateRetry() == nil {
		return
	}
	keep := 0
	if r.Ch.Choose(2, "few-ids-left") == 1 {
		// most tunnel-peer / application ids are in use already: a wrongly
		// released id comes round again within the further sessions below
		keep = 3 + r.Ch.Choose(3, "ids-left")
		a := r.Agent
		vsim.Ephemeral(func() { a.VerifUP4ShrinkIDPools(keep) })
	}
	base := sw.Writes
	if r.Variant > 0 {
		sw.Faults.FailNth = base + r.Variant
	}
	r.Skel(fmt.Sprintf("family=%d kind=%s k=%d second=%v arrays=%d", family, sw.FailKind, r.Variant, second, small))
	g := NewGen(r)
	g.PlainQER = true
	g.UP4 = true
	for k := range g.Avoid {
		g.Avoid[k] = true
	}
	for i := 13; i <= 18; i++ {
		g.gnbs = append(g.gnbs, ip4(fmt.Sprintf("198.18.1.%d", i))) // enough distinct gNBs to turn the id queue round
	}
	firedBefore := func() int {
		return sw.Fired["p4-write-fail-transport"] + sw.Fired["p4-write-fail-update"] + sw.Fired["p4-write-response-lost"] + sw.Fired["p4-write-fail-bare-unknown"]
	}
	// application filters: none (application id 0), one of its own, or one shared
	// with the other sessions of the run (one application id, several users)
	var sharedFlow *FlowSpec
	est := func(shared bool) *CPSession {
		sh := SessShape{NQER: 1 + r.Ch.Choose(2, "nq"), TEIDChoose: true}
		switch r.Ch.Choose(3, "appfilter") {
		case 1:
			sh.BaseSDF = g.Flow(false)
			r.Probe("session-with-application-filter-of-its-own")
		case 2:
			if sharedFlow == nil {
				sharedFlow = g.Flow(false)
			}
			sh.BaseSDF = sharedFlow
			r.Probe("session-with-shared-application-filter")
		}
		s := g.Session(p, sh)
		if shared {
			for _, f := range s.FARs {
				if f.HasOHC {
					f.PeerIP = g.gnbs[0]
				}
			}
		}
		f0 := firedBefore()
		res := p.Establish(s)
		hit := firedBefore() > f0
		r.Op("establish cp=%d -> accepted=%v cause=%d (write failure injected during it: %v)", s.CPSEID, res.Accepted, res.Cause, hit)
		if hit {
			r.SetFaultCtx("write-failed-in-establishment:" + sw.FailKind)
			r.Fault("p4-write-failed-in-establishment")
			if res.Accepted && sw.FailKind != "lost" {
				r.Violate("C15", "establishment-accepted-although-write-failed:"+sw.FailKind+codeName, "a Write RPC of the establishment of cp=%d failed (%s%s) but the request was answered with acceptance", s.CPSEID, sw.FailKind, codeName)
			}
			if res.Accepted && sw.FailKind == "lost" {
				r.Violate("C15", "establishment-accepted-although-write-failed:lost", "a Write RPC of the establishment of cp=%d returned an error (response lost) but the request was answered with acceptance", s.CPSEID)
			}
		}
		if res.Accepted {
			r.Accepted++
			checkP4IDs(r, "C15", fmt.Sprintf("after establishment of cp=%d", s.CPSEID))
			return s
		}
		checkP4IDs(r, "C15", fmt.Sprintf("after rejected establishment of cp=%d", s.CPSEID))
		return nil
	}
	mod := func(s *CPSession) {
		g.nextTEID++
		to := g.gnbs[1+r.Ch.Choose(2, "gnb")]
		if old := s.FAR(2); old != nil && old.HasOHC && r.Ch.Choose(2, "same-gnb") == 1 {
			to = old.PeerIP // the FAR is sent again with a new TEID towards the same gNB
		}
		m := &ModSpec{Tag: "uF:tunnel", UpdateFAR: []*FARSpec{{ID: 2, Action: ActFORW, DstIface: IfAccess, HasFwd: true, HasOHC: true, TEID: g.nextTEID, PeerIP: to}}}
		f0 := firedBefore()
		res := p.Modify(s, m)
		hit := firedBefore() > f0
		r.Op("modify cp=%d -> accepted=%v (write failure injected during it: %v)", s.CPSEID, res.Accepted, hit)
		if hit {
			if r.faultedMod == nil {
				r.faultedMod = map[uint64]bool{}
			}
			r.faultedMod[s.UPSEID] = true
			r.SetFaultCtx("write-failed-in-modification:" + sw.FailKind)
			r.Fault("p4-write-failed-in-modification")
			if res.Accepted {
				r.Violate("C15", "modification-accepted-although-write-failed:"+sw.FailKind+codeName, "a Write RPC of the modification of cp=%d failed (%s%s) but the request was answered with acceptance", s.CPSEID, sw.FailKind, codeName)
			}
		}
		checkP4IDs(r, "C15", fmt.Sprintf("after modification of cp=%d", s.CPSEID))
	}
	del := func(s *CPSession) {
		f0 := firedBefore()
		res := p.Delete(s)
		if firedBefore() > f0 {
			r.SetFaultCtx("write-failed-in-deletion:" + sw.FailKind)
			r.Fault("p4-write-failed-in-deletion")
		}
		if !res.Accepted {
			// the agent has refused to let the session go: it is still live there,
			// with whatever entries the failed deletion left at the switch, and the
			// ids those entries carry are still in use. (The control plane's copy of
			// its FARs is no reference for the peer identity check any more.)
			if r.faultedMod == nil {
				r.faultedMod = map[uint64]bool{}
			}
			r.faultedMod[s.UPSEID] = true
			r.Probe("session-kept-live-after-refused-deletion")
		}
		r.Op("delete cp=%d -> accepted=%v", s.CPSEID, res.Accepted)
		checkP4IDs(r, "C15", fmt.Sprintf("after deletion of cp=%d", s.CPSEID))
	}
	switch family {
	case 0:
		est(false)
	case 1:
		if s := est(false); s != nil && len(r.Violations) == 0 {
			mod(s)
		}
	case 2:
		if s := est(false); s != nil && len(r.Violations) == 0 {
			del(s)
		}
	case 3:
		a := est(true)
		b := est(true)
		if a != nil && len(r.Violations) == 0 {
			del(a)
		}
		_ = b
	case 4:
		est(false)
		est(false)
	case 5:
		// two sessions behind one gNB; a FAR update of the first (some write of it
		// may fail), then the second goes away: the first must keep its tunnel peer
		a := est(true)
		b := est(true)
		if a != nil && len(r.Violations) == 0 {
			mod(a)
		}
		if b != nil && len(r.Violations) == 0 {
			del(b)
		}
	case 7:
		// two sessions; an Update PDR (another precedence) of the second, which then
		// goes away: the counter cells it gives back must be its own
		a := est(false)
		b := est(false)
		_ = a
		if b != nil && len(r.Violations) == 0 && len(b.PDRs) > 0 {
			up := b.PDRs[r.Ch.Choose(len(b.PDRs), "upd-pdr")].clone()
			if up.TEIDChoose {
				up.TEIDChoose, up.TEID, up.TEIDAddr = false, up.GotTEID, ip4(N3Addr)
			}
			up.Precedence = uint32(10 + r.Ch.Choose(200, "upd-prec"))
			f0 := firedBefore()
			res := p.Modify(b, &ModSpec{Tag: "uP:prec", UpdatePDR: []*PDRSpec{up}})
			if firedBefore() > f0 {
				if r.faultedMod == nil {
					r.faultedMod = map[uint64]bool{}
				}
				r.faultedMod[b.UPSEID] = true
				r.SetFaultCtx("write-failed-in-modification:" + sw.FailKind)
				r.Fault("p4-write-failed-in-modification")
			}
			r.Op("modify cp=%d: Update PDR %d (precedence %d) -> accepted=%v", b.CPSEID, up.ID, up.Precedence, res.Accepted)
			checkP4IDs(r, "C15", fmt.Sprintf("after an Update PDR of cp=%d", b.CPSEID))
			if len(r.Violations) == 0 {
				del(b)
			}
		}
	case 6:
		// The terminations tables of the switch are full (no injected fault: the
		// switch says RESOURCE_EXHAUSTED by itself). The establishment is refused
		// after its sessions entry was written; the control plane sends the same
		// session again while the tables are still full: that Write is answered
		// [ALREADY_EXISTS, RESOURCE_EXHAUSTED] and must be refused as well; once
		// there is room again a third attempt goes through.
		est(false)
		oldUL, oldDL := sw.ResizeTable(tTermUL, -1), sw.ResizeTable(tTermDL, -1)
		sw.ResizeTable(tTermUL, oldUL)
		sw.ResizeTable(tTermDL, oldDL)
		which := r.Ch.Choose(3, "which-table-full")
		if which != 1 {
			sw.ResizeTable(tTermUL, int64(len(sw.Table(tTermUL))))
		}
		if which != 0 {
			sw.ResizeTable(tTermDL, int64(len(sw.Table(tTermDL))))
		}
		s1 := g.Session(p, SessShape{NQER: 1 + r.Ch.Choose(2, "nq")})
		again := func(tag string) bool {
			s := g.Session(p, SessShape{NQER: len(s1.QERs)})
			for i, pd := range s.PDRs {
				if i < len(s1.PDRs) {
					pd.UEIP, pd.TEID, pd.TEIDAddr = s1.PDRs[i].UEIP, s1.PDRs[i].TEID, s1.PDRs[i].TEIDAddr
				}
			}
			for i, f := range s.FARs {
				if i < len(s1.FARs) {
					*f = *s1.FARs[i]
				}
			}
			full0 := sw.Fired["p4-table-full"]
			res := p.Establish(s)
			hit := sw.Fired["p4-table-full"] > full0
			r.Op("establish cp=%d (%s) -> accepted=%v cause=%d (the switch answered RESOURCE_EXHAUSTED during it: %v)", s.CPSEID, tag, res.Accepted, res.Cause, hit)
			if hit {
				r.SetFaultCtx("table-full:" + tag)
				r.Fault("p4-table-full-in-establishment")
				if res.Accepted {
					r.Violate("C15", "establishment-accepted-although-write-failed:table-full:"+tag, "the switch refused an INSERT of the establishment of cp=%d with RESOURCE_EXHAUSTED (terminations table full, %s) but the request was answered with acceptance", s.CPSEID, tag)
				}
			}
			if res.Accepted {
				r.Accepted++
			} else {
				delete(p.Sessions, s.CPSEID)
			}
			checkP4IDs(r, "C15", fmt.Sprintf("after the %s establishment of cp=%d with full terminations tables", tag, s.CPSEID))
			return res.Accepted
		}
		again("first-attempt")
		for i := 0; i < 2 && len(r.Violations) == 0 && r.AgentAlive(); i++ {
			again("sent-again")
		}
		sw.ResizeTable(tTermUL, oldUL)
		sw.ResizeTable(tTermDL, oldDL)
		if len(r.Violations) == 0 && r.AgentAlive() {
			again("room-again")
		}
		r.Skel("table-full")
	}
	if second && len(r.Violations) == 0 {
		sw.Faults.FailNth = 0
		sw.Faults.FailDen = 6
	}
	// further sessions: any wrongly recycled id is handed out again
	more := 2 + r.Ch.Choose(int(small), "more")
	if keep > 0 && more < keep+2 {
		more = keep + 2
	}
	for i := 0; i < more && len(r.Violations) == 0 && r.AgentAlive(); i++ {
		s := est(r.Ch.Choose(2, "shared") == 1)
		if s != nil && r.Ch.Choose(3, "churn") == 1 {
			del(s)
		}
		r.Sim.RunFor(time.Millisecond)
	}
	sw.Faults.FailDen = 0
	r.CheckNoPanics("C15")
	_ = vsimenv.BodyOK
}
