package harness

import (
	"encoding/binary"
)

// Minimal PFCP wire codec for the hostile generators (independent of go-pfcp's
// decoder): header + TLV tree.

type TLV struct {
	Type  uint16
	Val   []byte // leaf payload (nil for grouped)
	Kids  []*TLV // grouped IE children
	Group bool
}

var groupedTypes = map[uint16]bool{
	1: true, 2: true, 3: true, 4: true, 5: true, 6: true, 7: true, 8: true, 9: true, 10: true, 11: true, 13: true, 14: true,
	15: true, 16: true, 17: true, 18: true, 58: true, 59: true, 83: true, 85: true, 86: true, 87: true, 99: true, 105: true,
}

type PFCPMsg struct {
	Flags   uint8
	Type    uint8
	HasSEID bool
	SEID    uint64
	Seq     uint32
	IEs     []*TLV
}

func parseTLVs(b []byte, depth int) ([]*TLV, bool) {
	var out []*TLV
	for len(b) > 0 {
		if len(b) < 4 {
			return out, false
		}
		t := binary.BigEndian.Uint16(b[0:2])
		l := int(binary.BigEndian.Uint16(b[2:4]))
		if len(b) < 4+l {
			return out, false
		}
		v := b[4 : 4+l]
		x := &TLV{Type: t}
		if groupedTypes[t] && depth < 4 {
			if kids, ok := parseTLVs(v, depth+1); ok {
				x.Group, x.Kids = true, kids
			} else {
				x.Val = append([]byte{}, v...)
			}
		} else {
			x.Val = append([]byte{}, v...)
		}
		out = append(out, x)
		b = b[4+l:]
	}
	return out, true
}

func ParsePFCP(b []byte) (*PFCPMsg, bool) {
	if len(b) < 8 {
		return nil, false
	}
	m := &PFCPMsg{Flags: b[0], Type: b[1]}
	off := 4
	if b[0]&0x01 != 0 {
		if len(b) < 16 {
			return nil, false
		}
		m.HasSEID = true
		m.SEID = binary.BigEndian.Uint64(b[4:12])
		off = 12
	}
	m.Seq = uint32(b[off])<<16 | uint32(b[off+1])<<8 | uint32(b[off+2])
	off += 4
	ies, ok := parseTLVs(b[off:], 0)
	m.IEs = ies
	return m, ok
}

func (t *TLV) encode() []byte {
	var v []byte
	if t.Group {
		for _, k := range t.Kids {
			v = append(v, k.encode()...)
		}
	} else {
		v = t.Val
	}
	out := make([]byte, 4, 4+len(v))
	binary.BigEndian.PutUint16(out[0:2], t.Type)
	binary.BigEndian.PutUint16(out[2:4], uint16(len(v)))
	return append(out, v...)
}

func (m *PFCPMsg) Encode() []byte {
	var body []byte
	for _, t := range m.IEs {
		body = append(body, t.encode()...)
	}
	hl := 8
	if m.HasSEID {
		hl = 16
	}
	out := make([]byte, hl, hl+len(body))
	out[0], out[1] = m.Flags, m.Type
	off := 4
	if m.HasSEID {
		binary.BigEndian.PutUint64(out[4:12], m.SEID)
		off = 12
	}
	out[off], out[off+1], out[off+2] = byte(m.Seq>>16), byte(m.Seq>>8), byte(m.Seq)
	out = append(out, body...)
	binary.BigEndian.PutUint16(out[2:4], uint16(len(out)-4))
	return out
}

func (t *TLV) clone() *TLV {
	c := &TLV{Type: t.Type, Group: t.Group, Val: append([]byte{}, t.Val...)}
	for _, k := range t.Kids {
		c.Kids = append(c.Kids, k.clone())
	}
	return c
}

// allNodes lists (parent slice pointer, index) of every TLV in the tree.
type tlvRef struct {
	list *[]*TLV
	idx  int
	path string
}

func collect(list *[]*TLV, path string, out *[]tlvRef) {
	for i, t := range *list {
		p := path + "/" + itoa16(t.Type)
		*out = append(*out, tlvRef{list, i, p})
		if t.Group {
			collect(&t.Kids, p, out)
		}
	}
}

func itoa16(v uint16) string {
	if v == 0 {
		return "0"
	}
	s := ""
	for v > 0 {
		s = string(rune('0'+v%10)) + s
		v /= 10
	}
	return s
}
