package harness

import (
	"fmt"
	"net"
	"strings"
	"time"

	"github.com/omec-project/upf-epc/zzverif/vsim"
	"github.com/wmnsk/go-pfcp/ie"
	"github.com/wmnsk/go-pfcp/message"
)

func init() {
	Register(&PropDef{
		ID: "C01", QuickRuns: 4800, Level: "exploration",
		Rule:   "one run = an association/session history of 1-2 peers into which 3-25 hostile datagrams are injected (random bytes; truncations; every message type the dispatcher handles and unsupported ones with 1-3 IE-level mutations: drop / duplicate / empty / retype / truncate / garble / IPv6-only address forms / corrupted flow descriptions / textual values respelt in letter case and padding; in states: first datagram on the listening socket, before/after association, with sessions, unknown SEID, after release; first datagrams of up to three further peers arrive while socket() fails with EMFILE - they are served once descriptors are free again). In one run in four the agent itself opens the association towards the victim (cpiface.peers) and every transmission of its Association Setup Request is answered with a valid, rejected, truncated or IE-mutated response carrying the right sequence number. With heartbeats enabled (intervals 15 ms / 40 ms / 5 s) the victim may sit on the agent's Heartbeat Requests and answer them late, and repeats its Association Setup on the live association, so that responses meet requests the agent has meanwhile abandoned; its PFCP port may be closed for a moment while the agent answers it (ICMP port unreachable, ECONNREFUSED on the agent's next read). One run in 48 is a long valid history instead: one failed write to the end-marker socket followed by more than a thousand hand-overs with end markers over two associations, every one of which must be answered. Monitors: any panic or Fatal of an agent task (attributed to the innermost repo frame); a valid Heartbeat Request sent afterwards on the same and on another association must be answered; at most one response-type datagram per injected datagram. Non-trivial = at least one accepted session operation or association plus at least one hostile datagram; distinct = different sequence of (state, message type, mutation kinds).",
		Assume: []string{"hostile generators are built on an independent TLV codec; 'answered' means within 5 virtual seconds after the agent is quiescent"},
		Real:   CommonReal, Simulated: CommonSim,
		Scenario: scenarioC01,
	})
}

type hostile struct {
	r    *Run
	g    *Gen
	desc []string
}

func (h *hostile) c(n int, l string) int { return h.r.Ch.Choose(n, l) }

// corruptFlow applies a token-level corruption to a flow description.
func (h *hostile) corruptFlow(text string) string {
	tok := strings.Fields(text)
	if len(tok) == 0 {
		tok = []string{"permit", "out", "ip", "from", "any", "to", "assigned"}
	}
	switch h.c(9, "flowmut") {
	case 0:
		return ""
	case 1: // truncate after a token (ends in "from", "to", an address...)
		if len(tok) > 1 {
			return strings.Join(tok[:1+h.c(len(tok)-1, "cut")], " ")
		}
	case 2: // drop a token
		if len(tok) > 1 {
			i := h.c(len(tok), "drop")
			return strings.Join(append(append([]string{}, tok[:i]...), tok[i+1:]...), " ")
		}
	case 3: // duplicate a token
		i := h.c(len(tok), "dup")
		return strings.Join(append(append(append([]string{}, tok[:i+1]...), tok[i]), tok[i+1:]...), " ")
	case 4: // garbage token
		i := h.c(len(tok), "garb")
		t := append([]string{}, tok...)
		t[i] = []string{"xyz", "-1", "999999", "1.2.3", "1.2.3.4/33", "10-", "-10", "5-1", "::1", "assigned/24", "/", "any/0", "0x10"}[h.c(13, "gtok")]
		return strings.Join(t, " ")
	case 5:
		return "permit out ip from"
	case 6:
		return "permit out ip from 10.0.0.1"
	case 7:
		return "permit in ip to"
	case 8:
		return "permit out 17 from any 80 to"
	}
	return text + " to"
}

func v6() net.IP { return net.ParseIP("2001:db8::1") }

// mutateTree applies one IE-level mutation to the message tree.
func (h *hostile) mutateTree(m *PFCPMsg) {
	var refs []tlvRef
	collect(&m.IEs, "", &refs)
	if len(refs) == 0 {
		m.IEs = append(m.IEs, &TLV{Type: uint16(h.c(300, "addtype"))})
		h.desc = append(h.desc, "add-ie")
		return
	}
	ref := refs[h.c(len(refs), "node")]
	list := ref.list
	t := (*list)[ref.idx]
	kind := h.c(10, "mutkind")
	switch kind {
	case 0: // drop
		*list = append((*list)[:ref.idx], (*list)[ref.idx+1:]...)
		h.desc = append(h.desc, "drop"+ref.path)
	case 1: // duplicate
		*list = append(*list, t.clone())
		h.desc = append(h.desc, "dup"+ref.path)
	case 2: // empty
		t.Group, t.Kids, t.Val = false, nil, nil
		h.desc = append(h.desc, "empty"+ref.path)
	case 3: // retype
		nt := []uint16{0, 1, 2, 3, 19, 21, 23, 24, 29, 44, 56, 57, 60, 84, 93, 96, 108, 109, 0x7fff, 0x8001}[h.c(20, "newtype")]
		t.Type = nt
		h.desc = append(h.desc, fmt.Sprintf("retype%s->%d", ref.path, nt))
	case 4: // truncate leaf value
		if !t.Group && len(t.Val) > 0 {
			t.Val = t.Val[:h.c(len(t.Val), "trunc")]
		} else if t.Group && len(t.Kids) > 0 {
			t.Kids = t.Kids[:h.c(len(t.Kids), "trunck")]
		}
		h.desc = append(h.desc, "truncate"+ref.path)
	case 5: // garble one byte
		if !t.Group && len(t.Val) > 0 {
			i := h.c(len(t.Val), "gi")
			t.Val[i] ^= byte(1 + h.c(255, "gx"))
		}
		h.desc = append(h.desc, "garble"+ref.path)
	case 6: // IPv6-only form of an address IE
		h.v6only(t)
		h.desc = append(h.desc, "v6only"+ref.path)
	case 7: // flow description corruption
		h.flowMut(m)
	case 9: // another spelling of a textual value: letter case flipped, padding added
		if !t.Group && len(t.Val) > 0 {
			flipped := false
			for i, b := range t.Val {
				if (b >= 'a' && b <= 'z') || (b >= 'A' && b <= 'Z') {
					t.Val[i] = b ^ 0x20
					flipped = true
				}
			}
			if !flipped || h.c(3, "pad") == 1 {
				t.Val = append(append([]byte{}, t.Val...), ' ')
			}
		}
		h.desc = append(h.desc, "respell"+ref.path)
	case 8: // flags/first byte extremes
		if !t.Group && len(t.Val) > 0 {
			t.Val[0] = []byte{0x00, 0xff, 0x80, 0x01, 0x02, 0x04, 0x10}[h.c(7, "fl")]
		}
		h.desc = append(h.desc, "flags"+ref.path)
	}
}

func leafBytes(i *ie.IE) []byte {
	b := make([]byte, i.MarshalLen())
	if err := i.MarshalTo(b); err != nil || len(b) < 4 {
		return nil
	}
	return b[4:]
}

func (h *hostile) v6only(t *TLV) {
	switch t.Type {
	case 60: // Node ID: IPv6
		t.Val = append([]byte{1}, v6()...)
	case 57: // F-SEID: v6 only
		t.Val = leafBytes(ie.NewFSEID(0x1122334455667788, nil, v6()))
	case 21: // F-TEID: v6 only
		t.Val = leafBytes(ie.NewFTEID(0x02, 0x100, nil, v6(), 0))
	case 93: // UE IP address: v6 only
		t.Val = leafBytes(ie.NewUEIPAddress(0x01, "", "2001:db8::2", 0, 0))
	case 84: // Outer header creation: GTP-U/UDP/IPv6
		t.Val = leafBytes(ie.NewOuterHeaderCreation(0x0200, 0x200, "", "2001:db8::3", 0, 0, 0))
	default:
		// walk into groups to find an address IE
		for _, k := range t.Kids {
			h.v6only(k)
		}
	}
}

// flowMut corrupts the first flow description found (SDF filter 23 / PFD contents 61).
func (h *hostile) flowMut(m *PFCPMsg) {
	var refs []tlvRef
	collect(&m.IEs, "", &refs)
	for _, ref := range refs {
		t := (*ref.list)[ref.idx]
		if t.Type == 23 && !t.Group && len(t.Val) >= 4 {
			// flags(1) spare(1) len(2) text
			text := string(t.Val[4:])
			nt := h.corruptFlow(text)
			t.Val = leafBytes(ie.NewSDFFilter(nt, "", "", "", 0))
			h.desc = append(h.desc, fmt.Sprintf("flow%s=%q", ref.path, nt))
			return
		}
		if t.Type == 61 && !t.Group && len(t.Val) >= 4 {
			nt := h.corruptFlow("permit out ip from 10.1.1.0/24 to assigned")
			t.Val = leafBytes(ie.NewPFDContents(nt, "", "", "", "", nil, nil, nil))
			h.desc = append(h.desc, fmt.Sprintf("pfd-flow%s=%q", ref.path, nt))
			return
		}
	}
	h.desc = append(h.desc, "flow-none")
}

// baseMessage draws a well-formed message of some type, as bytes.
func (h *hostile) baseMessage(p *Peer) (string, []byte) {
	g := h.g
	live := h.r.LiveSessions()
	seid := uint64(0xBAD00000) + uint64(h.c(16, "bseid"))
	var sess *CPSession
	if len(live) > 0 && h.c(3, "uselive") != 0 {
		sess = live[h.c(len(live), "which")]
		seid = sess.UPSEID
	}
	switch h.c(18, "mtype") {
	case 17:
		// well-formed Association Setup Request whose Node ID is an FQDN with octets
		// that are not UTF-8 / not printable (FQDN labels are arbitrary octet strings)
		fq := []string{"smf\xff.example", "smf\x00.core", "\xc3\x28.example", "smf.example"}[h.c(4, "fqdn")]
		return "AssociationSetupRequest+FQDN", Marshal(message.NewAssociationSetupRequest(p.NextSeq(), ie.NewNodeID("", "", fq), ie.NewRecoveryTimeStamp(p.TS)))
	case 0:
		return "HeartbeatRequest", Marshal(message.NewHeartbeatRequest(p.NextSeq(), ie.NewRecoveryTimeStamp(p.TS), nil))
	case 1:
		return "AssociationSetupRequest", Marshal(p.AssocSetupMsg())
	case 2:
		s := g.Session(p, SessShape{UEAlloc: h.c(2, "ua") == 1, TEIDChoose: h.c(2, "ch") == 1, NQER: h.c(4, "nq"), ExtraPDRs: h.c(3, "ex")})
		return "SessionEstablishmentRequest", Marshal(p.EstablishMsg(s))
	case 3:
		var m *ModSpec
		if sess != nil {
			m = g.Modification(sess)
		}
		if m == nil || m.Empty() {
			m = &ModSpec{CreateQER: []*QERSpec{g.QER(9)}, UpdateFAR: []*FARSpec{{ID: 2, Action: ActFORW, DstIface: IfAccess, HasFwd: true, HasOHC: true, TEID: 7, PeerIP: ip4("198.18.1.10"), EndMarker: true}},
				CreatePDR: []*PDRSpec{{ID: 9, Precedence: 10, SrcIface: IfCore, HasUEIP: true, UEIP: ip4("10.70.9.9"), FARID: 2, SDF: g.Flow(false)}}, RemovePDR: []uint16{1}}
		}
		return "SessionModificationRequest", Marshal(p.ModifyMsg(seid, m))
	case 4:
		return "SessionDeletionRequest", Marshal(p.DeleteMsg(seid))
	case 5:
		cause := []uint8{ie.CauseRequestAccepted, ie.CauseSessionContextNotFound, ie.CauseRequestRejected}[h.c(3, "srcause")]
		return "SessionReportResponse", Marshal(message.NewSessionReportResponse(0, 0, seid, uint32(1+h.c(50, "srseq")), 0, ie.NewCause(cause)))
	case 6:
		return "PFDManagementRequest", Marshal(message.NewPFDManagementRequest(p.NextSeq(),
			ie.NewApplicationIDsPFDs(ie.NewApplicationID("app1"), ie.NewPFDContext(ie.NewPFDContents("permit out ip from 10.1.1.0/24 to assigned", "", "", "", "", nil, nil, nil))),
			ie.NewApplicationIDsPFDs(ie.NewApplicationID("app2"), ie.NewPFDContext(ie.NewPFDContents("permit in udp from any to assigned 80", "", "", "", "", nil, nil, nil)))))
	case 7:
		return "AssociationReleaseRequest", Marshal(message.NewAssociationReleaseRequest(p.NextSeq(), ie.NewNodeID(p.NodeID, "", "")))
	case 8:
		return "HeartbeatResponse", Marshal(message.NewHeartbeatResponse(uint32(1+h.c(20, "hbseq")), ie.NewRecoveryTimeStamp(p.TS)))
	case 9:
		return "AssociationSetupResponse", Marshal(message.NewAssociationSetupResponse(uint32(1+h.c(20, "asseq")), ie.NewNodeID(p.NodeID, "", ""), ie.NewCause(ie.CauseRequestAccepted), ie.NewRecoveryTimeStamp(p.TS)))
	case 10:
		return "AssociationUpdateRequest", Marshal(message.NewAssociationUpdateRequest(p.NextSeq(), ie.NewNodeID(p.NodeID, "", "")))
	case 11:
		return "NodeReportRequest", Marshal(message.NewNodeReportRequest(p.NextSeq(), ie.NewNodeID(p.NodeID, "", ""), ie.NewNodeReportType(0x01)))
	case 12:
		return "SessionSetDeletionRequest", Marshal(message.NewSessionSetDeletionRequest(p.NextSeq(), ie.NewNodeID(p.NodeID, "", ""), ie.NewFQCSID(p.NodeID, 1)))
	case 13:
		return "SessionReportRequest", Marshal(message.NewSessionReportRequest(0, 0, seid, p.NextSeq(), 0, ie.NewReportType(0, 0, 0, 1)))
	case 14:
		// session establishment whose PDR names an application id (PFD path)
		s := g.Session(p, SessShape{})
		// (also spellings that differ from the provisioned ones in letter case or padding)
		s.PDRs[1].AppID = []string{"app1", "app2", "nosuchapp", "APP1", "App2", " app1", "app2 "}[h.c(7, "appid")]
		return "SessionEstablishmentRequest+AppID", Marshal(p.EstablishMsg(s))
	case 15:
		// establishment without any PDR (FARs/QERs only)
		s := g.Session(p, SessShape{NQER: 2})
		s.PDRs = nil
		return "SessionEstablishmentRequest-noPDR", Marshal(p.EstablishMsg(s))
	default:
		return "SessionDeletionResponse", Marshal(message.NewSessionDeletionResponse(0, 0, seid, p.NextSeq(), 0, ie.NewCause(ie.CauseRequestAccepted)))
	}
}

// datagram draws one hostile datagram.
func (h *hostile) datagram(p *Peer) (string, []byte) {
	h.desc = nil
	switch h.c(10, "hkind") {
	case 0: // random bytes
		n := h.c(64, "rlen")
		b := make([]byte, n)
		for i := range b {
			b[i] = byte(h.c(256, "rb"))
		}
		return fmt.Sprintf("random-bytes(%d)", n), b
	case 1: // truncation of a valid message
		name, b := h.baseMessage(p)
		cuts := []int{0, 1, 3, 4, 7, 8, 11, 12, 15, 16, 17, 20, len(b) - 1, len(b) - 2, len(b) / 2}
		c := cuts[h.c(len(cuts), "cut")]
		if c < 0 {
			c = 0
		}
		if c > len(b) {
			c = len(b)
		}
		return fmt.Sprintf("%s truncated@%d/%d", name, c, len(b)), b[:c]
	case 2: // header games
		name, b := h.baseMessage(p)
		if len(b) >= 4 {
			switch h.c(4, "hdr") {
			case 0:
				b[0] ^= 0xE0 // version bits
			case 1:
				b[2], b[3] = 0xff, 0xff // length too large
			case 2:
				b[2], b[3] = 0, 0
			case 3:
				b[0] ^= 0x01 // S flag flipped
			}
		}
		return name + " header-garbled", b
	default: // IE-level mutations of a valid message
		name, b := h.baseMessage(p)
		m, ok := ParsePFCP(b)
		if !ok {
			return name + " (unparsed)", b
		}
		n := 1 + h.c(3, "nmut")
		for i := 0; i < n; i++ {
			h.mutateTree(m)
		}
		return name + " " + strings.Join(h.desc, ","), m.Encode()
	}
}

func scenarioC01(r *Run) {
	if r.Ch.Choose(48, "long-history") == 1 {
		scenarioC01LongHistory(r)
		return
	}
	r.Conf = DefaultBESSConf()
	r.Conf.EnableHBTimer = r.Ch.Choose(3, "hb") == 1
	if r.Conf.EnableHBTimer {
		// short intervals keep requests of the agent pending while hostile input arrives
		r.Conf.HeartBeatInterval = []string{"5s", "40ms", "15ms"}[r.Ch.Choose(3, "hbi")]
	}
	r.Conf.CPIface.EnableUeIPAlloc = r.Ch.Choose(3, "uealloc-conf") != 1
	r.DrawStrategy()
	a := r.AddPeer()
	b := r.AddPeer()
	// In one run in four the agent itself opens the association towards the
	// victim peer, whose answers to the agent's request are the hostile input.
	initiated := r.Ch.Choose(4, "initiated") == 1
	var hInit *hostile
	initAnswers := 0
	if initiated {
		r.Conf.CPIface.Peers = []string{a.IP}
		r.Conf.RespTimeout = []string{"2s", "100ms"}[r.Ch.Choose(2, "init-tout")]
		a.OnAssocReq = func(req *message.AssociationSetupRequest) {
			if hInit == nil {
				return
			}
			h := hInit
			resp := message.NewAssociationSetupResponse(req.SequenceNumber, ie.NewNodeID(a.NodeID, "", ""), ie.NewCause(ie.CauseRequestAccepted), ie.NewRecoveryTimeStamp(a.TS))
			rejected := h.c(5, "init-cause") == 1
			if rejected {
				resp = message.NewAssociationSetupResponse(req.SequenceNumber, ie.NewNodeID(a.NodeID, "", ""), ie.NewCause(ie.CauseRequestRejected), ie.NewRecoveryTimeStamp(a.TS))
			}
			valid := false
			b := Marshal(resp)
			name := "AssociationSetupResponse(to agent's request)"
			h.desc = nil
			switch h.c(6, "init-kind") {
			case 0: // valid
				valid = true
			case 1: // truncated
				c := h.c(len(b), "init-cut")
				b = b[:c]
				name += fmt.Sprintf(" truncated@%d", c)
			default: // IE-level mutations
				if m, ok := ParsePFCP(b); ok {
					n := 1 + h.c(2, "init-nmut")
					for i := 0; i < n; i++ {
						h.mutateTree(m)
					}
					b = m.Encode()
					name += " " + strings.Join(h.desc, ",")
				}
			}
			initAnswers++
			r.Op("hostile[agent-initiated] %s (%d bytes)", name, len(b))
			r.Skel("initiated:" + skelOf(name))
			r.Fault("hostile-answer-to-agent-request")
			a.SendRaw(b)
			if valid && !rejected {
				a.Associated = true
			}
		}
	}
	hInit = &hostile{r: r, g: NewGen(r)}
	r.StartAgent()
	if !r.AgentAlive() {
		r.CheckNoPanics("C01")
		return
	}
	if initiated {
		r.Sim.RunFor(time.Duration(20+r.Ch.Choose(400, "init-wait")) * time.Millisecond)
		if !r.AgentAlive() {
			r.CheckNoPanics("C01")
			return
		}
	}
	g := NewGen(r)
	h := &hostile{r: r, g: g}
	// bystander association with one session
	if b.Associate() != nil {
		if res := b.Establish(g.Session(b, SessShape{})); res.Accepted {
			r.Accepted++
		}
	}
	state := "unassociated"
	// the victim may sit on the agent's heartbeats and answer them late (valid,
	// merely slow): the answers then meet whatever state the association is in
	var heldHB []uint32
	holdHB := false
	a.HBFilter = func(m *RxMsg) bool {
		if holdHB {
			heldHB = append(heldHB, m.Msg.Sequence())
			return false
		}
		return true
	}
	nStrangers := 0
	n := 3 + r.Ch.Choose(23, "nhostile")
	for k := 0; k < n && r.AgentAlive(); k++ {
		// move the victim association's state along
		switch r.Ch.Choose(8, "stateop") {
		case 1:
			if !a.Associated || r.Ch.Choose(3, "reassoc") == 1 {
				// also on a live association: a control plane that restarted, or a retransmitted setup
				if a.Associate() != nil {
					state = "associated"
					r.Accepted++
				}
			}
		case 4:
			// the victim's PFCP port is closed for a moment (control plane restarting)
			// while the agent answers it: the agent's next read on the connected socket
			// fails with ECONNREFUSED; afterwards the victim goes on as before
			if len(a.Rx) > 0 {
				a.SendMsg(message.NewHeartbeatRequest(a.NextSeq(), ie.NewRecoveryTimeStamp(a.TS), nil))
				r.W.Net.SetDown(a.Addr, true)
				r.Sim.RunFor(time.Duration(5+r.Ch.Choose(60, "down-ms")) * time.Millisecond)
				r.W.Net.SetDown(a.Addr, false)
				r.Fault("peer-port-closed-icmp-unreachable")
				r.Op("peer0's port was closed for a moment (ICMP port unreachable towards the agent)")
				r.Skel("port-closed")
			}
		case 5:
			// A peer the agent has never heard of sends its first datagram while the
			// process cannot open another socket (file descriptors used up - e.g. by
			// datagrams from many source ports): that peer gets no connection, and
			// nothing else may suffer. When descriptors are free again it is served.
			if nStrangers < 3 {
				nStrangers++
				c := r.AddPeer()
				r.W.Net.DialFailNext = 1
				c.SendMsg(c.AssocSetupMsg())
				r.Sim.RunFor(30 * time.Millisecond)
				failed := r.W.Net.DialFailNext == 0
				r.W.Net.DialFailNext = 0
				r.Fault("socket-creation-failed-emfile")
				r.Op("first datagram of a new peer (peer%d) while socket() fails with EMFILE (attempt seen: %v)", c.Idx, failed)
				r.Skel("emfile")
				if r.AgentAlive() && failed && r.Ch.Choose(2, "stranger-again") == 1 {
					if c.AssociateRetry() == nil && r.AgentAlive() {
						r.Violate("C01", "peer-locked-out-after-failed-socket", "a peer whose first datagram arrived while socket() failed gets no answer to a valid Association Setup Request afterwards\n%s", strings.Join(r.Sim.BlockedTable(), "\n"))
					}
				}
			}
		case 6:
			if r.Conf.EnableHBTimer {
				holdHB = !holdHB
				r.Op("peer0 holds heartbeat answers: %v", holdHB)
			}
		case 7:
			if len(heldHB) > 0 {
				r.Op("peer0 answers %d held heartbeat(s) late", len(heldHB))
				r.Fault("late-heartbeat-answer")
				for _, seq := range heldHB {
					a.SendMsg(message.NewHeartbeatResponse(seq, ie.NewRecoveryTimeStamp(a.TS)))
				}
				heldHB = nil
				r.Sim.RunFor(5 * time.Millisecond)
			}
		case 2:
			if a.Associated && len(a.Sessions) < 3 {
				if res := a.Establish(g.Session(a, SessShape{UEAlloc: r.Ch.Choose(2, "ua") == 1, TEIDChoose: true, NQER: r.Ch.Choose(3, "nq")})); res.Accepted {
					state = "with-sessions"
					r.Accepted++
				}
			}
		case 3:
			if a.Associated && r.Ch.Choose(3, "rel") == 1 {
				a.Release()
				a.Sessions = map[uint64]*CPSession{}
				state = "released"
			}
		}
		if !r.AgentAlive() {
			break
		}
		name, data := h.datagram(a)
		rxBefore := len(a.Rx)
		r.Op("hostile[%s] %s (%d bytes)", state, name, len(data))
		r.Skel(state + ":" + skelOf(name))
		r.Fault("hostile-datagram")
		a.SendRaw(data)
		r.Sim.RunFor(30 * time.Millisecond)
		if !r.AgentAlive() {
			break
		}
		// (iii) at most one response-type datagram in reaction
		resp := 0
		for _, m := range a.Rx[rxBefore:] {
			if m.Err == nil && isResponseType(m.Msg.MessageType()) {
				resp++
				m.Used = true
			}
			if m.Err != nil {
				r.Violate("C01", "undecodable-reply", "the agent answered %s with bytes go-pfcp cannot decode: %v", name, m.Err)
			}
		}
		if resp > 1 {
			r.Violate("C01", "multiple-responses:"+skelOf(name), "%d response-type datagrams in reaction to one injected datagram (%s)", resp, name)
		}
		// a hostile Association Release may really have released the association
		if strings.HasPrefix(name, "AssociationReleaseRequest") {
			a.Associated = false
			a.Sessions = map[uint64]*CPSession{}
			state = "released"
		}
		// (ii) liveness: same association and the bystander
		if r.Ch.Choose(2, "probe") == 0 || k == n-1 {
			if a.HeartbeatRetry() == nil && r.AgentAlive() {
				r.Violate("C01", "wedged-same-association:"+typeOf(name), "a valid Heartbeat Request on the same association got no answer after three attempts following: %s\n%s", name, strings.Join(r.Sim.BlockedTable(), "\n"))
				break
			}
			if b.HeartbeatRetry() == nil && r.AgentAlive() {
				r.Violate("C01", "wedged-other-association:"+typeOf(name), "a valid Heartbeat Request on another association got no answer after three attempts following: %s\n%s", name, strings.Join(r.Sim.BlockedTable(), "\n"))
				break
			}
		}
	}
	// final: a full valid exchange on the bystander still works
	if r.AgentAlive() && len(r.Violations) == 0 {
		if b.Associated {
			res := b.Establish(g.Session(b, SessShape{TEIDChoose: true}))
			if res.Rx == nil {
				r.Violate("C01", "valid-request-unanswered-at-end", "a valid Session Establishment on another association got no answer at the end of the run")
			}
		}
	}
	r.CheckNoPanics("C01")
}

// typeOf keeps the message type of a hostile datagram name only (a wedge is
// usually the work of the history, not of the last datagram's mutations).
func typeOf(name string) string {
	f := strings.Fields(name)
	if len(f) == 0 {
		return "?"
	}
	return f[0]
}

// skelOf reduces a hostile datagram name to its kind (type + mutation kinds, no values).
func skelOf(name string) string {
	f := strings.Fields(name)
	if len(f) == 0 {
		return "?"
	}
	out := f[0]
	if len(f) > 1 {
		var kinds []string
		for _, d := range strings.Split(f[1], ",") {
			k := d
			if i := strings.IndexAny(k, "/=@("); i > 0 {
				k = k[:i]
			}
			kinds = append(kinds, k)
		}
		out += ":" + strings.Join(kinds, "+")
	}
	return out
}

// scenarioC01LongHistory: nothing hostile in the payload, a fault outside it: one
// write to the end-marker socket fails (the datapath's end is not reading for a
// moment); more than a thousand hand-overs with end markers follow, spread
// over two associations. Every request must still be answered and both
// associations must go on answering heartbeats (a consumer that gave up would
// let a queue fill and block the receive loops).
func scenarioC01LongHistory(r *Run) {
	r.Conf = DefaultBESSConf()
	r.Conf.EnableEndMarker = true
	r.Conf.EnableHBTimer = false
	r.Sim.Strat = vsim.StratRunToBlock
	r.Sim.MaxSteps = 40_000_000
	a, b := r.AddPeer(), r.AddPeer()
	r.StartAgent()
	if !r.AgentAlive() || a.Associate() == nil || b.Associate() == nil {
		r.CheckNoPanics("C01")
		return
	}
	g := NewGen(r)
	g.PlainQER = true
	sa, sb := g.Session(a, SessShape{}), g.Session(b, SessShape{})
	if !a.Establish(sa).Accepted || !b.Establish(sb).Accepted {
		return
	}
	r.Accepted += 2
	sink := "/tmp/pfcpport"
	failAt := r.Ch.Choose(20, "fail-at")
	n := 1040 + r.Ch.Choose(40, "handovers")
	r.Skel("long-endmarker-history")
	for k := 0; k < n && r.AgentAlive(); k++ {
		if k == failAt {
			r.W.Net.UnixFailNext[sink] = 1 + r.Ch.Choose(2, "fails")
			r.Fault("end-marker-socket-write-fails")
		}
		p, s := a, sa
		if k%5 == 4 {
			p, s = b, sb
		}
		g.nextTEID++
		f := &FARSpec{ID: 2, Action: ActFORW, DstIface: IfAccess, HasFwd: true, HasOHC: true, TEID: g.nextTEID, PeerIP: g.gnbs[k%len(g.gnbs)], EndMarker: true}
		res := p.Modify(s, &ModSpec{Tag: "uF:handover", UpdateFAR: []*FARSpec{f}})
		if res.Rx == nil {
			if r.AgentAlive() {
				r.Violate("C01", "valid-request-unanswered:long-history", "hand-over %d of %d (end marker flag set) of peer%d got no answer; one end-marker socket write had failed at hand-over %d\n%s", k, n, p.Idx, failAt, strings.Join(r.Sim.BlockedTable(), "\n"))
			}
			return
		}
		if res.Accepted {
			r.Accepted++
		}
	}
	r.Op("%d hand-overs with end markers after a failed end-marker write at hand-over %d", n, failAt)
	for _, p := range []*Peer{a, b} {
		if p.HeartbeatRetry() == nil && r.AgentAlive() {
			r.Violate("C01", "wedged-after-long-history", "after %d hand-overs peer%d gets no heartbeat answer\n%s", n, p.Idx, strings.Join(r.Sim.BlockedTable(), "\n"))
			return
		}
	}
	r.CheckNoPanics("C01")
}
