//go:build !race

package harness

func drainRaceLogs() []string { return nil }

func ensureRaceLog() {}
