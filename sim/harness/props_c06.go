package harness

import (
	"fmt"
	"net"
	"sort"
	"strings"
	"time"

	"github.com/anishathalye/porcupine"
	"github.com/omec-project/upf-epc/pfcpiface"
	"github.com/omec-project/upf-epc/zzverif/vsim"
	"github.com/wmnsk/go-pfcp/ie"
	"github.com/wmnsk/go-pfcp/message"
)

func init() {
	Register(&PropDef{
		ID: "C06", QuickRuns: 1600, Level: "exploration", Race: true,
		Rule:   "two layers per batch. (api) 2-8 simulated tasks call LookupOrAllocIP / DeallocIP on a real IPPool (/30 ... /26, more sessions than addresses) under statement-level pre-emption and all strategies; invoke / return are stamped with the simulator's global step counter; the history (<= 60 operations) is checked for linearizability against a sequential pool model with porcupine (30 s timeout = inconclusive), plus invariants on every returned value (inside the prefix, not network / broadcast, exclusive, sticky, refusal only when full, conservation). (pfcp) 2-6 associations establish sessions that ask for a UP-allocated UE address at the same instant; the addresses in the Created PDR elements must satisfy the same invariants. In the race build any detector report whose stacks lie inside the pool is a violation. Non-trivial = at least one pre-emption inside a pool operation or > 20 task switches; distinct = different operation history skeleton. Also (agent layer): modifications that ask for the address again (Create PDR with CHV4) and are refused half-way.",
		Assume: []string{"porcupine v1.3.0; the sequential model allows any free address to be returned (the property does not fix the order)"},
		Real:   CommonReal, Simulated: CommonSim,
		Scenario: scenarioC06,
	})
}

type poolIn struct {
	op   int // 0 alloc/lookup, 1 dealloc
	seid uint64
}
type poolOut struct {
	ip  string
	err bool
}

func poolModel(size int) porcupine.Model {
	// state: sorted "seid=ip" pairs joined by ';'
	parse := func(st string) map[uint64]string {
		m := map[uint64]string{}
		if st == "" {
			return m
		}
		for _, kv := range strings.Split(st, ";") {
			var k uint64
			var v string
			fmt.Sscanf(kv, "%d=%s", &k, &v)
			m[k] = v
		}
		return m
	}
	render := func(m map[uint64]string) string {
		var ks []uint64
		for k := range m {
			ks = append(ks, k)
		}
		sortU64(ks)
		var parts []string
		for _, k := range ks {
			parts = append(parts, fmt.Sprintf("%d=%s", k, m[k]))
		}
		return strings.Join(parts, ";")
	}
	return porcupine.Model{
		Init: func() interface{} { return "" },
		Step: func(state, input, output interface{}) (bool, interface{}) {
			m := parse(state.(string))
			in, out := input.(poolIn), output.(poolOut)
			if in.op == 0 {
				if ip, held := m[in.seid]; held {
					return !out.err && out.ip == ip, state
				}
				if out.err {
					return len(m) == size, state
				}
				for _, ip := range m {
					if ip == out.ip {
						return false, state
					}
				}
				if len(m) >= size {
					return false, state
				}
				m[in.seid] = out.ip
				return true, render(m)
			}
			if _, held := m[in.seid]; held {
				if out.err {
					return false, state
				}
				delete(m, in.seid)
				return true, render(m)
			}
			return out.err, state
		},
		Equal: func(a, b interface{}) bool { return a.(string) == b.(string) },
	}
}

func inPool(ip net.IP, cidr string) (inside, edge bool) {
	_, n, err := net.ParseCIDR(cidr)
	if err != nil || ip == nil {
		return false, false
	}
	if !n.Contains(ip) {
		return false, false
	}
	v := ipU32(ip)
	base := ipU32(n.IP)
	ones, _ := n.Mask.Size()
	bcast := base | (^uint32(0) >> uint(ones))
	return true, v == base || v == bcast
}

func scenarioC06(r *Run) {
	if r.Ch.Choose(3, "layer") == 2 {
		c06PFCP(r)
		return
	}
	c06API(r)
}

//go:norace
func stampNow() uint64 {
	var v uint64
	vsim.Call(func() { v = vsimStamp() })
	return v
}

var stampCounter uint64

func vsimStamp() uint64 { stampCounter++; return stampCounter }

type poolOp struct {
	client   int
	in       poolIn
	out      poolOut
	call, rt uint64
}

func c06API(r *Run) {
	bits := 30 - r.Ch.Choose(5, "prefix") // /30 .. /26
	cidr := fmt.Sprintf("10.99.0.0/%d", bits)
	if r.Ch.Choose(4, "pool-written-with-host-bits") == 1 {
		// the operator wrote the prefix with host bits set: the pool is the prefix all the same
		cidr = fmt.Sprintf("10.99.0.%d/%d", 1+r.Ch.Choose((1<<(32-bits))-1, "host-bits"), bits)
	}
	size := (1 << (32 - bits)) - 2
	pool, err := pfcpiface.NewIPPool(cidr)
	if err != nil {
		r.Violate("C06", "pool-construction-failed", "NewIPPool(%s): %v", cidr, err)
		return
	}
	r.DrawStrategy()
	if r.Sim.MaxGap == 0 && r.Sim.Strat != vsim.StratPCT {
		r.Sim.MaxGap = []int{6, 20, 60}[r.Ch.Choose(3, "gap2")]
		r.Sim.ArmPreempt()
	}
	ntasks := 2 + r.Ch.Choose(7, "ntasks")
	nseids := size + 1 + r.Ch.Choose(3, "extra-seids")
	perTask := 60 / ntasks
	// pre-draw every task's operations (tasks must not draw concurrently)
	plans := make([][]poolIn, ntasks)
	for t := range plans {
		for k := 0; k < 2+r.Ch.Choose(perTask-1, "nops"); k++ {
			plans[t] = append(plans[t], poolIn{op: r.Ch.Choose(3, "op") / 2, seid: uint64(1 + r.Ch.Choose(nseids, "seid"))})
		}
	}
	results := make([][]poolOp, ntasks)
	done := make([]bool, ntasks)
	stampCounter = 0
	for t := 0; t < ntasks; t++ {
		t := t
		r.Sim.Spawn(1, fmt.Sprintf("pool-client-%d", t), func() {
			var mine []poolOp
			for _, in := range plans[t] {
				op := poolOp{client: t, in: in}
				op.call = stampNow()
				if in.op == 0 {
					ip, err := pool.LookupOrAllocIP(in.seid)
					op.out = poolOut{err: err != nil}
					if ip != nil {
						op.out.ip = ip.String()
					}
				} else {
					op.out = poolOut{err: pool.DeallocIP(in.seid) != nil}
				}
				op.rt = stampNow()
				mine = append(mine, op)
			}
			c06Publish(results, done, t, mine)
		})
	}
	r.Sim.RunUntil(func() bool {
		for _, d := range done {
			if !d {
				return false
			}
		}
		return true
	}, r.until(time.Second))
	for t, d := range done {
		if !d {
			r.Violate("C06", "pool-operation-hangs", "pool client %d did not finish: an operation blocks\n%s", t, strings.Join(r.Sim.BlockedTable(), "\n"))
			return
		}
	}
	r.CheckNoPanics("C06")
	var all []poolOp
	for _, l := range results {
		all = append(all, l...)
	}
	sort.Slice(all, func(i, j int) bool { return all[i].call < all[j].call })
	r.Accepted++
	// invariants on returned values
	for _, o := range all {
		if o.in.op == 0 && !o.out.err {
			inside, edge := inPool(net.ParseIP(o.out.ip), cidr)
			if !inside {
				r.Violate("C06", "address-outside-pool", "LookupOrAllocIP(%d) returned %s which is outside %s", o.in.seid, o.out.ip, cidr)
			}
			if edge {
				r.Violate("C06", "network-or-broadcast-address", "LookupOrAllocIP(%d) returned %s, the network or broadcast address of %s", o.in.seid, o.out.ip, cidr)
			}
		}
	}
	var ops []porcupine.Operation
	var skel []string
	for _, o := range all {
		ops = append(ops, porcupine.Operation{ClientId: o.client, Input: o.in, Call: int64(o.call), Output: o.out, Return: int64(o.rt)})
		skel = append(skel, fmt.Sprintf("%d:%d:%v", o.client, o.in.op, o.out.err))
	}
	r.Skel(strings.Join(skel, ","))
	r.Sim.Touch()
	res := porcupine.CheckOperationsTimeout(poolModel(size), ops, 30*time.Second)
	r.Sim.Touch()
	switch res {
	case porcupine.Illegal:
		var lines []string
		for _, o := range all {
			lines = append(lines, fmt.Sprintf("  client %d [%d..%d] op=%d seid=%d -> ip=%s err=%v", o.client, o.call, o.rt, o.in.op, o.in.seid, o.out.ip, o.out.err))
		}
		r.Violate("C06", "not-linearizable", "the concurrent history of pool operations on %s (%d addresses) is not linearizable w.r.t. the sequential pool model:\n%s", cidr, size, strings.Join(lines, "\n"))
	case porcupine.Unknown:
		r.Inconclusive++
	}
	r.Op("api layer: %s, %d tasks, %d operations, porcupine=%v", cidr, ntasks, len(all), res)
}

//go:norace
func c06Publish(results [][]poolOp, done []bool, t int, mine []poolOp) {
	vsim.Call(func() {
		results[t] = mine
		done[t] = true
	})
}

func c06PFCP(r *Run) {
	r.Conf = DefaultBESSConf()
	bits := 30 - r.Ch.Choose(3, "prefix")
	cidr := fmt.Sprintf("10.60.0.0/%d", bits)
	if r.Ch.Choose(4, "pool-written-with-host-bits") == 1 {
		cidr = fmt.Sprintf("10.60.0.%d/%d", 1+r.Ch.Choose((1<<(32-bits))-1, "host-bits"), bits)
		r.Probe("ue-pool-prefix-written-with-host-bits")
	}
	size := (1 << (32 - bits)) - 2
	r.Conf.CPIface.UEIPPool = cidr
	r.DrawStrategy()
	np := 2 + r.Ch.Choose(5, "npeers")
	for i := 0; i < np; i++ {
		r.AddPeer()
	}
	r.StartAgent()
	if !r.AgentAlive() {
		r.CheckNoPanics("C06")
		return
	}
	for _, p := range r.Peers {
		if p.AssociateRetry() == nil {
			return
		}
	}
	g := NewGen(r)
	g.PlainQER = true
	held := map[string]uint64{} // ip -> cp seid
	ipOf := map[uint64]string{} // cp seid -> ip
	rounds := 1 + r.Ch.Choose(3, "rounds")
	for round := 0; round < rounds && r.AgentAlive(); round++ {
		// every peer sends an establishment at the same instant
		type pend struct {
			p   *Peer
			s   *CPSession
			seq uint32
		}
		var pends []pend
		// establishments that take an address and are then refused by the datapath
		// plug-in (a port range too wide to be installed): the address must be back
		for k := 0; k < r.Ch.Choose(4, "refused"); k++ {
			q := r.Peers[r.Ch.Choose(np, "refused-peer")]
			bad := g.Session(q, SessShape{UEAlloc: true})
			sdf := &FlowSpec{Valid: true, Dir: "out", Proto: 17, UESide: "assigned", RemoteIP: ipU32(ip4("8.8.4.4")), RemoteLen: 32, HasPort: true, PortLo: 2000, PortHi: 2000 + uint16(300+r.Ch.Choose(3000, "too-wide"))}
			sdf.Text = fmt.Sprintf("permit out udp from 8.8.4.4 %d-%d to assigned", sdf.PortLo, sdf.PortHi)
			for _, x := range bad.PDRs {
				x.SDF = sdf
			}
			if res := q.Establish(bad); res.Accepted {
				// (not refused after all: it holds an address like any other session)
				if ip := bad.PDRs[1].GotUEIP; ip != nil {
					held[ip.String()] = bad.CPSEID
					ipOf[bad.CPSEID] = ip.String()
				}
			} else if res.Rx != nil {
				r.Probe("establishment-refused-after-address-was-taken")
			}
		}
		for _, p := range r.Peers {
			s := g.Session(p, SessShape{UEAlloc: true})
			m := p.EstablishMsg(s)
			p.SendMsg(m)
			pends = append(pends, pend{p, s, m.Sequence()})
		}
		r.Sim.RunFor(200 * time.Millisecond)
		accepted := 0
		for _, pe := range pends {
			rx := pe.p.FindResponse(51, pe.seq)
			if rx == nil {
				r.Violate("C06", "no-response", "establishment got no response")
				return
			}
			rx.Used = true
			c, _ := CauseOf(rx.Msg)
			if c != ie.CauseRequestAccepted {
				if len(held) < size && c != ie.CauseRequestRejected {
					// refused although addresses are free
				}
				continue
			}
			accepted++
			resp := rx.Msg
			pe.p.Establish2(pe.s, resp.(*message.SessionEstablishmentResponse))
			ip := pe.s.PDRs[1].GotUEIP
			if ip == nil {
				r.Violate("C06", "no-address-in-response", "accepted establishment asking for a UP-allocated address carries none")
				return
			}
			inside, edge := inPool(ip, cidr)
			if !inside || edge {
				r.Violate("C06", "address-outside-pool", "Created PDR address %v is outside %s or its network/broadcast address", ip, cidr)
			}
			if other, dup := held[ip.String()]; dup {
				r.Violate("C06", "address-held-twice", "address %v was handed to session cp=%d while session cp=%d still holds it", ip, pe.s.CPSEID, other)
				return
			}
			held[ip.String()] = pe.s.CPSEID
			ipOf[pe.s.CPSEID] = ip.String()
			r.Accepted++
		}
		if accepted < np && len(held) < size {
			r.Violate("C06", "refused-although-addresses-free", "round %d: %d of %d concurrent establishments accepted although only %d of %d addresses are held", round, accepted, np, len(held), size)
			return
		}
		r.Skel(fmt.Sprintf("round:%d/%d", accepted, np))
		// a modification that asks for the session's address again (Create PDR with
		// CHV4) and is then refused half-way (Remove PDR of an unknown rule): the
		// session keeps its address, nobody else may be given it
		for _, s := range r.LiveSessions() {
			if len(s.PDRs) < 2 || !s.PDRs[1].UEIPAlloc || r.Ch.Choose(3, "refused-mod-asking-for-address") != 1 {
				continue
			}
			extra := *s.PDRs[1]
			extra.ID, extra.Precedence, extra.GotUEIP = 50, 100, nil
			mr := s.Peer.Modify(s, &ModSpec{Tag: "cP:chv4+rP:unknown", CreatePDR: []*PDRSpec{&extra}, RemovePDR: []uint16{999}})
			if mr.Accepted || mr.Rx == nil {
				r.Inconclusive++ // the model no longer knows the session's rules
				return
			}
			r.Probe("modification-asking-for-address-refused-half-way")
			r.Skel("refused-mod-chv4")
		}
		// The control plane replaces the downlink PDR of a session: Remove PDR of the
		// PDR through which the address was allocated + Create PDR naming that
		// address explicitly. The session goes on using its address: nobody else
		// may be given it while the session lives.
		for _, s := range r.LiveSessions() {
			if len(s.PDRs) != 2 || !s.PDRs[1].UEIPAlloc || s.PDRs[1].GotUEIP == nil || r.Ch.Choose(4, "replace-dl-pdr") != 1 {
				continue
			}
			repl := s.PDRs[1].clone()
			repl.ID, repl.UEIPAlloc, repl.UEIP = 60, false, s.PDRs[1].GotUEIP
			mr := s.Peer.Modify(s, &ModSpec{Tag: "rP:dl+cP:explicit-address", RemovePDR: []uint16{s.PDRs[1].ID}, CreatePDR: []*PDRSpec{repl}})
			if mr.Rx == nil {
				r.Inconclusive++
				return
			}
			r.Skel(fmt.Sprintf("replace-dl-pdr:%v", mr.Accepted))
			if mr.Accepted {
				r.Probe("downlink-pdr-replaced-by-one-naming-the-address")
			}
		}
		// The control plane of one peer restarts: it sets the association up again
		// with a newer Recovery Time Stamp on the same connection and then clears
		// its old sessions (a deletion may be answered "unknown session" if the
		// agent dropped them on its own). Either way their addresses are free again.
		if r.Ch.Choose(5, "cp-restart") == 1 {
			q := r.Peers[r.Ch.Choose(np, "cp-restart-peer")]
			q.TS = q.TS.Add(time.Duration(1+r.Ch.Choose(100, "cp-restart-secs")) * time.Second)
			if q.AssociateRetry() == nil {
				r.Inconclusive++
				return
			}
			r.Probe("control-plane-restart-with-newer-recovery-time-stamp")
			r.Skel("cp-restart")
			for _, id := range sortedSessionIDs(q) {
				s := q.Sessions[id]
				res := q.Delete(s)
				if res.Rx == nil {
					r.Inconclusive++
					return
				}
				delete(held, ipOf[s.CPSEID])
				delete(q.Sessions, id)
			}
		}
		// release some
		for _, s := range r.LiveSessions() {
			if r.Ch.Choose(2, "release") == 1 {
				if res := s.Peer.Delete(s); res.Accepted {
					delete(held, ipOf[s.CPSEID])
				}
			}
		}
	}
	r.CheckNoPanics("C06")
}
