package harness

import (
	"fmt"
	"sort"

	"github.com/omec-project/upf-epc/zzverif/vsimenv"
	p4 "github.com/p4lang/p4runtime/go/p4/v1"
)

// Reference model of the UP4 pipeline image (C04, C05, C09, C11, C15).
// Table / action / parameter names and widths come from the P4Info the
// simulated switch serves (conf/p4/bin/p4info.txt), not from internal/p4constants.

const (
	tSessUL  = "PreQosPipe.sessions_uplink"
	tSessDL  = "PreQosPipe.sessions_downlink"
	tTermUL  = "PreQosPipe.terminations_uplink"
	tTermDL  = "PreQosPipe.terminations_downlink"
	tApps    = "PreQosPipe.applications"
	tPeers   = "PreQosPipe.tunnel_peers"
	tIfaces  = "PreQosPipe.interfaces"
	mApp     = "PreQosPipe.app_meter"
	mSess    = "PreQosPipe.session_meter"
	mSlice   = "PreQosPipe.slice_tc_meter"
	cPre     = "PreQosPipe.pre_qos_counter"
	cPost    = "PostQosPipe.post_qos_counter"
	aSessUL  = "PreQosPipe.set_session_uplink"
	aSessDL  = "PreQosPipe.set_session_downlink"
	aSessDLB = "PreQosPipe.set_session_downlink_buff"
	aULFwd   = "PreQosPipe.uplink_term_fwd"
	aULDrop  = "PreQosPipe.uplink_term_drop"
	aDLFwd   = "PreQosPipe.downlink_term_fwd"
	aDLDrop  = "PreQosPipe.downlink_term_drop"
	aSetApp  = "PreQosPipe.set_app_id"
	aTunnel  = "PreQosPipe.load_tunnel_param"
)

type p4view struct {
	sw *vsimenv.SimP4
}

func (v p4view) match(table string, e *p4.TableEntry, field string) (uint64, bool) {
	id := v.sw.MatchFieldID(table, field)
	for _, m := range e.Match {
		if m.FieldId == id {
			switch x := m.FieldMatchType.(type) {
			case *p4.FieldMatch_Exact_:
				return vsimenv.BytesToU64(x.Exact.Value), true
			case *p4.FieldMatch_Lpm:
				return vsimenv.BytesToU64(x.Lpm.Value), true
			case *p4.FieldMatch_Ternary_:
				return vsimenv.BytesToU64(x.Ternary.Value), true
			case *p4.FieldMatch_Range_:
				return vsimenv.BytesToU64(x.Range.Low), true
			}
		}
	}
	return 0, false
}

func (v p4view) action(e *p4.TableEntry) string {
	return v.sw.ActionName(e.GetAction().GetAction().GetActionId())
}

func (v p4view) param(e *p4.TableEntry, name string) (uint64, bool) {
	a := e.GetAction().GetAction()
	if a == nil {
		return 0, false
	}
	id := v.sw.ParamID(v.sw.ActionName(a.ActionId), name)
	for _, p := range a.Params {
		if p.ParamId == id {
			return vsimenv.BytesToU64(p.Value), true
		}
	}
	return 0, false
}

// appFilter of a PDR as the property states it: remote prefix, protocol, port range.
type appFilterKey struct {
	ip     uint32
	plen   int
	proto  int
	lo, hi uint16
	has    bool
}

func pdrAppFilter(p *PDRSpec) appFilterKey {
	if p.SDF == nil || !p.SDF.Valid {
		return appFilterKey{}
	}
	f := p.SDF
	k := appFilterKey{has: true, ip: f.RemoteIP, plen: f.RemoteLen, proto: f.Proto, lo: 0, hi: 65535}
	if f.HasPort {
		k.lo, k.hi = f.PortLo, f.PortHi
	}
	if k.plen == 0 && k.proto < 0 && !f.HasPort {
		return appFilterKey{} // "from any": no application filter at all
	}
	return k
}

type UP4Opts struct {
	QFIToTC   map[uint8]uint8
	DefaultTC uint8
	SliceID   uint8
	UEPool    string
}

// CheckUP4Image compares the simulated switch with the image of the live rules.
func (r *Run) CheckUP4Image(prop, ctx, cause string, o UP4Opts) {
	sw := r.W.P4
	v := p4view{sw}
	bad := func(upseid uint64, table, kind, format string, a ...any) {
		r.Violate(prop, imgSig(table, kind, r.causeFor(upseid, cause)), "%s: %s", ctx, fmt.Sprintf(format, a...))
	}
	sessions := r.LiveSessions()

	// ---- interfaces: N3 address and UE pool throughout (no session is involved:
	// never attributed to a session's known-finding trigger)
	saved := r.noTaintFallback
	r.noTaintFallback = true
	defer func() { r.noTaintFallback = saved }()
	wantIf := map[string]bool{fmt.Sprintf("%d/32", ipU32(ip4(N3Addr))): false}
	if ip, l, ok := parseCIDR(o.UEPool); ok {
		wantIf[fmt.Sprintf("%d/%d", ip, l)] = false
	}
	for _, e := range sw.SortedEntries(tIfaces) {
		ipv, _ := v.match(tIfaces, e, "ipv4_dst_prefix")
		pl := int32(0)
		for _, m := range e.Match {
			if l := m.GetLpm(); l != nil {
				pl = l.PrefixLen
			}
		}
		k := fmt.Sprintf("%d/%d", ipv, pl)
		if _, ok := wantIf[k]; ok {
			wantIf[k] = true
			if sl, ok := v.param(e, "slice_id"); ok && sl != uint64(o.SliceID) {
				bad(0, "interfaces", "wrong-slice-id", "interfaces entry %s/%d carries slice id %d, the agent is configured with slice id %d", u32IP(uint32(ipv)), pl, sl, o.SliceID)
			}
		} else {
			bad(0, "interfaces", "unexpected-entry", "interfaces table holds %s/%d which is neither the N3 address nor the UE pool", u32IP(uint32(ipv)), pl)
		}
	}
	for k, seen := range wantIf {
		if !seen {
			bad(0, "interfaces", "entry-missing", "interfaces table lacks %s (N3 address / UE pool must be present throughout)", k)
		}
	}

	r.noTaintFallback = saved
	// ---- expected objects
	type sessULKey struct{ n3, teid uint64 }
	wantSessUL := map[sessULKey]*CPSession{}
	wantSessDL := map[uint64]*modelPDR{}
	type termKey struct {
		ue  uint64
		app appFilterKey
	}
	wantTermUL := map[termKey]*modelPDR{}
	wantTermDL := map[termKey]*modelPDR{}
	wantApps := map[appFilterKey]bool{}
	appUser := map[appFilterKey]uint64{} // a live session that uses the filter (a tainted one when there is one)
	wantPeers := map[uint32]bool{}       // by peer address
	maybePeers := map[uint32]bool{}      // named by a FAR that does not forward at the moment
	ueOf := func(s *CPSession) uint32 {
		for _, p := range s.PDRs {
			if p.SrcIface == IfCore && p.HasUEIP {
				return p.EffUEIP()
			}
		}
		return 0
	}
	for _, s := range sessions {
		ue := uint64(ueOf(s))
		for _, p := range s.PDRs {
			m := &modelPDR{s, p}
			af := pdrAppFilter(p)
			if af.has {
				wantApps[af] = true
				// a tainted user of the filter explains a discrepancy on its entry
				if _, t := r.Taints[s.UPSEID]; t || appUser[af] == 0 {
					if _, had := r.Taints[appUser[af]]; !had {
						appUser[af] = s.UPSEID
					}
				}
			}
			if p.SrcIface == IfAccess {
				wantSessUL[sessULKey{uint64(p.EffTEIDAddr()), uint64(p.EffTEID())}] = s
				wantTermUL[termKey{ue, af}] = m
			} else {
				wantSessDL[uint64(p.EffUEIP())] = m
				wantTermDL[termKey{uint64(p.EffUEIP()), af}] = m
			}
		}
		for _, f := range s.FARs {
			if f.Action&ActFORW != 0 && f.HasFwd && f.DstIface == IfAccess && f.HasOHC && f.TEID != 0 {
				used := false
				for _, p := range s.PDRs {
					if p.FARID == f.ID {
						used = true
					}
				}
				// a FAR that no PDR references is still sent to the plug-in, which creates its peer
				_ = used
				wantPeers[ipU32(f.PeerIP)] = true
			} else if f.HasOHC && f.DstIface == IfAccess && f.PeerIP != nil {
				// a FAR that buffers or drops for the moment but still carries the
				// tunnel parameters: whether that counts as "using" the peer the
				// property does not say - its entry may be there, and need not
				maybePeers[ipU32(f.PeerIP)] = true
			}
		}
	}

	// ---- applications: one entry per distinct filter; consistent id bijection
	appID := map[appFilterKey]uint64{}
	idSeen := map[uint64]appFilterKey{}
	for _, e := range sw.SortedEntries(tApps) {
		k := appFilterKey{has: true, proto: -1, lo: 0, hi: 65535}
		for _, m := range e.Match {
			switch m.FieldId {
			case sw.MatchFieldID(tApps, "app_ip_addr"):
				k.ip, k.plen = uint32(vsimenv.BytesToU64(m.GetLpm().GetValue())), int(m.GetLpm().GetPrefixLen())
			case sw.MatchFieldID(tApps, "app_l4_port"):
				k.lo, k.hi = uint16(vsimenv.BytesToU64(m.GetRange().GetLow())), uint16(vsimenv.BytesToU64(m.GetRange().GetHigh()))
			case sw.MatchFieldID(tApps, "app_ip_proto"):
				k.proto = int(vsimenv.BytesToU64(m.GetTernary().GetValue()))
			}
		}
		if k.plen > 0 {
			mask := ^uint32(0) << (32 - uint(k.plen))
			k.ip &= mask
		}
		id, _ := v.param(e, "app_id")
		if !wantApps[k] {
			bad(0, "applications", "entry-not-used-by-live-rule", "applications entry %+v (app id %d) is used by no live PDR", k, id)
			continue
		}
		if prev, dup := idSeen[id]; dup && prev != k {
			bad(0, "applications", "id-shared-by-two-filters", "application id %d is carried by two different filters %+v and %+v", id, prev, k)
		}
		if id == 0 {
			bad(0, "applications", "reserved-id", "applications entry carries the reserved application id 0")
		}
		idSeen[id] = k
		appID[k] = id
	}
	for k := range wantApps {
		if _, ok := appID[k]; !ok {
			var present []string
			for pk, id := range appID {
				present = append(present, fmt.Sprintf("%+v=id%d", pk, id))
			}
			sort.Strings(present)
			who := uint64(0)
			if _, t := r.Taints[appUser[k]]; t {
				who = appUser[k] // the entry of a session that met a listed trigger (e.g. its deletion was refused half-way)
			}
			bad(who, "applications", "entry-missing", "no applications entry for filter %+v used by a live PDR (entries present: %v)", k, present)
		}
	}

	// ---- tunnel peers
	peerID := map[uint32]uint64{}
	for _, e := range sw.SortedEntries(tPeers) {
		id, _ := v.match(tPeers, e, "tunnel_peer_id")
		dst, _ := v.param(e, "dst_addr")
		src, _ := v.param(e, "src_addr")
		sport, _ := v.param(e, "sport")
		if !wantPeers[uint32(dst)] && maybePeers[uint32(dst)] {
			continue
		}
		if !wantPeers[uint32(dst)] {
			bad(0, "tunnel_peers", "entry-not-used-by-live-rule", "tunnel_peers entry id %d towards %v is used by no live FAR", id, u32IP(uint32(dst)))
			continue
		}
		if src != uint64(ipU32(ip4(N3Addr))) || sport != 2152 {
			bad(0, "tunnel_peers", "wrong-params", "tunnel peer %d: src %v sport %d (N3 address %s, port 2152 expected)", id, u32IP(uint32(src)), sport, N3Addr)
		}
		if _, dup := peerID[uint32(dst)]; dup {
			bad(0, "tunnel_peers", "duplicate-peer", "two tunnel_peers entries towards %v", u32IP(uint32(dst)))
		}
		peerID[uint32(dst)] = id
	}
	for a := range wantPeers {
		if _, ok := peerID[a]; !ok {
			bad(0, "tunnel_peers", "entry-missing", "no tunnel_peers entry towards %v used by a live FAR", u32IP(a))
		}
	}

	// ---- sessions_uplink
	for _, e := range sw.SortedEntries(tSessUL) {
		n3, _ := v.match(tSessUL, e, "n3_address")
		teid, _ := v.match(tSessUL, e, "teid")
		s := wantSessUL[sessULKey{n3, teid}]
		if s == nil {
			bad(0, "sessions_uplink", "entry-of-no-live-pdr", "sessions_uplink entry n3=%v teid=%d belongs to no live uplink PDR", u32IP(uint32(n3)), teid)
			continue
		}
		delete(wantSessUL, sessULKey{n3, teid})
		if v.action(e) != aSessUL {
			bad(s.UPSEID, "sessions_uplink", "wrong-action", "sessions_uplink entry teid=%d has action %s", teid, v.action(e))
		}
	}
	for k, s := range wantSessUL {
		bad(s.UPSEID, "sessions_uplink", "entry-missing", "no sessions_uplink entry for n3=%v teid=%d of session up=%d", u32IP(uint32(k.n3)), k.teid, s.UPSEID)
	}

	// ---- sessions_downlink
	for _, e := range sw.SortedEntries(tSessDL) {
		ue, _ := v.match(tSessDL, e, "ue_address")
		m := wantSessDL[ue]
		if m == nil {
			bad(0, "sessions_downlink", "entry-of-no-live-pdr", "sessions_downlink entry ue=%v belongs to no live downlink PDR", u32IP(uint32(ue)))
			continue
		}
		delete(wantSessDL, ue)
		far := m.s.FAR(m.p.FARID)
		if far == nil {
			continue
		}
		act := v.action(e)
		switch {
		case far.Action&ActBUFF != 0:
			if act != aSessDLB {
				bad(m.s.UPSEID, "sessions_downlink", "not-buffering", "session up=%d: the downlink FAR buffers but sessions_downlink action is %s", m.s.UPSEID, act)
			}
		case far.Action&ActFORW != 0 && far.HasOHC:
			if act != aSessDL {
				bad(m.s.UPSEID, "sessions_downlink", "wrong-action", "session up=%d: the downlink FAR forwards but sessions_downlink action is %s", m.s.UPSEID, act)
				break
			}
			tp, _ := v.param(e, "tunnel_peer_id")
			if want, ok := peerID[ipU32(far.PeerIP)]; ok && tp != want {
				bad(m.s.UPSEID, "sessions_downlink", "wrong-tunnel-peer", "session up=%d: tunnel peer id %d, the peer carrying %v has id %d", m.s.UPSEID, tp, far.PeerIP, want)
			}
		}
	}
	for ue, m := range wantSessDL {
		bad(m.s.UPSEID, "sessions_downlink", "entry-missing", "no sessions_downlink entry for ue=%v of session up=%d", u32IP(uint32(ue)), m.s.UPSEID)
	}

	// ---- terminations
	checkTerm := func(table string, want map[termKey]*modelPDR, uplink bool) {
		short := "terminations_downlink"
		if uplink {
			short = "terminations_uplink"
		}
		byKey := map[[2]uint64]*modelPDR{}
		for k, m := range want {
			id := uint64(0)
			if k.app.has {
				x, ok := appID[k.app]
				if !ok {
					continue // already reported as applications:entry-missing
				}
				id = x
			}
			byKey[[2]uint64{k.ue, id}] = m
		}
		for _, e := range sw.SortedEntries(table) {
			ue, _ := v.match(table, e, "ue_address")
			app, _ := v.match(table, e, "app_id")
			m := byKey[[2]uint64{ue, app}]
			if m == nil {
				bad(0, short, "entry-of-no-live-pdr", "%s entry ue=%v app_id=%d belongs to no live PDR", short, u32IP(uint32(ue)), app)
				continue
			}
			delete(byKey, [2]uint64{ue, app})
			far := m.s.FAR(m.p.FARID)
			var q *QERSpec
			if len(m.p.QERIDs) > 0 {
				q = m.s.QER(m.p.QERIDs[0])
			}
			act := v.action(e)
			gateClosed := q != nil && ((uplink && q.GateUL == 1) || (!uplink && q.GateDL == 1))
			wantDrop := (far != nil && far.Action&ActDROP != 0 && far.Action&ActFORW == 0) || gateClosed
			dropAct, fwdAct := aDLDrop, aDLFwd
			if uplink {
				dropAct, fwdAct = aULDrop, aULFwd
			}
			if wantDrop {
				if act != dropAct {
					bad(m.s.UPSEID, short, "not-dropping", "PDR %d of session up=%d: FAR drops=%v gate closed=%v but the action is %s", m.p.ID, m.s.UPSEID, far != nil && far.Action&ActDROP != 0, gateClosed, act)
				}
				continue
			}
			if far != nil && far.Action&ActBUFF != 0 {
				continue // buffering is expressed in sessions_downlink
			}
			if act != fwdAct {
				bad(m.s.UPSEID, short, "not-forwarding", "PDR %d of session up=%d should forward but the action is %s", m.p.ID, m.s.UPSEID, act)
				continue
			}
			if !uplink && far != nil && far.HasOHC {
				teid, _ := v.param(e, "teid")
				if teid != uint64(far.TEID) {
					bad(m.s.UPSEID, short, "wrong-teid", "PDR %d of session up=%d: terminations TEID %d, the FAR's is %d", m.p.ID, m.s.UPSEID, teid, far.TEID)
				}
			}
			if q != nil {
				// the application meter cell the entry points at carries the QER's rate
				// of this direction (PFCP: kbit/s; P4Runtime: byte/s); no rate = 0
				// (judged for sessions with a single QER, where the plug-in keeps one
				// cell per direction; with two QERs it keeps one cell per application QER)
				if idx, ok := v.param(e, "app_meter_idx"); ok && idx != 0 && len(m.s.QERs) == 1 {
					mbr := q.MBRDL
					if uplink {
						mbr = q.MBRUL
					}
					if !q.HasMBR {
						mbr = 0
					}
					got := int64(0)
					if cfg := sw.Meters[sw.ID(mApp)][int64(idx)]; cfg != nil {
						got = cfg.Pir
					}
					if got != int64(mbr*1000/8) {
						bad(m.s.UPSEID, "meters", "app-meter-rate", "PDR %d of session up=%d: application meter cell %d has peak rate %d byte/s, QER %d asks for %d kbit/s = %d byte/s in this direction", m.p.ID, m.s.UPSEID, idx, got, q.ID, mbr, mbr*1000/8)
					}
				}
				wantTC := uint64(o.DefaultTC)
				if tc, ok := o.QFIToTC[q.QFI]; ok {
					wantTC = uint64(tc)
				}
				tc, _ := v.param(e, "tc")
				if tc != wantTC {
					bad(m.s.UPSEID, short, "wrong-traffic-class", "PDR %d of session up=%d: traffic class %d, QFI %d is configured as %d", m.p.ID, m.s.UPSEID, tc, q.QFI, wantTC)
				}
				if !uplink {
					qfi, _ := v.param(e, "qfi")
					if qfi != uint64(q.QFI) {
						bad(m.s.UPSEID, short, "wrong-qfi", "PDR %d of session up=%d: QFI %d at the switch, the QER's is %d", m.p.ID, m.s.UPSEID, qfi, q.QFI)
					}
				}
			}
		}
		var left []string
		for k, m := range byKey {
			left = append(left, fmt.Sprintf("ue=%v app_id=%d (PDR %d of session up=%d)", u32IP(uint32(k[0])), k[1], m.p.ID, m.s.UPSEID))
		}
		sort.Strings(left)
		if len(left) > 0 {
			var up uint64
			for _, m := range byKey {
				up = m.s.UPSEID
			}
			bad(up, short, "entry-missing", "no %s entry for %s", short, left[0])
		}
	}
	checkTerm(tTermUL, wantTermUL, true)
	checkTerm(tTermDL, wantTermDL, false)

	// ---- meters: configured cells only for QERs of live sessions
	nQER := 0
	for _, s := range sessions {
		nQER += len(s.QERs)
	}
	cells := len(sw.Meters[sw.ID(mApp)]) + len(sw.Meters[sw.ID(mSess)])
	if cause == "restart" {
		cells = 0 // judged after the first accepted request of the new incarnation
	}
	if r.Inc > 1 && cells > 2*nQER {
		// the agent was restarted in this run: start-up clears the tables but
		// leaves the meter cells of the previous incarnation configured
		r.Soft()
		r.Violate(prop, "meters:stale-cells-after-agent-restart", "%s: %d application / session meter cells are configured for %d live QERs; the agent was restarted earlier in this run and does not reset meter cells at start-up", ctx, cells, nQER)
	} else {
		if r.refusedEst && (nQER == 0 && cells > 0 || cells > 2*nQER) {
			// an establishment was refused half-way earlier in this run: the meter
			// cells it had configured by then are that finding's leftovers, whatever
			// other trigger the run met first
			r.Violate(prop, imgSig("meters", "cells-left", "after:up4-refused-establishment"), "%s: %d application / session meter cells are configured for %d live QERs after an establishment was refused half-way", ctx, cells, nQER)
		} else {
			if nQER == 0 && cells > 0 {
				bad(0, "meters", "configured-cells-without-live-qer", "%d application / session meter cells are configured while no QER of a live session exists", cells)
			}
			if cells > 2*nQER {
				bad(0, "meters", "more-cells-than-qers-need", "%d meter cells configured for %d live QERs (at most two per QER)", cells, nQER)
			}
		}
	}
	r.noteP4State()
}

func parseCIDR(s string) (uint32, int, bool) {
	var a, b, c, d, l int
	if n, _ := fmt.Sscanf(s, "%d.%d.%d.%d/%d", &a, &b, &c, &d, &l); n != 5 {
		return 0, 0, false
	}
	ip := uint32(a)<<24 | uint32(b)<<16 | uint32(c)<<8 | uint32(d)
	if l > 0 {
		ip &= ^uint32(0) << (32 - uint(l))
	}
	return ip, l, true
}

func (r *Run) noteP4State() {
	sw := r.W.P4
	h := uint64(1469598103934665603)
	mix := func(x uint64) { h = (h ^ x) * 1099511628211 }
	for _, t := range []string{tSessUL, tSessDL, tTermUL, tTermDL, tApps, tPeers} {
		mix(uint64(len(sw.Table(t))))
	}
	mix(uint64(len(sw.Meters[sw.ID(mApp)])))
	mix(uint64(len(sw.Meters[sw.ID(mSess)])))
	r.stateHashes[h] = true
}
