package harness

import (
	"fmt"
	"time"

	"github.com/omec-project/upf-epc/zzverif/vsimenv"
)

func init() {
	Register(&PropDef{
		ID: "C16", QuickRuns: 2400, Level: "exploration",
		Rule:   "one run = a UP4 request history (establishments with application filters, FAR / QER / PDR modifications, deletions, slice REST requests; dropping uplink FARs; kill -9 and restart against the populated switch, whose start-up read-and-clear writes are validated like the rest) with boundary inputs: precedence 0, 1, 65533..65535 and drawn, QFIs 0..63, slice id 0..15, traffic classes 0..3, 40-bit rates, port ranges, prefix lengths 8..32; every update of every Write the simulated switch receives is validated against the P4Info it serves (table exists, field belongs to it with the declared match kind, value fits the bit width, LPM prefix length, range low <= high, action allowed with exactly its parameters, non-zero priority iff the table has ternary/range fields, meter / counter index inside the array). Non-trivial = at least one accepted session operation; distinct = different event skeleton. The static sub-claim (constants regenerated twice and compared byte for byte with internal/p4constants) is checked by /verif/tools/c16static.sh, reported in the same evidence file. Also (one run in 40): 256-315 sessions in turn behind gNBs of their own.",
		Assume: []string{"P4Info semantics per P4Runtime v1.3 as implemented in sim/vsimenv/p4.go validateTableEntry/applyUpdate"},
		Real:   CommonReal, Simulated: append(append([]string{}, CommonSim...), "P4Runtime switch with P4Info validator"),
		Scenario: scenarioC16,
	})
}

func reportInvalid(r *Run, prop string) {
	for _, inv := range r.W.P4.Invalid {
		r.Violate(prop, "invalid-write:"+inv.What, "the switch received an update that does not conform to the P4Info it serves: %s\n%s", inv.What, inv.Entity)
	}
}

func scenarioC16(r *Run) {
	o := r.DrawUP4Conf()
	r.DrawStrategy()
	p := r.AddPeer()
	r.StartAgent()
	if !r.WaitUP4Ready() {
		r.CheckNoPanics("C16")
		reportInvalid(r, "C16")
		return
	}
	if p.AssociateRetry() == nil {
		return
	}
	g := NewGen(r)
	g.UP4 = true
	g.PrecBoundary = true
	g.DrawAvoid()
	if r.Ch.Choose(40, "long-history") == 1 {
		// a long history: more sessions in turn, each behind a gNB of its own, than an
		// 8-bit tunnel peer id has values (ids are handed out first-in-first-out, so
		// the n-th peer gets an id the switch has never seen)
		n := 256 + r.Ch.Choose(60, "long-n")
		i := 0
		for ; i < n && r.AgentAlive() && len(r.W.P4.Invalid) == 0; i++ {
			s := g.Session(p, SessShape{TEIDChoose: r.Ch.Choose(2, "ch") == 1})
			*s.FAR(2) = FARSpec{ID: 2, Action: ActFORW, DstIface: IfAccess, HasFwd: true, HasOHC: true, TEID: uint32(5000 + i), PeerIP: ip4(fmt.Sprintf("198.18.%d.%d", 2+i/200, 1+i%200))}
			if res := p.Establish(s); !res.Accepted {
				break
			}
			r.Accepted++
			if dr := p.Delete(s); dr.Accepted {
				delete(p.Sessions, s.CPSEID)
			} else {
				break
			}
		}
		r.Op("%d sessions in turn, each behind a gNB of its own", i)
		r.Probe("long-history-of-distinct-gnbs")
		r.Probe(fmt.Sprintf("long-history-sessions>=%d", i/50*50))
		r.Skel("long-history")
		reportInvalid(r, "C16")
		r.CheckNoPanics("C16")
		return
	}
	inc := r.Inc
	restarted := false
	for k := 0; k < 3+r.Ch.Choose(10, "nops") && r.AgentAlive(); k++ {
		live := r.LiveSessions()
		op := r.Ch.Choose(5, "op")
		if !restarted && len(live) > 0 && r.Ch.Choose(8, "agent-restart") == 1 {
			// kill -9 and restart against the populated switch: the start-up sequence
			// (read and clear of every table) writes too, and is validated like the rest
			restarted = true
			r.KillAgent()
			for _, q := range r.Peers {
				q.Sessions = map[uint64]*CPSession{}
				q.Associated = false
			}
			r.Sim.RunFor(time.Second)
			r.StartAgent()
			r.Skel("restart")
			ready := r.WaitUP4Ready()
			if len(r.W.P4.Invalid) > 0 || !ready || !r.AgentAlive() {
				break
			}
			if p.AssociateRetry() == nil {
				break
			}
			inc = r.Inc
			continue
		}
		switch {
		case op <= 1 || len(live) == 0:
			s := g.Session(p, SessShape{UEAlloc: r.Ch.Choose(3, "ua") == 1, TEIDChoose: r.Ch.Choose(2, "ch") == 1, NQER: r.Ch.Choose(4, "nq"), ExtraPDRs: r.Ch.Choose(3, "ex"), Wide: true})
			if len(s.PDRs) >= 2 && r.Ch.Choose(6, "explicit-match-all") == 1 {
				// the default flow written out as a filter that matches everything, at one
				// of the ends of the precedence range
				all := &FlowSpec{Valid: true, Dir: "out", Proto: -1, UESide: "assigned", Text: "permit out ip from any to assigned"}
				prec := []uint32{65535, 0, 255}[r.Ch.Choose(3, "match-all-prec")]
				for _, pd := range s.PDRs[:2] {
					pd.SDF, pd.Precedence = all, prec
				}
				r.Probe("explicit-match-all-filter")
			}
			if r.Ch.Choose(6, "ul-drop") == 1 {
				// uplink traffic of the session is to be dropped
				*s.FAR(1) = FARSpec{ID: 1, Action: ActDROP, DstIface: IfCore, HasFwd: true}
			}
			res := p.Establish(s)
			r.Op("establish %s -> accepted=%v", describeSession(s), res.Accepted)
			r.Skel(fmt.Sprintf("est:%v", res.Accepted))
			if res.Accepted {
				r.Accepted++
			}
		case op == 2:
			s := live[r.Ch.Choose(len(live), "sess")]
			m := g.Modification(s)
			if r.Ch.Choose(8, "ul-far-update") == 1 {
				// the uplink FAR turns into a dropping one, or back into a forwarding one
				f := FARSpec{ID: 1, Action: ActDROP, DstIface: IfCore, HasFwd: true}
				if old := s.FAR(1); old != nil && old.Action&ActDROP != 0 {
					f.Action = ActFORW
				}
				m = &ModSpec{Tag: "uF:uplink", UpdateFAR: []*FARSpec{&f}}
			}
			if m.Empty() {
				continue
			}
			res := p.Modify(s, m)
			r.Op("modify %s -> accepted=%v", m.Describe(), res.Accepted)
			r.Skel(fmt.Sprintf("mod:%s:%v", m.Tag, res.Accepted))
		case op == 3:
			s := live[r.Ch.Choose(len(live), "sess")]
			res := p.Delete(s)
			r.Skel(fmt.Sprintf("del:%v", res.Accepted))
			if !res.Accepted {
				delete(p.Sessions, s.CPSEID)
			}
		case op == 4:
			req := &vsimenv.HTTPReq{Method: "POST", Path: "/v1/config/network-slices",
				Body: []byte(fmt.Sprintf(`{"sliceName":"s","sliceQos":{"uplinkMbr":%d,"downlinkMbr":%d,"bitrateUnit":"Kbps","uplinkBurstSize":%d,"downlinkBurstSize":%d}}`,
					g.rate(), g.rate(), r.Ch.Choose(1<<20, "b1"), r.Ch.Choose(1<<20, "b2")))}
			if r.W.HTTP.Submit(inc, req) {
				r.Sim.RunUntil(func() bool { return req.Done }, r.until(5*time.Second))
			}
			r.Skel("rest")
		}
		if len(r.W.P4.Invalid) > 0 {
			break
		}
	}
	_ = o
	reportInvalid(r, "C16")
	r.CheckNoPanics("C16")
}
