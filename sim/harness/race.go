package harness

// drainRaces collects race-detector reports written since the last call
// (race build only; see race_on.go).
func drainRaces() []string { return drainRaceLogs() }
