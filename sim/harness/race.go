package harness

import (
	"regexp"
	"sort"
	"strings"
)

// drainRaces collects race-detector reports written since the last call
// (race build only; see race_on.go).
func drainRaces() []string { return drainRaceLogs() }

type raceAccess struct {
	header  string
	frames  []string // function names, innermost first
	files   []string
	harness bool
	fn      string // the agent function that made the access
}

var buildDirRe = regexp.MustCompile(`/tmp/upfsim-build\.[A-Za-z0-9]+/`)

// parseRace splits a report into its two accesses and classifies each: an
// access is the harness's own when it is made by the simulator goroutine, by an
// ephemeral probe goroutine or through the white-box bridge file.
func parseRace(rep string) (a [2]raceAccess, ok bool) {
	rep = buildDirRe.ReplaceAllString(rep, "")
	n := -1
	for _, ln := range strings.Split(rep, "\n") {
		t := strings.TrimSpace(ln)
		switch {
		case strings.HasPrefix(t, "Read at ") || strings.HasPrefix(t, "Write at ") || strings.HasPrefix(t, "Previous read at ") || strings.HasPrefix(t, "Previous write at "):
			n++
			if n > 1 {
				return a, true
			}
			a[n].header = t
			if strings.Contains(t, "main goroutine") {
				a[n].harness = true
			}
		case strings.HasPrefix(t, "Goroutine ") || t == "":
			if n >= 1 && (strings.HasPrefix(t, "Goroutine ")) {
				n = 2 // creation stacks follow: stop collecting
			}
		case n == 0 || n == 1:
			if strings.HasPrefix(ln, "      ") {
				a[n].files = append(a[n].files, t)
			} else {
				a[n].frames = append(a[n].frames, t)
			}
		}
	}
	if a[0].header == "" || a[1].header == "" {
		return a, false
	}
	for i := range a {
		for k, f := range a[i].frames {
			file := ""
			if k < len(a[i].files) {
				file = a[i].files[k]
			}
			if strings.Contains(f, "zzverif/vsim.Ephemeral") || strings.Contains(file, "zz_verif_bridge.go") || strings.Contains(f, "zzverif/harness.") {
				a[i].harness = true
			}
			if a[i].fn == "" && strings.Contains(file, "pfcpiface/") && !strings.Contains(file, "zz_verif_bridge.go") && !strings.Contains(f, "zzverif/") {
				a[i].fn = shortFn(f)
			}
		}
		if a[i].fn == "" && len(a[i].frames) > 0 {
			for _, f := range a[i].frames {
				if !strings.HasPrefix(f, "runtime.") && !strings.HasPrefix(f, "sync") {
					a[i].fn = shortFn(f)
					break
				}
			}
		}
	}
	return a, true
}

func shortFn(f string) string {
	f = strings.TrimSuffix(f, "()")
	f = strings.TrimPrefix(f, "github.com/omec-project/upf-epc/")
	return f
}

// raceViolations turns the agent-vs-agent reports into violations of prop and
// returns how many reports were dropped as harness-side.
func raceViolations(prop string, reps []string) (vs []Violation, dropped int) {
	for _, rep := range reps {
		a, ok := parseRace(rep)
		if !ok || a[0].harness || a[1].harness {
			dropped++
			continue
		}
		// the signature names the owners (receiver types) of the two accessing
		// functions: which pair of functions the runtime reports first for an
		// unguarded object depends on what the process reported before
		fns := []string{ownerOf(a[0].fn), ownerOf(a[1].fn)}
		sort.Strings(fns)
		msg := buildDirRe.ReplaceAllString(strings.TrimSpace(rep), "")
		vs = append(vs, Violation{Prop: prop, Sig: "data-race:" + fns[0] + "<->" + fns[1], Msg: "the race detector reports two agent goroutines touching the same memory with no lock or channel between them:\n" + firstLines(msg, 40)})
	}
	return
}

// ownerOf reduces "pkg.(*T).method.func1" to "pkg.(*T)" and "pkg.fn.func1" to "pkg.fn".
func ownerOf(fn string) string {
	if i := strings.Index(fn, ")."); i >= 0 {
		return fn[:i+1]
	}
	parts := strings.Split(fn, ".")
	if len(parts) > 2 {
		return strings.Join(parts[:2], ".")
	}
	return fn
}

// raceSigCompatible: two data-race signatures name at least one common owner.
func raceSigCompatible(a, b string) bool {
	if !strings.HasPrefix(a, "data-race:") || !strings.HasPrefix(b, "data-race:") {
		return false
	}
	for _, x := range strings.Split(strings.TrimPrefix(a, "data-race:"), "<->") {
		for _, y := range strings.Split(strings.TrimPrefix(b, "data-race:"), "<->") {
			if x == y {
				return true
			}
		}
	}
	return false
}
