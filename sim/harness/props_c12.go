package harness

import (
	"fmt"
	"github.com/omec-project/upf-epc/zzverif/vsim"
	"strings"
	"time"

	"github.com/wmnsk/go-pfcp/ie"
	"github.com/wmnsk/go-pfcp/message"
	"google.golang.org/grpc/connectivity"
)

func init() {
	Register(&PropDef{
		ID: "C12", QuickRuns: 6400, Level: "fault_enumeration",
		Rule:   "one run draws max_req_retries N (1,2,3,5; one run in twenty 255, the top of the range of the uint8 field, with three of the k), resp_timeout, heartbeat interval and feature flags, then runs one sub-scenario: (hb) for EVERY k in 1..N+1 a heartbeat cycle in which the peer answers exactly the k-th transmission, then a cycle with late / duplicated / wrong-sequence answers, then a cycle answered never: transmissions are counted and their spacing measured on the virtual clock at the peer; (peer-hb) heartbeats from the peer before and after association, Recovery Time Stamp stability and postponement of the agent's own heartbeat; (gate) Association Setup attempts with the datapath flapping between READY and not READY and feature bits vs configuration; (initiated) agent-initiated association towards a configured peer answering the k-th transmission or never. Non-trivial = at least one association and one dropped answer; distinct = different (sub-scenario, N, timeout, interval, k pattern, outcome). Also: peer port closed (ICMP) exactly at the first transmission of a heartbeat.",
		Assume: []string{"network latency is constant in this check (200 us each way) so that spacing can be judged to 2 ms", "'declared dead' is observed as delete commands at the simulated BESS and a fresh Association Setup being served"},
		Real:   CommonReal, Simulated: CommonSim,
		Scenario: scenarioC12,
	})
}

type txRec struct {
	seq uint32
	at  []int64
}

func scenarioC12(r *Run) {
	r.Conf = DefaultBESSConf()
	N := []uint8{1, 2, 3, 5}[r.Ch.Choose(4, "retries")]
	tout := []time.Duration{500 * time.Millisecond, time.Second, 2 * time.Second, 3 * time.Second}[r.Ch.Choose(4, "timeout")]
	hbi := []time.Duration{time.Second, 5 * time.Second, 10 * time.Second}[r.Ch.Choose(3, "hbi")]
	if r.Ch.Choose(20, "max-retries") == 1 {
		// the top of the configurable range (the field is a uint8): 256 transmissions
		N, tout = 255, 500*time.Millisecond
		r.Probe("max-req-retries-255")
	}
	r.Conf.MaxReqRetries = N
	r.Conf.RespTimeout = tout.String()
	r.Conf.HeartBeatInterval = hbi.String()
	r.Conf.EnableHBTimer = true
	r.Conf.ReadTimeout = 3600 // the read timeout is not this property's trigger
	r.Conf.CPIface.EnableUeIPAlloc = r.Ch.Choose(2, "ueip") == 0
	r.Conf.EnableEndMarker = r.Ch.Choose(2, "em") == 0
	r.DrawStrategy()
	sub := r.Ch.Choose(4, "sub")
	r.Skel(fmt.Sprintf("sub%d N=%d t=%v hbi=%v", sub, N, tout, hbi))
	p := r.AddPeer()
	if sub == 3 {
		r.Conf.CPIface.Peers = []string{p.IP}
	}
	// record every heartbeat / association request transmission at the peer
	txs := map[string]*txRec{}
	var order []string
	answerAt := -1 // -1: answer all; 0: none; k: only the k-th transmission
	lateAnswer := false
	// atEdge: the answer to the k-th transmission is delayed so that it reaches
	// the agent right when that wait expires (and later transmissions are
	// answered at once): processed before or after the expiry, the request
	// has been answered
	atEdge := false
	edgeOff := time.Duration(0)
	note := func(m *RxMsg) (*txRec, int) {
		key := fmt.Sprintf("%d/%d", m.Msg.MessageType(), m.Msg.Sequence())
		t := txs[key]
		if t == nil {
			t = &txRec{seq: m.Msg.Sequence()}
			txs[key] = t
			order = append(order, key)
		}
		t.at = append(t.at, m.At)
		return t, len(t.at)
	}
	p.HBFilter = func(m *RxMsg) bool {
		_, n := note(m)
		if answerAt < 0 {
			return true
		}
		if answerAt == 0 {
			r.Fault("heartbeat-answer-dropped")
			return false
		}
		if n == answerAt {
			if atEdge {
				seq := m.Msg.Sequence()
				// aim at the very instant the agent's wait for this transmission
				// expires: the pending timer nearest to (sent + resp_timeout)
				lat := int64(r.W.Net.ToAgent.LatMin)
				target := m.At - lat + int64(tout)
				best := int64(0)
				for _, at := range r.Sim.TimersDue(r.Inc, int64(tout)+int64(time.Millisecond)) {
					d0, d1 := at-target, best-target
					if d0 < 0 {
						d0 = -d0
					}
					if d1 < 0 {
						d1 = -d1
					}
					if best == 0 || d0 < d1 {
						best = at
					}
				}
				if best == 0 || best-target > int64(time.Millisecond) || target-best > int64(time.Millisecond) {
					best = target
				}
				r.Sim.At(best-lat+int64(edgeOff), func() {
					p.SendMsg(message.NewHeartbeatResponse(seq, ie.NewRecoveryTimeStamp(p.TS)))
				})
				r.Fault("answer-at-retransmission-instant")
				return false
			}
			return true
		}
		if atEdge && n > answerAt {
			return true
		}
		r.Fault("heartbeat-answer-dropped")
		return false
	}
	_ = lateAnswer
	switch sub {
	case 0:
		c12Heartbeats(r, p, int(N), tout, hbi, &answerAt, txs, &order, &atEdge, &edgeOff)
	case 1:
		c12PeerHeartbeats(r, p, hbi, txs, &order)
	case 2:
		c12Gate(r, p)
	case 3:
		c12Initiated(r, p, int(N), tout)
	}
	r.CheckNoPanics("C12")
}

const c12Tol = 2 * time.Millisecond

// checkTx verifies count / spacing / sequence for one request's transmissions.
func checkTx(r *Run, what string, t *txRec, wantCount int, exact bool, N int, tout time.Duration) {
	if len(t.at) > 1+N {
		r.Violate("C12", "too-many-transmissions:"+what, "%s seq=%d transmitted %d times, max_req_retries=%d allows %d", what, t.seq, len(t.at), N, 1+N)
	}
	if exact && len(t.at) != wantCount {
		r.Violate("C12", "transmission-count:"+what, "%s seq=%d transmitted %d times, expected %d (max_req_retries=%d)", what, t.seq, len(t.at), wantCount, N)
	}
	for i := 1; i < len(t.at); i++ {
		d := time.Duration(t.at[i] - t.at[i-1])
		if d < tout-c12Tol || d > tout+c12Tol {
			r.Violate("C12", "retransmission-spacing:"+what, "%s seq=%d: transmissions %d and %d are %v apart, resp_timeout is %v", what, t.seq, i, i+1, d, tout)
		}
	}
}

func c12Heartbeats(r *Run, p *Peer, N int, tout, hbi time.Duration, answerAt *int, txs map[string]*txRec, order *[]string, atEdge *bool, edgeOff *time.Duration) {
	r.StartAgent()
	if !r.AgentAlive() || p.Associate() == nil {
		r.Violate("C12", "no-association", "association failed")
		return
	}
	g := NewGen(r)
	g.PlainQER = true
	ns := r.Ch.Choose(3, "nsess")
	for i := 0; i < ns; i++ {
		if res := p.Establish(g.Session(p, SessShape{NQER: r.Ch.Choose(2, "nq")})); res.Accepted {
			r.Accepted++
		}
	}
	r.Accepted++
	if r.Ch.Choose(6, "seq-wrap") == 1 {
		// long-lived association: the agent's request counter is about to pass the
		// 24 bits a PFCP sequence number has on the wire (white-box: the counter is
		// placed; reaching it takes 16 million heartbeats and reports). The cycles
		// below must go on as before: an answer carries the number that was on the wire.
		next := uint32(1<<24) - uint32(r.Ch.Choose(4, "seq-before-wrap"))
		a := r.Agent
		set := 0
		vsim.Ephemeral(func() { set = a.VerifSetSeqCursor(next) })
		if set > 0 {
			r.Probe("sequence-counter-placed-before-24-bit-wrap")
			r.Skel("seq-wrap")
			r.Op("the agent's sequence counter is placed at %d (2^24 = %d)", next, 1<<24)
		} else {
			r.Probe("whitebox-probe-unknown:seq-cursor")
		}
	}
	// cycles: every k in 1..N+1, in a drawn order
	ks := make([]int, 0, N+1)
	for k := 1; k <= N+1; k++ {
		ks = append(ks, k)
	}
	for i := 0; i+1 < len(ks); i++ {
		j := i + r.Ch.Choose(len(ks)-i, "korder")
		ks[i], ks[j] = ks[j], ks[i]
	}
	if N > 16 {
		// not every k: the last transmission, the first, and one in between
		ks = []int{N + 1, 1, 2 + r.Ch.Choose(N-1, "k-mid")}
	}
	cycle := func(k int, variant string) *txRec {
		before := len(*order)
		*answerAt = k
		// run until a new heartbeat request has been seen and its fate is decided
		deadline := r.until(hbi + time.Duration(N+2)*tout + time.Second)
		r.Sim.RunUntil(func() bool {
			if len(*order) <= before {
				return false
			}
			t := txs[(*order)[before]]
			if k > 0 {
				return len(t.at) >= k
			}
			return false
		}, deadline)
		if len(*order) <= before {
			if r.AgentAlive() {
				r.Violate("C12", "no-heartbeat", "no Heartbeat Request from the agent within %v (interval %v)", hbi+time.Duration(N+2)*tout+time.Second, hbi)
			}
			return nil
		}
		t := txs[(*order)[before]]
		// after the answer nothing more may be transmitted for this request
		*answerAt = -1
		switch variant {
		case "dup":
			p.SendMsg(message.NewHeartbeatResponse(t.seq, ie.NewRecoveryTimeStamp(p.TS)))
			r.Fault("duplicated-answer")
		case "wrongseq":
			p.SendMsg(message.NewHeartbeatResponse(t.seq+1000, ie.NewRecoveryTimeStamp(p.TS)))
			r.Fault("wrong-sequence-answer")
		}
		r.Sim.RunFor(tout + 100*time.Millisecond)
		return t
	}
	if r.Ch.Choose(4, "port-closed-at-first-transmission") == 1 {
		// The peer's PFCP port is closed when the agent's Heartbeat Request arrives
		// (control plane restarting): ICMP port unreachable, the agent's next read
		// fails once with ECONNREFUSED. The peer is back for the retransmission and
		// answers it: the request was answered, the association and its sessions stay.
		before := len(*order)
		*answerAt = 0
		r.W.Net.SetDown(p.Addr, true)
		r.Sim.RunUntil(func() bool { return r.W.Net.Stats["econnrefused"] > 0 }, r.until(hbi+tout/2))
		r.W.Net.SetDown(p.Addr, false)
		*answerAt = -1
		r.Fault("peer-port-closed-at-first-transmission")
		r.Skel("port-closed")
		delBefore := countDeletes(r)
		r.Sim.RunFor(time.Duration(N+2)*tout + 200*time.Millisecond)
		r.Op("peer port closed while the agent's heartbeat arrived (ECONNREFUSED seen: %v), open again for the retransmission; %d new heartbeat request(s) seen", r.W.Net.Stats["econnrefused"] > 0, len(*order)-before)
		if r.W.Net.Stats["econnrefused"] > 0 {
			if p.Heartbeat() == nil && r.AgentAlive() {
				r.Violate("C12", "association-lost-although-answered", "the first transmission of a heartbeat hit the peer's closed port (ECONNREFUSED on the agent's socket), the retransmission was answered; the association no longer answers heartbeats\n%s", strings.Join(r.Sim.BlockedTable(), "\n"))
				return
			}
			if len(p.Sessions) > 0 && countDeletes(r) > delBefore {
				r.Violate("C12", "sessions-removed-although-answered", "sessions were removed from the datapath although the retransmission of the heartbeat was answered (its first transmission had hit the peer's closed port)")
				return
			}
		}
	}
	if r.Ch.Choose(4, "reassociate-during-heartbeat") == 1 {
		// the control plane repeats its Association Setup (restart on the same
		// address, or a duplicated datagram) while a Heartbeat Request of the agent is
		// outstanding, and answers that heartbeat afterwards: the association must go on
		before := len(*order)
		*answerAt = 0 // sit on the next heartbeat
		r.Sim.RunUntil(func() bool { return len(*order) > before }, r.until(hbi+time.Duration(N+2)*tout+time.Second))
		if len(*order) > before && r.AgentAlive() {
			t := txs[(*order)[before]]
			r.Sim.RunFor(time.Duration(r.Ch.Choose(int(tout/time.Millisecond)/2+1, "reassoc-after-ms")) * time.Millisecond)
			as := p.Associate()
			*answerAt = -1
			r.Sim.RunFor(time.Duration(r.Ch.Choose(50, "late-ms")) * time.Millisecond)
			p.SendMsg(message.NewHeartbeatResponse(t.seq, ie.NewRecoveryTimeStamp(p.TS)))
			r.Fault("late-heartbeat-answer-after-reassociation")
			r.Skel("reassoc-during-hb")
			r.Op("Association Setup repeated while heartbeat seq=%d was outstanding (answered: %v), heartbeat answered afterwards", t.seq, as != nil)
			r.Sim.RunFor(tout + 100*time.Millisecond)
			if as != nil {
				if p.Heartbeat() == nil && r.AgentAlive() {
					r.Violate("C12", "association-lost-although-answered", "after a repeated Association Setup and the late answer to heartbeat seq=%d the association no longer answers heartbeats\n%s", t.seq, strings.Join(r.Sim.BlockedTable(), "\n"))
					return
				}
				// let a full heartbeat cycle of the new monitor pass: the peer must not be declared dead
				delBefore := countDeletes(r)
				r.Sim.RunFor(hbi + time.Duration(N+2)*tout)
				if len(p.Sessions) > 0 && countDeletes(r) > delBefore {
					r.Violate("C12", "sessions-removed-although-answered", "sessions were removed from the datapath although every heartbeat was answered (repeated Association Setup during an outstanding heartbeat)")
					return
				}
			}
		}
		*answerAt = -1
	}
	for _, k := range ks {
		variant := []string{"", "", "dup", "wrongseq", "edge"}[r.Ch.Choose(5, "variant")]
		*atEdge = variant == "edge" && k <= N
		if *atEdge {
			// mostly the exact instant (the timer's task and the reader then run
			// against each other), sometimes a little before or after
			switch c := r.Ch.Choose(12, "edge"); {
			case c < 6:
				*edgeOff = 0
			case c < 9:
				*edgeOff = []time.Duration{1, -1, 3}[c-6]
			case c < 11:
				*edgeOff = []time.Duration{40 * time.Microsecond, -40 * time.Microsecond}[c-9]
			default:
				*edgeOff = time.Duration(r.Ch.Choose(200, "edge-us")-100) * time.Microsecond
			}
		} else if variant == "edge" {
			variant = ""
		}
		t := cycle(k, variant)
		*atEdge = false
		if t == nil || len(r.Violations) > 0 {
			return
		}
		r.Skel(fmt.Sprintf("k=%d%s", k, variant))
		r.Op("heartbeat cycle: answer transmission %d of %d (%s): %d transmissions seen", k, N+1, variant, len(t.at))
		if variant == "edge" {
			// k or k+1 transmissions, depending on which side of the expiry the answer fell
			if len(t.at) != k && len(t.at) != k+1 {
				r.Violate("C12", "transmission-count:heartbeat-edge", "answer to transmission %d arrived at the retransmission instant: %d transmissions seen, %d or %d expected", k, len(t.at), k, k+1)
			}
			checkTx(r, "heartbeat", t, 0, false, N, tout)
		} else {
			checkTx(r, "heartbeat", t, k, true, N, tout)
		}
		// still associated: sessions intact, peer heartbeat answered
		if p.Heartbeat() == nil && r.AgentAlive() {
			r.Violate("C12", "association-lost-although-answered", "after the %d-th transmission was answered the association no longer answers heartbeats\n%s", k, strings.Join(r.Sim.BlockedTable(), "\n"))
			return
		}
		if len(p.Sessions) > 0 && len(r.W.Bess.FAR) == 0 {
			r.Violate("C12", "sessions-removed-although-answered", "sessions were removed from the datapath although transmission %d of %d was answered", k, N+1)
			return
		}
	}
	// wrong-sequence answers only: must be treated as unanswered -> but we then answer the last one
	// finally: never answered -> exactly N+1 transmissions, peer declared dead
	before := len(*order)
	delBefore := countDeletes(r)
	*answerAt = 0
	late := r.Ch.Choose(2, "late") == 1
	r.Sim.RunUntil(func() bool {
		return len(*order) > before && len(txs[(*order)[before]].at) >= N+1
	}, r.until(hbi+time.Duration(N+3)*tout))
	if len(*order) <= before {
		r.Violate("C12", "no-heartbeat", "no Heartbeat Request in the unanswered cycle")
		return
	}
	t := txs[(*order)[before]]
	r.Sim.RunFor(tout + 500*time.Millisecond) // last wait + teardown
	r.Op("heartbeat cycle: never answered: %d transmissions seen", len(t.at))
	r.Skel("k=none")
	checkTx(r, "heartbeat", t, N+1, true, N, tout)
	if late {
		// the answer arrives after the agent gave up
		p.SendMsg(message.NewHeartbeatResponse(t.seq, ie.NewRecoveryTimeStamp(p.TS)))
		r.Fault("late-answer-after-give-up")
		r.Sim.RunFor(200 * time.Millisecond)
	}
	*answerAt = -1
	// declared dead: sessions deleted at the datapath, association forgotten
	if len(p.Sessions) > 0 {
		if len(r.W.Bess.FAR) != 0 || len(r.W.Bess.PDR) != 0 {
			r.Violate("C12", "dead-peer-sessions-not-removed", "all %d transmissions went unanswered but %d PDR / %d FAR entries of the peer's sessions are still installed (%d delete commands seen)", N+1, len(r.W.Bess.PDR), len(r.W.Bess.FAR), countDeletes(r)-delBefore)
			return
		}
	}
	oldSessions := p.Sessions
	p.Sessions = map[uint64]*CPSession{}
	p.Associated = false
	// the old UP SEIDs are unknown now, and the peer can associate afresh
	if p.Associate() == nil {
		if r.AgentAlive() {
			r.Violate("C12", "dead-peer-cannot-reassociate", "after being declared dead the peer's fresh Association Setup got no accepted answer\n%s", strings.Join(r.Sim.BlockedTable(), "\n"))
		}
		return
	}
	var oldIDs []uint64
	for id := range oldSessions {
		oldIDs = append(oldIDs, id)
	}
	sortU64(oldIDs)
	for _, id := range oldIDs {
		s := oldSessions[id]
		rx := p.Request(p.DeleteMsg(s.UPSEID), 5*time.Second)
		if rx != nil {
			if c, _ := CauseOf(rx.Msg); c == ie.CauseRequestAccepted {
				r.Violate("C12", "dead-peer-association-not-forgotten", "a session of the dead association (up=%d) is still known after re-association", s.UPSEID)
			}
		}
		break
	}
	if res := p.Establish(g.Session(p, SessShape{})); !res.Accepted && r.AgentAlive() {
		r.Violate("C12", "reassociated-peer-not-served", "establishment after re-association was not accepted (cause %d)", res.Cause)
	}
}

func countDeletes(r *Run) int {
	n := 0
	for _, c := range r.W.Bess.Cmds {
		if c.Cmd == "delete" {
			n++
		}
	}
	return n
}

func recoveryTS(m message.Message) (time.Time, bool) {
	var x *ie.IE
	switch v := m.(type) {
	case *message.HeartbeatResponse:
		x = v.RecoveryTimeStamp
	case *message.HeartbeatRequest:
		x = v.RecoveryTimeStamp
	case *message.AssociationSetupResponse:
		x = v.RecoveryTimeStamp
	case *message.AssociationSetupRequest:
		x = v.RecoveryTimeStamp
	}
	if x == nil {
		return time.Time{}, false
	}
	t, err := x.RecoveryTimeStamp()
	return t, err == nil
}

func c12PeerHeartbeats(r *Run, p *Peer, hbi time.Duration, txs map[string]*txRec, order *[]string) {
	r.StartAgent()
	if !r.AgentAlive() {
		return
	}
	var stamps []time.Time
	hb := func(ctx string) bool {
		rx := p.Heartbeat()
		if rx == nil {
			if r.AgentAlive() {
				r.Violate("C12", "peer-heartbeat-unanswered:"+ctx, "Heartbeat Request from the peer %s got no answer", ctx)
			}
			return false
		}
		if ts, ok := recoveryTS(rx.Msg); ok {
			stamps = append(stamps, ts)
		} else {
			r.Violate("C12", "heartbeat-response-without-recovery-ts", "Heartbeat Response %s lacks a Recovery Time Stamp", ctx)
		}
		return true
	}
	// before association (the first datagram creates the connection)
	nb := r.Ch.Choose(4, "nbefore")
	many := nb == 3
	if many {
		// a peer that keeps probing for a long time before it associates (its
		// set-up was refused earlier, or the agent was restarted under it)
		nb = 95 + r.Ch.Choose(40, "nbefore-many")
		r.Probe("many-heartbeats-before-association")
	}
	for i := 0; i < nb; i++ {
		if !hb("before association") {
			return
		}
		if many {
			r.Sim.RunFor(time.Duration(1+r.Ch.Choose(20, "gap-ms")) * time.Millisecond)
		} else {
			r.Sim.RunFor(time.Duration(r.Ch.Choose(3000, "gap")) * time.Millisecond)
		}
	}
	as := p.Associate()
	if as == nil {
		r.Violate("C12", "no-association", "association failed")
		return
	}
	r.Accepted++
	if ts, ok := recoveryTS(as); ok {
		stamps = append(stamps, ts)
	}
	// after association: peer heartbeats at drawn offsets; each must postpone the agent's own
	for i := 0; i < 2+r.Ch.Choose(4, "nafter"); i++ {
		wait := time.Duration(r.Ch.Choose(int(hbi/time.Millisecond), "offset")) * time.Millisecond
		r.Sim.RunFor(wait)
		sentAt := r.Sim.NowNS()
		nBefore := len(*order)
		if !hb("after association") {
			return
		}
		// next agent heartbeat must not be sent earlier than one interval after the peer's
		r.Sim.RunUntil(func() bool { return len(*order) > nBefore }, r.until(2*hbi+time.Second))
		if len(*order) > nBefore {
			t := txs[(*order)[nBefore]]
			gap := time.Duration(t.at[0] - sentAt)
			r.Op("peer heartbeat at %.3fs, agent's next heartbeat %.3fs later (interval %v)", float64(sentAt)/1e9, gap.Seconds(), hbi)
			if gap < hbi-c12Tol {
				r.Violate("C12", "heartbeat-not-postponed", "the peer's Heartbeat Request was processed at t=%.4fs but the agent sent its own next heartbeat only %v later (interval %v)", float64(sentAt)/1e9, gap, hbi)
				return
			}
			r.Probe("peer-heartbeat-postponed-agent-heartbeat")
		} else if r.AgentAlive() {
			r.Violate("C12", "no-heartbeat", "no agent heartbeat within two intervals after the peer's heartbeat")
			return
		}
	}
	for _, m := range p.Rx {
		if m.Err == nil {
			if ts, ok := recoveryTS(m.Msg); ok {
				stamps = append(stamps, ts)
			}
		}
	}
	for _, s := range stamps {
		if !s.Equal(stamps[0]) {
			r.Violate("C12", "recovery-timestamp-changed", "Recovery Time Stamp changed during the life of the association: %v vs %v", stamps[0], s)
			return
		}
	}
	r.Skel(fmt.Sprintf("peer-hb before=%d", nb))
}

func c12Gate(r *Run, p *Peer) {
	r.StartAgent()
	if !r.AgentAlive() {
		return
	}
	states := []connectivity.State{connectivity.Ready, connectivity.Idle, connectivity.Connecting, connectivity.TransientFailure, connectivity.Shutdown}
	everAccepted := false
	for i := 0; i < 3+r.Ch.Choose(5, "nattempts"); i++ {
		st := states[r.Ch.Choose(len(states), "dpstate")]
		r.W.Bess.State = st
		if st != connectivity.Ready {
			r.Fault("datapath-down")
		}
		// the state may flip while the request is in flight: what counts is the state when it is processed
		flip := r.Ch.Choose(4, "flip") == 1
		// the peer's Recovery Time Stamp may have moved on (it restarted) or back (its
		// clock was set back): acceptance depends on the datapath alone
		switch r.Ch.Choose(5, "ts-shift") {
		case 1:
			p.TS = p.TS.Add(time.Duration(1+r.Ch.Choose(3600, "ts-fwd")) * time.Second)
		case 2:
			p.TS = p.TS.Add(-time.Duration(1+r.Ch.Choose(3600, "ts-back")) * time.Second)
			r.Probe("association-setup-with-older-recovery-time-stamp")
		}
		m := p.AssocSetupMsg()
		p.SendMsg(m)
		if flip {
			// before arrival (latency 200us)
			r.Sim.RunFor(50 * time.Microsecond)
			st = states[r.Ch.Choose(len(states), "dpstate2")]
			r.W.Bess.State = st
			r.Probe("datapath-flapped-while-request-in-flight")
		}
		var rx *RxMsg
		r.Sim.RunUntil(func() bool {
			rx = p.FindResponse(message.MsgTypeAssociationSetupResponse, m.Sequence())
			return rx != nil
		}, r.until(5*time.Second))
		if rx == nil {
			if r.AgentAlive() {
				r.Violate("C12", "association-setup-unanswered", "Association Setup Request got no response (datapath state %v)", st)
			}
			return
		}
		rx.Used = true
		ar := rx.Msg.(*message.AssociationSetupResponse)
		c, _ := CauseOf(ar)
		accepted := c == ie.CauseRequestAccepted
		r.Op("association attempt with datapath %v -> cause %d", st, c)
		r.Skel(fmt.Sprintf("gate:%v:%v", st == connectivity.Ready, accepted))
		if accepted != (st == connectivity.Ready) {
			r.Violate("C12", fmt.Sprintf("association-gate:ready=%v:accepted=%v", st == connectivity.Ready, accepted), "datapath state %v when the Association Setup Request was processed, answered with cause %d", st, c)
			return
		}
		if accepted {
			r.Accepted++
			everAccepted = true
		} else if !everAccepted && r.Ch.Choose(2, "establish-after-refusal") == 1 {
			// the set-up was refused, so there is no association: a Session
			// Establishment sent now - the datapath is up again - must be refused too
			r.W.Bess.State = connectivity.Ready
			g := NewGen(r)
			g.PlainQER = true
			res := p.Establish(g.Session(p, SessShape{}))
			r.Op("Session Establishment after the refused Association Setup (datapath up again) -> accepted=%v cause=%d", res.Accepted, res.Cause)
			r.Skel(fmt.Sprintf("est-after-refused-setup:%v", res.Accepted))
			if res.Accepted {
				r.Violate("C12", "association-gate:refused-setup-left-an-association", "the Association Setup Request was refused (datapath %v) but a Session Establishment Request sent afterwards was accepted: the refused set-up had created the association", st)
				return
			}
		}
		if ar.UPFunctionFeatures == nil {
			r.Violate("C12", "features-missing", "Association Setup Response without UP Function Features (cause %d)", c)
			return
		}
		f := ar.UPFunctionFeatures
		if !f.HasFTUP() || f.HasUEIP() != r.Conf.CPIface.EnableUeIPAlloc || f.HasEMPU() != r.Conf.EnableEndMarker {
			r.Violate("C12", "features-mismatch", "advertised FTUP=%v UEIP=%v EMPU=%v; configuration: ue ip alloc=%v end markers=%v (cause %d)",
				f.HasFTUP(), f.HasUEIP(), f.HasEMPU(), r.Conf.CPIface.EnableUeIPAlloc, r.Conf.EnableEndMarker, c)
			return
		}
		r.Sim.RunFor(time.Duration(r.Ch.Choose(500, "pause")) * time.Millisecond)
	}
	r.W.Bess.State = connectivity.Ready
}

func c12Initiated(r *Run, p *Peer, N int, tout time.Duration) {
	// the peer answers the k-th transmission of the agent's Association Setup Request, or never
	k := r.Ch.Choose(N+2, "k") // 0 = never
	// crossing set-ups: when the agent's first transmission arrives the peer sends an
	// Association Setup Request of its own (both ends were configured to initiate);
	// the agent accepts it, its heartbeats start - and its own request is still
	// answered by the k-th transmission only, which must end the retransmissions
	cross := k >= 2 && r.Ch.Choose(3, "crossing-setups") == 1
	var txAt []int64
	var seqs []uint32
	answered := false
	p.r.W.Net.Register(p.Addr, func(src string, data []byte) {
		m, err := message.Parse(data)
		rec := &RxMsg{At: r.Sim.NowNS(), Stamp: r.W.NextStamp(), Raw: data, Msg: m, Err: err}
		p.Rx = append(p.Rx, rec)
		if err != nil {
			return
		}
		if req, ok := m.(*message.AssociationSetupRequest); ok {
			txAt = append(txAt, rec.At)
			seqs = append(seqs, req.SequenceNumber)
			if cross && len(txAt) == 1 {
				p.SendMsg(p.AssocSetupMsg())
				r.Probe("crossing-association-setups")
			}
			if k != 0 && len(txAt) == k {
				answered = true
				p.SendMsg(message.NewAssociationSetupResponse(req.SequenceNumber, ie.NewNodeID(p.NodeID, "", ""), ie.NewCause(ie.CauseRequestAccepted), ie.NewRecoveryTimeStamp(p.TS)))
			} else {
				r.Fault("association-answer-dropped")
			}
			return
		}
		if hb, ok := m.(*message.HeartbeatRequest); ok {
			p.SendMsg(message.NewHeartbeatResponse(hb.SequenceNumber, ie.NewRecoveryTimeStamp(p.TS)))
		}
	})
	r.StartAgent()
	if !r.AgentAlive() {
		return
	}
	r.Sim.RunFor(time.Duration(N+2)*tout + time.Second)
	r.Op("agent-initiated association: answer transmission %d of %d: %d transmissions seen", k, N+1, len(txAt))
	r.Skel(fmt.Sprintf("init k=%d", k))
	if len(txAt) == 0 {
		r.Violate("C12", "initiated-association-not-sent", "a peer is configured but no Association Setup Request was transmitted")
		return
	}
	t := &txRec{seq: seqs[0], at: txAt}
	for _, s := range seqs {
		if s != seqs[0] {
			r.Violate("C12", "retransmission-new-sequence:association", "retransmissions of the Association Setup Request carry sequence numbers %v", seqs)
			return
		}
	}
	want := k
	if k == 0 {
		want = N + 1
	}
	checkTx(r, "association", t, want, true, N, tout)
	if answered {
		r.Accepted++
		// the association works: heartbeats flow
		hbSeen := false
		r.Sim.RunUntil(func() bool {
			for _, m := range p.Rx {
				if m.Err == nil && m.Msg.MessageType() == message.MsgTypeHeartbeatRequest {
					hbSeen = true
				}
			}
			return hbSeen
		}, r.until(25*time.Second))
		if !hbSeen && r.AgentAlive() {
			r.Violate("C12", "initiated-association-no-heartbeat", "the agent-initiated association was accepted but no heartbeat followed")
		}
	}
}
