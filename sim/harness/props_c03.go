package harness

import (
	"fmt"
	"time"

	"github.com/wmnsk/go-pfcp/ie"
	"github.com/wmnsk/go-pfcp/message"
)

func init() {
	Register(&PropDef{
		ID: "C03", QuickRuns: 2400, Level: "exploration",
		Rule: "one run = seeded history of establishment / modification (create, update, remove of PDRs, FARs, QERs) / deletion / unknown-session and no-association requests over 1-4 sessions and 1-2 associations on the BESS datapath, optionally with kill -9 of the agent at a drawn scheduler step and restart against the populated datapath; after every accepted response the simulated BESS modules are compared with the reference image (classification of boundary-value packets around every live rule and every installed entry; exact FAR / QER entry sets). Non-trivial = at least one accepted session operation and at least one of {injected fault, statement-level pre-emption, >20 task switches}; distinct = different event skeleton (sequence of operation kinds, outcomes and fault kinds). Also: Association Setup repeated on a live association; a modification refused half-way followed by an accepted Update FAR restating the FAR; an update-only modification refused while it is read (Update PDR with another filter + unreadable Update FAR), then the deletion of the session.",
		Assume: []string{"BESS module semantics as modelled (WildcardMatch upsert keyed by masked values+masks, highest priority wins; ExactMatch / Qos keyed by fields; delete of an absent key is an error reply)",
			"valid generators stay inside the supported IPv4 envelope of DESIGN.md section 5.8", "datapath write failures and RPC latency beyond the join timeout are outside this property's quantifier"},
		Real: CommonReal, Simulated: CommonSim,
		Scenario: scenarioC03,
	})
}

type histCfg struct {
	prop         string
	maxOps       int
	allowKill    bool
	checkImage   func(ctx, cause string)
	afterAccept  func()
	up4          bool
	afterRestart func() bool
	// beforeRestart may change the configuration the next incarnation starts with
	beforeRestart func()
}

func scenarioC03(r *Run) {
	r.FirstOnly = true
	r.Conf = DefaultBESSConf()
	r.Conf.EnableHBTimer = r.Ch.Choose(3, "hb") == 1
	r.Conf.CPIface.UEIPPool = []string{"10.60.0.0/24", "10.60.1.0/28"}[r.Ch.Choose(2, "pool")]
	r.DrawStrategy()
	// RPC latency jitter lets the per-rule goroutines interleave at the daemon
	r.W.Bess.Faults.LatJit = []time.Duration{0, 50 * time.Microsecond, 400 * time.Microsecond}[r.Ch.Choose(3, "rpcjit")]
	if r.Ch.Choose(4, "lost-responses") == 1 {
		// now and then the response of an RPC is lost after the daemon applied the
		// command (the plug-in sees an error): what the tables hold is unaffected
		r.W.Bess.Faults.FailDen, r.W.Bess.Faults.FailLostResp = []int{8, 20}[r.Ch.Choose(2, "lost-den")], true
	}
	npeers := 1 + r.Ch.Choose(2, "npeers")
	for i := 0; i < npeers; i++ {
		r.AddPeer()
	}
	r.StartAgent()
	if !r.AgentAlive() {
		r.CheckNoPanics("C03")
		return
	}
	for _, p := range r.Peers {
		if p.AssociateRetry() == nil {
			r.Violate("C03", "no-association-response", "Association Setup got no response")
			return
		}
	}
	g := NewGen(r)
	g.PlainQER = true
	g.DrawAvoid()
	g.PDIOrders = true
	g.ThreeQERs = true
	runHistory(r, g, histCfg{prop: "C03", maxOps: 3 + r.Ch.Choose(12, "nops"), allowKill: true,
		checkImage: func(ctx, cause string) { r.CheckBESSImage("C03", ctx, cause) },
		beforeRestart: func() {
			// the datapath's unix sockets (downlink-data notifications, end markers)
			// may not be there when the new incarnation starts: it runs without
			// them, and must take over the tables all the same
			switch r.Ch.Choose(4, "unix-socket-missing") {
			case 1:
				r.W.Net.UnixOpen["/tmp/notifycp"] = false
				r.Fault("restart-without-notify-socket")
			case 2:
				r.W.Net.UnixOpen["/tmp/pfcpport"] = false
				r.Fault("restart-without-end-marker-socket")
			}
		}})
	r.CheckNoPanics("C03")
}

// slowDatapath: the run injects datapath RPCs that take seconds.
func slowDatapath(r *Run) bool { return r.W.P4.Faults.SlowDen > 0 || r.W.Bess.Faults.SlowDen > 0 }

// runHistory drives a seeded request history and checks the datapath image
// after every accepted response.
func runHistory(r *Run, g *Gen, hc histCfg) {
	killed := false
	idleDone := false
	for op := 0; op < hc.maxOps; op++ {
		if !r.AgentAlive() || r.Hard() > 0 {
			// one run reports its first discrepancy only: later ones would be
			// consequences of the diverged state, not findings of their own
			return
		}
		p := r.Peers[r.Ch.Choose(len(r.Peers), "peer")]
		live := r.LiveSessions()
		kind := r.Ch.Choose(8, "op")
		if len(live) > 0 && r.Ch.Choose(12, "assoc-setup-again") == 1 {
			// the control plane's Association Setup Request arrives once more on the
			// live association (a retransmission after a slow answer, a duplicate):
			// answered, and the sessions stay what they are
			q := live[r.Ch.Choose(len(live), "sess")].Peer
			as := q.Associate()
			r.Op("Association Setup Request of peer%d repeated on the live association -> answered=%v", q.Idx, as != nil)
			r.Skel("assoc-again")
			if as != nil {
				hc.checkImage(fmt.Sprintf("after the Association Setup Request of peer%d was repeated on its live association", q.Idx), "assoc-again")
			}
			continue
		}
		if !hc.up4 && !idleDone && len(live) > 0 && r.Ch.Choose(10, "idle-then-release") == 1 {
			kind = 8
		}
		if len(live) == 0 && (kind == 1 || kind == 2 || kind == 5) {
			kind = 0
		}
		if hc.up4 && hc.allowKill && !killed && r.Ch.Choose(60, "mass-attach-then-kill") == 1 {
			kind = 9
		}
		if len(live) >= 4 && kind == 0 {
			kind = 1
		}
		cmdsBefore := r.W.Bess.Calls
		if hc.up4 {
			cmdsBefore = r.W.P4.Writes
		}
		cmdsNow := func() int {
			if hc.up4 {
				return r.W.P4.Writes
			}
			return r.W.Bess.Calls
		}
		armKill := hc.allowKill && !killed && r.Ch.Choose(12, "kill") == 1
		if armKill {
			r.Sim.KillInc = r.Inc
			r.Sim.KillStep = r.Sim.Steps + 1 + uint64(r.Ch.Choose(2500, "killstep"))
			r.Skel("kill-armed")
		}
		switch kind {
		case 0, 6, 7: // establish
			sh := SessShape{UEAlloc: r.Ch.Choose(3, "uealloc") == 1, TEIDChoose: r.Ch.Choose(2, "choose") == 1,
				NQER: r.Ch.Choose(5, "nqer"), ExtraPDRs: r.Ch.Choose(3, "extra"), Wide: r.Ch.Choose(6, "wide") == 1}
			if g.UP4 && g.Avoid["up4-multi-pdr-session"] {
				sh.ExtraPDRs = 0
			}
			if g.UP4 && sh.ExtraPDRs == 0 && r.Ch.Choose(3, "base-sdf") == 1 {
				// one PDR pair that carries an application filter itself (no trigger involved)
				sh.BaseSDF = g.Flow(false)
			}
			s := g.Session(p, sh)
			res := p.Establish(s)
			if res.Rx == nil && r.AgentAlive() && slowDatapath(r) {
				// the peer gave up waiting while the agent is still at it: the model
				// cannot follow the agent any further in this run
				r.Inconclusive++
				return
			}
			if g.UP4 && sh.ExtraPDRs > 0 && res.Accepted {
				r.Taint(s.UPSEID, "up4-multi-pdr-session")
			}
			r.Op("establish peer%d cp=%d pdrs=%d fars=%d qers=%d choose=%v uealloc=%v -> accepted=%v cause=%d up=%d", p.Idx, s.CPSEID, len(s.PDRs), len(s.FARs), len(s.QERs), sh.TEIDChoose, sh.UEAlloc, res.Accepted, res.Cause, s.UPSEID)
			r.Skel(fmt.Sprintf("est:%v", res.Accepted))
			if res.Accepted {
				r.Accepted++
				cause := "est"
				if s.HasWidePortRange() {
					r.Probe("wide-port-range-accepted")
				}
				hc.checkImage(fmt.Sprintf("after establishment of cp=%d %s", s.CPSEID, describeSession(s)), cause)
			} else if res.Rx != nil && r.AgentAlive() {
				r.Probe("valid-establishment-rejected")
				if hc.up4 {
					// (cells or ids ran out half-way: what the attempt had taken by then
					// stays taken - the listed no-rollback finding)
					r.TaintRun("up4-refused-establishment")
				}
			}
		case 9: // P4Runtime: many sessions, each with a filter of its own, then kill -9 and
			// restart: the start-up clear meets tables with well over a hundred entries
			n := 21 + r.Ch.Choose(14, "mass-n")
			cnt := 0
			lastKA := r.Sim.NowNS()
			for i := 0; i < n && r.AgentAlive() && r.Hard() == 0; i++ {
				if r.Sim.NowNS()-lastKA > int64(4*time.Second) {
					// (slow writes stretch the attach over many seconds: the other peers
					// keep their associations alive meanwhile, or the read timeout ends them)
					lastKA = r.Sim.NowNS()
					for _, q := range r.Peers {
						if q != p && q.Associated {
							q.Heartbeat()
						}
					}
				}
				s := g.Session(p, SessShape{BaseSDF: g.Flow(false), TEIDChoose: true})
				res := p.Establish(s)
				r.Op("  establish peer%d cp=%d -> accepted=%v cause=%d up=%d", p.Idx, s.CPSEID, res.Accepted, res.Cause, s.UPSEID)
				if res.Rx == nil && r.AgentAlive() {
					// the peer gave up waiting (slow writes): the model cannot follow the agent any further
					r.Inconclusive++
					return
				}
				if !res.Accepted {
					if res.Rx != nil && r.AgentAlive() {
						r.TaintRun("up4-refused-establishment")
					}
					break
				}
				cnt++
				r.Accepted++
			}
			r.Op("%d sessions attached in a row (%d entries in the switch tables)", cnt, r.W.P4.EntryCount())
			r.Skel("mass-attach")
			r.Probe("mass-attach-before-kill")
			if r.AgentAlive() && r.Hard() == 0 {
				hc.checkImage(fmt.Sprintf("after %d sessions were attached in a row", cnt), "mass-attach")
			}
			if r.AgentAlive() && r.Hard() == 0 {
				r.Sim.Kill(r.Inc)
				armKill = true
			}
		case 1: // modify
			s := live[r.Ch.Choose(len(live), "sess")]
			if !hc.up4 && !armKill && s.FAR(2) != nil && r.Ch.Choose(8, "half-way") == 1 {
				// A modification that is refused half-way (its Update FAR is written, then
				// its Remove PDR names an unknown rule), followed by an accepted Update FAR
				// that states the FAR as it was: after that one the datapath must hold the
				// FAR the control plane stated last, whatever the refused request had written.
				was := *s.FAR(2)
				was.EndMarker = false
				was.HasFwd = true // (the agent refuses an Update FAR without Update Forwarding Parameters)
				g.nextTEID++
				other := FARSpec{ID: 2, Action: ActFORW, DstIface: IfAccess, HasFwd: true, HasOHC: true, TEID: g.nextTEID, PeerIP: g.gnbs[r.Ch.Choose(len(g.gnbs), "gnb")]}
				if was.HasOHC && r.Ch.Choose(2, "hw-kind") == 1 {
					other = FARSpec{ID: 2, Action: ActBUFF | ActNOCP, DstIface: IfAccess, HasFwd: true}
				}
				m1 := &ModSpec{UpdateFAR: []*FARSpec{&other}, RemovePDR: []uint16{999}, Tag: "uF+rP:unknown"}
				res1 := s.Peer.Modify(s, m1)
				r.Op("modify cp=%d up=%d %s -> accepted=%v cause=%d", s.CPSEID, s.UPSEID, m1.Describe(), res1.Accepted, res1.Cause)
				if res1.Rx == nil || res1.Accepted || !r.AgentAlive() {
					// (accepted: not this property's business, but the history no longer
					// says what the session's rules are)
					r.Inconclusive++
					return
				}
				m2 := &ModSpec{UpdateFAR: []*FARSpec{&was}, Tag: "uF:restated-after-refusal"}
				res2 := s.Peer.Modify(s, m2)
				r.Op("modify cp=%d up=%d %s -> accepted=%v cause=%d", s.CPSEID, s.UPSEID, m2.Describe(), res2.Accepted, res2.Cause)
				r.Skel(fmt.Sprintf("mod:half-way-then-restated:%v", res2.Accepted))
				if res2.Rx == nil || !res2.Accepted {
					// the datapath may hold what the refused request wrote: nothing to judge by
					r.Inconclusive++
					return
				}
				if res2.Accepted {
					r.Accepted++
					r.Probe("far-restated-after-half-way-refusal")
					hc.checkImage(fmt.Sprintf("after an Update FAR that restated FAR 2 of cp=%d as it was before a modification that was refused half-way (its Update FAR had been written)", s.CPSEID), "mod:"+m2.Tag)
				}
				continue
			}
			if !armKill && r.Ch.Choose(10, "refused-update-only") == 1 {
				// An update-only modification that is refused while it is being read (its
				// Update PDR changes the filter, its Update FAR has no forwarding
				// parameters): nothing is written and the session must stay as it was -
				// the deletion that follows has to take every entry out again.
				up := s.PDRs[r.Ch.Choose(len(s.PDRs), "ruo-pdr")].clone()
				if up.TEIDChoose {
					up.TEIDChoose, up.TEID, up.TEIDAddr = false, up.GotTEID, ip4(N3Addr)
				}
				if up.UEIPAlloc {
					up.UEIPAlloc, up.UEIP = false, up.GotUEIP
				}
				up.SDF = g.Flow(false)
				m1 := &ModSpec{UpdatePDR: []*PDRSpec{up}, UpdateFAR: []*FARSpec{{ID: 2, Action: ActFORW, DstIface: IfAccess}}, Tag: "uP:filter+uF:unreadable"}
				res1 := s.Peer.Modify(s, m1)
				r.Op("modify cp=%d up=%d %s -> accepted=%v cause=%d", s.CPSEID, s.UPSEID, m1.Describe(), res1.Accepted, res1.Cause)
				if res1.Rx == nil || res1.Accepted || !r.AgentAlive() {
					r.Inconclusive++
					return
				}
				r.Probe("update-only-modification-refused-while-read")
				hc.checkImage(fmt.Sprintf("after an update-only modification of cp=%d that was refused", s.CPSEID), "mod:refused-update-only")
				res2 := s.Peer.Delete(s)
				r.Op("delete cp=%d up=%d -> accepted=%v", s.CPSEID, s.UPSEID, res2.Accepted)
				r.Skel(fmt.Sprintf("mod:refused-update-only-then-del:%v", res2.Accepted))
				if res2.Accepted {
					r.Accepted++
					hc.checkImage(fmt.Sprintf("after deletion of cp=%d, which followed an update-only modification that was refused", s.CPSEID), "del:after-refused-update-only")
				} else if res2.Rx != nil && r.AgentAlive() {
					r.Probe("valid-deletion-rejected")
					r.RejectedValid(s.UPSEID)
				}
				continue
			}
			m := g.Modification(s)
			if m.Empty() {
				continue
			}
			if m.Trigger != "" {
				r.Taint(s.UPSEID, m.Trigger)
			}
			res := s.Peer.Modify(s, m)
			if res.Rx == nil && r.AgentAlive() && slowDatapath(r) {
				r.Inconclusive++
				return
			}
			r.Op("modify cp=%d up=%d %s -> accepted=%v cause=%d", s.CPSEID, s.UPSEID, m.Describe(), res.Accepted, res.Cause)
			r.Skel(fmt.Sprintf("mod:%s:%v", m.Tag, res.Accepted))
			if res.Accepted {
				r.Accepted++
				hc.checkImage(fmt.Sprintf("after modification %s of cp=%d", m.Describe(), s.CPSEID), "mod:"+m.Tag)
			} else if res.Rx != nil && r.AgentAlive() {
				r.Probe("valid-modification-rejected:" + m.Tag)
				r.RejectedValid(s.UPSEID)
			}
		case 2: // delete
			s := live[r.Ch.Choose(len(live), "sess")]
			res := s.Peer.Delete(s)
			if res.Rx == nil && r.AgentAlive() && slowDatapath(r) {
				r.Inconclusive++
				return
			}
			r.Op("delete cp=%d up=%d -> accepted=%v", s.CPSEID, s.UPSEID, res.Accepted)
			r.Skel(fmt.Sprintf("del:%v", res.Accepted))
			if res.Accepted {
				r.Accepted++
				hc.checkImage(fmt.Sprintf("after deletion of cp=%d", s.CPSEID), "del")
			} else if res.Rx != nil && r.AgentAlive() {
				r.Probe("valid-deletion-rejected")
				r.RejectedValid(s.UPSEID)
			}
		case 8: // nothing touches the datapath for 31 minutes (the gRPC channel reads IDLE), then an association is released
			idleDone = true
			owner := live[r.Ch.Choose(len(live), "sess")].Peer
			// the peers keep their associations alive with heartbeats (read timeout 15 s)
			for t := 0; t < 31*6 && r.AgentAlive(); t++ {
				r.Sim.RunFor(10 * time.Second)
				for _, q := range r.Peers {
					if q.Associated {
						q.SendMsg(message.NewHeartbeatRequest(q.NextSeq(), ie.NewRecoveryTimeStamp(q.TS), nil))
					}
				}
			}
			r.Sim.RunFor(time.Second)
			r.Fault("datapath-channel-idle-before-release")
			if !r.AgentAlive() {
				break
			}
			rx := owner.Release()
			r.Op("31 minutes without datapath traffic, then peer%d releases its association -> answered=%v", owner.Idx, rx != nil)
			r.Skel("idle+release")
			if rx == nil {
				break
			}
			owner.Associated = false
			owner.Sessions = map[uint64]*CPSession{}
			r.Sim.RunFor(500 * time.Millisecond)
			hc.checkImage(fmt.Sprintf("after the Association Release of peer%d (its sessions are gone) that followed 31 idle minutes", owner.Idx), "release-after-idle")
			if len(r.Violations) == 0 && owner.AssociateRetry() == nil && r.AgentAlive() {
				r.Violate(hc.prop, "no-association-response", "re-association after the release got no response")
			}
		case 3: // request naming an unknown session: must be rejected and write nothing
			bogus := uint64(0xDEAD0000) + uint64(r.Ch.Choose(1000, "bogus"))
			var rx *RxMsg
			if r.Ch.Choose(2, "bogus-kind") == 0 {
				rx = p.Request(p.DeleteMsg(bogus), 5*time.Second)
			} else {
				rx = p.Request(p.ModifyMsg(bogus, &ModSpec{CreateQER: []*QERSpec{g.QER(77)}}), 5*time.Second)
			}
			r.Skel("unknown-session")
			if rx != nil && !armKill {
				if c, ok := CauseOf(rx.Msg); ok && c == ie.CauseRequestAccepted {
					r.Violate(hc.prop, "unknown-session-accepted", "request for unknown session %d was accepted", bogus)
				}
				if cmdsNow() != cmdsBefore {
					r.Violate(hc.prop, "unknown-session-writes", "request for unknown session %d caused %d datapath commands", bogus, cmdsNow()-cmdsBefore)
				}
			}
			r.Op("request for unknown session %d", bogus)
		case 4: // establishment with a Node ID that has no association
			s := g.Session(p, SessShape{})
			saved := p.NodeID
			p.NodeID = "10.250.9.9"
			res := p.Establish(s)
			p.NodeID = saved
			r.Skel("no-association")
			if res.Accepted {
				delete(p.Sessions, s.CPSEID)
				r.Violate(hc.prop, "no-association-accepted", "establishment with unknown Node ID accepted")
			} else if res.Rx != nil && !armKill && cmdsNow() != cmdsBefore {
				r.Violate(hc.prop, "no-association-writes", "rejected establishment (no association) caused %d datapath commands", cmdsNow()-cmdsBefore)
			}
			r.Op("establish with unknown node id -> accepted=%v cause=%d", res.Accepted, res.Cause)
		case 5: // second modification on the same session right away (history depth)
			s := live[r.Ch.Choose(len(live), "sess")]
			for k := 0; k < 2; k++ {
				m := g.Modification(s)
				if m.Empty() {
					continue
				}
				if m.Trigger != "" {
					r.Taint(s.UPSEID, m.Trigger)
				}
				res := s.Peer.Modify(s, m)
				r.Op("modify cp=%d %s -> accepted=%v", s.CPSEID, m.Describe(), res.Accepted)
				r.Skel(fmt.Sprintf("mod:%s:%v", modShape(m), res.Accepted))
				if res.Accepted {
					r.Accepted++
					hc.checkImage(fmt.Sprintf("after modification %s of cp=%d", m.Describe(), s.CPSEID), "mod:"+m.Tag)
				}
			}
		}
		if armKill {
			r.Sim.KillStep = 0
			if r.Sim.IncDead(r.Inc) && len(r.Sim.Panics) == 0 {
				killed = true
				r.Fault("agent-kill")
				if cmdsNow() != cmdsBefore {
					r.Probe("kill-inside-datapath-update")
				}
				r.Op("agent killed at scheduler step (inc %d)", r.Inc)
				r.Skel("killed")
				// the CP learns about the restart; its sessions are gone with the old incarnation
				for _, q := range r.Peers {
					q.Sessions = map[uint64]*CPSession{}
					q.Associated = false
				}
				r.Sim.RunFor(time.Duration(1+r.Ch.Choose(4, "restart-delay")) * time.Second)
				if hc.beforeRestart != nil {
					hc.beforeRestart()
				}
				r.StartAgent()
				if !r.AgentAlive() {
					return
				}
				if hc.afterRestart != nil && !hc.afterRestart() {
					if r.AgentAlive() {
						r.Violate(hc.prop, "not-ready-after-restart", "the restarted agent did not initialise the datapath")
					}
					return
				}
				hc.checkImage("after restart of the agent against the populated datapath", "restart")
				for _, q := range r.Peers {
					if q.AssociateRetry() == nil {
						r.Violate(hc.prop, "no-association-response-after-restart", "Association Setup got no response after restart")
						return
					}
				}
			}
		}
	}
}

func describeSession(s *CPSession) string {
	out := ""
	for _, p := range s.PDRs {
		out += "[" + describePDR(p) + "] "
	}
	return out
}

func modShape(m *ModSpec) string {
	s := ""
	add := func(n int, k string) {
		if n > 0 {
			s += k
		}
	}
	add(len(m.CreatePDR), "cP")
	add(len(m.UpdatePDR), "uP")
	add(len(m.RemovePDR), "rP")
	add(len(m.CreateFAR), "cF")
	add(len(m.UpdateFAR), "uF")
	add(len(m.RemoveFAR), "rF")
	add(len(m.CreateQER), "cQ")
	add(len(m.UpdateQER), "uQ")
	add(len(m.RemoveQER), "rQ")
	if m.NewCPSEID != 0 {
		s += "S"
	}
	return s
}
