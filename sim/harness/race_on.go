//go:build race

package harness

import (
	"os"
	"path/filepath"
	"strings"
	"syscall"
)

// ensureRaceLog re-executes the race build with a report file when it was
// started without one (reports on stderr cannot be attributed to runs).
func ensureRaceLog() {
	if strings.Contains(os.Getenv("GORACE"), "log_path=") {
		return
	}
	self, err := os.Executable()
	if err != nil {
		return
	}
	env := append(os.Environ(), "GORACE=halt_on_error=0 exitcode=0 log_path="+raceLogPrefix())
	syscall.Exec(self, os.Args, env)
}

// With GORACE=log_path=<prefix> the runtime appends reports to <prefix>.<pid>.
var raceOffset int64

func drainRaceLogs() []string {
	lp := ""
	for _, kv := range strings.Fields(os.Getenv("GORACE")) {
		if strings.HasPrefix(kv, "log_path=") {
			lp = strings.TrimPrefix(kv, "log_path=")
		}
	}
	if lp == "" {
		return nil
	}
	files, _ := filepath.Glob(lp + ".*")
	var out []string
	for _, f := range files {
		if !strings.HasSuffix(f, "."+itoa(os.Getpid())) {
			continue
		}
		b, err := os.ReadFile(f)
		if err != nil || int64(len(b)) <= raceOffset {
			continue
		}
		chunk := string(b[raceOffset:])
		raceOffset = int64(len(b))
		for _, rep := range strings.Split(chunk, "==================") {
			if strings.Contains(rep, "WARNING: DATA RACE") {
				out = append(out, rep)
			}
		}
	}
	return out
}

func itoa(i int) string {
	if i == 0 {
		return "0"
	}
	s := ""
	for i > 0 {
		s = string(rune('0'+i%10)) + s
		i /= 10
	}
	return s
}
