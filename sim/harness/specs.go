package harness

import (
	"fmt"
	"net"
	"time"

	"github.com/wmnsk/go-pfcp/ie"
	"github.com/wmnsk/go-pfcp/message"
)

// Rule specifications: the control plane's own structured copy of what it
// sent. Reference models are computed from these, never from the agent.

const (
	IfAccess = 0 // TS 29.244 Source/Destination Interface values
	IfCore   = 1

	ActDROP = 0x01
	ActFORW = 0x02
	ActBUFF = 0x04
	ActNOCP = 0x08
)

type FlowSpec struct {
	Text string // the flow description as sent
	// parsed meaning (by the generator that produced Text; independent of the agent)
	Valid     bool
	Dir       string // "in" | "out"
	Proto     int    // -1 = ip (any)
	RemoteIP  uint32
	RemoteLen int    // prefix length 0..32
	UESide    string // "assigned" | "any" | "ip"
	UEIP      uint32
	UELen     int
	HasPort   bool
	PortLo    uint16
	PortHi    uint16
}

type PDRSpec struct {
	// PDIOrder: 0 = Source Interface first (what pfcpsim sends), 1 = reversed, 2 = rotated by one
	PDIOrder   int
	ID         uint16
	Precedence uint32
	SrcIface   uint8

	HasFTEID   bool
	TEIDChoose bool
	TEID       uint32
	TEIDAddr   net.IP

	HasUEIP   bool
	UEIPAlloc bool // ask the UP function to allocate (no V4 flag)
	UEIP      net.IP

	SDF   *FlowSpec
	AppID string

	OHR    bool // outer header removal (GTP-U/UDP/IPv4)
	FARID  uint32
	QERIDs []uint32

	// learnt from the establishment response
	GotTEID uint32
	GotUEIP net.IP
}

func (p *PDRSpec) clone() *PDRSpec {
	c := *p
	c.QERIDs = append([]uint32{}, p.QERIDs...)
	return &c
}

// EffTEID / EffTEIDAddr / EffUEIP: what the rule denotes once UP-chosen values are known.
func (p *PDRSpec) EffTEID() uint32 {
	if p.TEIDChoose {
		return p.GotTEID
	}
	return p.TEID
}
func (p *PDRSpec) EffTEIDAddr() uint32 {
	if p.TEIDChoose {
		return ipU32(ip4(N3Addr))
	}
	return ipU32(p.TEIDAddr)
}
func (p *PDRSpec) EffUEIP() uint32 {
	if p.UEIPAlloc {
		return ipU32(p.GotUEIP)
	}
	return ipU32(p.UEIP)
}

type FARSpec struct {
	ID        uint32
	Action    uint8
	DstIface  uint8
	HasFwd    bool // forwarding parameters present
	HasOHC    bool
	TEID      uint32
	PeerIP    net.IP
	EndMarker bool // SNDEM in an update
}

type QERSpec struct {
	ID     uint32
	QFI    uint8
	GateUL uint8 // 0 open, 1 closed
	GateDL uint8
	HasMBR bool
	MBRUL  uint64
	MBRDL  uint64
	HasGBR bool
	GBRUL  uint64
	GBRDL  uint64
}

type CPSession struct {
	CPAddr net.IP // address inside the CP F-SEID when it is not the peer's own
	CPSEID uint64
	UPSEID uint64
	Peer   *Peer
	PDRs   []*PDRSpec
	FARs   []*FARSpec
	QERs   []*QERSpec
	// after an agent restart the CP may still believe in it
	Stale bool
	// Checked: per-session oracle already evaluated (C07)
	Checked bool
}

func (s *CPSession) PDR(id uint16) *PDRSpec {
	for _, p := range s.PDRs {
		if p.ID == id {
			return p
		}
	}
	return nil
}
func (s *CPSession) FAR(id uint32) *FARSpec {
	for _, f := range s.FARs {
		if f.ID == id {
			return f
		}
	}
	return nil
}
func (s *CPSession) QER(id uint32) *QERSpec {
	for _, q := range s.QERs {
		if q.ID == id {
			return q
		}
	}
	return nil
}

// ---------------------------------------------------------------- IE builders

func (p *PDRSpec) pdiIEs() []*ie.IE {
	var pdi []*ie.IE
	pdi = append(pdi, ie.NewSourceInterface(p.SrcIface))
	if p.HasFTEID {
		if p.TEIDChoose {
			pdi = append(pdi, ie.NewFTEID(0x05, 0, nil, nil, 0)) // CH | V4
		} else {
			pdi = append(pdi, ie.NewFTEID(0x01, p.TEID, p.TEIDAddr, nil, 0))
		}
	}
	if p.HasUEIP {
		if p.UEIPAlloc {
			// CHV4 set, V4 clear: UP function allocates (TS 29.244 8.2.62)
			pdi = append(pdi, ie.NewUEIPAddress(0x10, "", "", 0, 0))
		} else {
			flags := uint8(0x02) // V4
			if p.SrcIface == IfCore {
				flags |= 0x04 // S/D: destination
			}
			pdi = append(pdi, ie.NewUEIPAddress(flags, p.UEIP.String(), "", 0, 0))
		}
	}
	if p.SDF != nil {
		pdi = append(pdi, ie.NewSDFFilter(p.SDF.Text, "", "", "", 0))
	}
	if p.AppID != "" {
		pdi = append(pdi, ie.NewApplicationID(p.AppID))
	}
	// TS 29.244 fixes no order of the IEs inside a grouped IE
	switch p.PDIOrder {
	case 1:
		for i, j := 0, len(pdi)-1; i < j; i, j = i+1, j-1 {
			pdi[i], pdi[j] = pdi[j], pdi[i]
		}
	case 2:
		if len(pdi) > 1 {
			pdi = append(pdi[1:], pdi[0])
		}
	}
	return pdi
}

func (p *PDRSpec) ies() []*ie.IE {
	out := []*ie.IE{
		ie.NewPDRID(p.ID),
		ie.NewPrecedence(p.Precedence),
		ie.NewPDI(p.pdiIEs()...),
	}
	if p.OHR {
		out = append(out, ie.NewOuterHeaderRemoval(0, 0))
	}
	out = append(out, ie.NewFARID(p.FARID))
	for _, q := range p.QERIDs {
		out = append(out, ie.NewQERID(q))
	}
	return out
}

func (p *PDRSpec) CreateIE() *ie.IE { return ie.NewCreatePDR(p.ies()...) }
func (p *PDRSpec) UpdateIE() *ie.IE { return ie.NewUpdatePDR(p.ies()...) }

func (f *FARSpec) fwdIEs(update bool) []*ie.IE {
	var out []*ie.IE
	out = append(out, ie.NewDestinationInterface(f.DstIface))
	if f.HasOHC {
		out = append(out, ie.NewOuterHeaderCreation(0x0100, f.TEID, f.PeerIP.String(), "", 0, 0, 0))
	}
	if update && f.EndMarker {
		out = append(out, ie.NewPFCPSMReqFlags(0x02)) // SNDEM
	}
	return out
}

func (f *FARSpec) CreateIE() *ie.IE {
	out := []*ie.IE{ie.NewFARID(f.ID), ie.NewApplyAction(f.Action)}
	if f.HasFwd {
		out = append(out, ie.NewForwardingParameters(f.fwdIEs(false)...))
	}
	return ie.NewCreateFAR(out...)
}

func (f *FARSpec) UpdateIE() *ie.IE {
	out := []*ie.IE{ie.NewFARID(f.ID), ie.NewApplyAction(f.Action)}
	if f.HasFwd {
		out = append(out, ie.NewUpdateForwardingParameters(f.fwdIEs(true)...))
	}
	return ie.NewUpdateFAR(out...)
}

func (q *QERSpec) ies() []*ie.IE {
	out := []*ie.IE{ie.NewQERID(q.ID), ie.NewQFI(q.QFI), ie.NewGateStatus(q.GateUL, q.GateDL)}
	if q.HasMBR {
		out = append(out, ie.NewMBR(q.MBRUL, q.MBRDL))
	}
	if q.HasGBR {
		out = append(out, ie.NewGBR(q.GBRUL, q.GBRDL))
	}
	return out
}
func (q *QERSpec) CreateIE() *ie.IE { return ie.NewCreateQER(q.ies()...) }
func (q *QERSpec) UpdateIE() *ie.IE { return ie.NewUpdateQER(q.ies()...) }

// ---------------------------------------------------------------- session operations

type EstResult struct {
	Resp     *message.SessionEstablishmentResponse
	Rx       *RxMsg
	Accepted bool
	Cause    uint8
}

func (p *Peer) NewCPSEID() uint64 {
	p.nextSEID++
	return p.nextSEID
}

// EstablishMsg builds a Session Establishment Request for sess.
func (p *Peer) EstablishMsg(sess *CPSession) *message.SessionEstablishmentRequest {
	ies := []*ie.IE{
		ie.NewNodeID(p.NodeID, "", ""),
		ie.NewFSEID(sess.CPSEID, ip4(p.IP), nil),
	}
	if sess.CPAddr != nil {
		// the CP F-SEID names another CP address than the peer's N4 address
		ies[1] = ie.NewFSEID(sess.CPSEID, sess.CPAddr, nil)
	}
	for _, x := range sess.PDRs {
		ies = append(ies, x.CreateIE())
	}
	for _, x := range sess.FARs {
		ies = append(ies, x.CreateIE())
	}
	for _, x := range sess.QERs {
		ies = append(ies, x.CreateIE())
	}
	ies = append(ies, ie.NewPDNType(ie.PDNTypeIPv4))
	return message.NewSessionEstablishmentRequest(0, 0, 0, p.NextSeq(), 0, ies...)
}

// Establish sends the request, and on acceptance records UP-chosen values and
// registers the session at the peer.
func (p *Peer) Establish(sess *CPSession) EstResult {
	sess.Peer = p
	req := p.EstablishMsg(sess)
	rx := p.Request(req, 8*time.Second)
	res := EstResult{Rx: rx}
	if rx == nil {
		return res
	}
	resp, ok := rx.Msg.(*message.SessionEstablishmentResponse)
	if !ok {
		return res
	}
	res.Resp = resp
	res.Cause, _ = CauseOf(resp)
	if res.Cause != ie.CauseRequestAccepted {
		return res
	}
	res.Accepted = true
	if resp.UPFSEID != nil {
		if f, err := resp.UPFSEID.FSEID(); err == nil {
			sess.UPSEID = f.SEID
		}
	}
	for _, cp := range resp.CreatedPDR {
		id, err := cp.PDRID()
		if err != nil {
			continue
		}
		spec := sess.PDR(id)
		if spec == nil {
			continue
		}
		kids, _ := cp.CreatedPDR()
		for _, k := range kids {
			switch k.Type {
			case ie.FTEID:
				if f, err := k.FTEID(); err == nil {
					spec.GotTEID = f.TEID
				}
			case ie.UEIPAddress:
				if u, err := k.UEIPAddress(); err == nil {
					spec.GotUEIP = u.IPv4Address
				}
			}
		}
	}
	// one address per session: PDRs that asked for allocation share it
	var got net.IP
	for _, x := range sess.PDRs {
		if x.GotUEIP != nil {
			got = x.GotUEIP
		}
	}
	for _, x := range sess.PDRs {
		if x.UEIPAlloc && x.GotUEIP == nil {
			x.GotUEIP = got
		}
	}
	p.Sessions[sess.CPSEID] = sess
	return res
}

// ModSpec is one Session Modification Request in structured form.
type ModSpec struct {
	CreatePDR, UpdatePDR []*PDRSpec
	CreateFAR, UpdateFAR []*FARSpec
	CreateQER, UpdateQER []*QERSpec
	RemovePDR            []uint16
	RemoveFAR            []uint32
	RemoveQER            []uint32
	NewCPSEID            uint64   // 0 = keep
	Tag                  string   // generator's name for the kind of change (signature component)
	Extra                []*ie.IE // additional raw IEs (malformed elements)
	Trigger              string   // non-empty: this operation is a trigger of a listed known finding
}

func (m *ModSpec) Empty() bool {
	return len(m.CreatePDR)+len(m.UpdatePDR)+len(m.CreateFAR)+len(m.UpdateFAR)+len(m.CreateQER)+len(m.UpdateQER)+
		len(m.RemovePDR)+len(m.RemoveFAR)+len(m.RemoveQER) == 0 && m.NewCPSEID == 0
}

func (m *ModSpec) Describe() string {
	out := "[" + m.Tag + "]"
	for _, x := range m.CreatePDR {
		out += " createPDR{" + describePDR(x) + "}"
	}
	for _, x := range m.UpdatePDR {
		out += " updatePDR{" + describePDR(x) + "}"
	}
	for _, x := range m.CreateFAR {
		out += fmt.Sprintf(" createFAR{%+v}", *x)
	}
	for _, x := range m.UpdateFAR {
		out += fmt.Sprintf(" updateFAR{%+v}", *x)
	}
	for _, x := range m.CreateQER {
		out += fmt.Sprintf(" createQER{%+v}", *x)
	}
	for _, x := range m.UpdateQER {
		out += fmt.Sprintf(" updateQER{%+v}", *x)
	}
	if len(m.RemovePDR)+len(m.RemoveFAR)+len(m.RemoveQER) > 0 {
		out += fmt.Sprintf(" removePDR=%v removeFAR=%v removeQER=%v", m.RemovePDR, m.RemoveFAR, m.RemoveQER)
	}
	if m.NewCPSEID != 0 {
		out += fmt.Sprintf(" newCPSEID=%d", m.NewCPSEID)
	}
	return out
}

func (p *Peer) ModifyMsg(upSEID uint64, m *ModSpec) *message.SessionModificationRequest {
	var ies []*ie.IE
	if m.NewCPSEID != 0 {
		ies = append(ies, ie.NewFSEID(m.NewCPSEID, ip4(p.IP), nil))
	}
	for _, x := range m.RemovePDR {
		ies = append(ies, ie.NewRemovePDR(ie.NewPDRID(x)))
	}
	for _, x := range m.RemoveFAR {
		ies = append(ies, ie.NewRemoveFAR(ie.NewFARID(x)))
	}
	for _, x := range m.RemoveQER {
		ies = append(ies, ie.NewRemoveQER(ie.NewQERID(x)))
	}
	for _, x := range m.CreatePDR {
		ies = append(ies, x.CreateIE())
	}
	for _, x := range m.CreateFAR {
		ies = append(ies, x.CreateIE())
	}
	for _, x := range m.CreateQER {
		ies = append(ies, x.CreateIE())
	}
	for _, x := range m.UpdatePDR {
		ies = append(ies, x.UpdateIE())
	}
	for _, x := range m.UpdateFAR {
		ies = append(ies, x.UpdateIE())
	}
	for _, x := range m.UpdateQER {
		ies = append(ies, x.UpdateIE())
	}
	ies = append(ies, m.Extra...)
	return message.NewSessionModificationRequest(0, 0, upSEID, p.NextSeq(), 0, ies...)
}

// ApplyMod updates the CP-side copy of the session after an accepted modification.
func (s *CPSession) ApplyMod(m *ModSpec) {
	if m.NewCPSEID != 0 {
		delete(s.Peer.Sessions, s.CPSEID)
		s.CPSEID = m.NewCPSEID
		s.Peer.Sessions[s.CPSEID] = s
	}
	for _, x := range m.CreatePDR {
		s.PDRs = append(s.PDRs, x)
	}
	for _, x := range m.CreateFAR {
		s.FARs = append(s.FARs, x)
	}
	for _, x := range m.CreateQER {
		s.QERs = append(s.QERs, x)
	}
	for _, x := range m.UpdatePDR {
		for i, o := range s.PDRs {
			if o.ID == x.ID {
				// UP-chosen values stay with the rule
				x.GotTEID, x.GotUEIP = o.GotTEID, o.GotUEIP
				s.PDRs[i] = x
			}
		}
	}
	for _, x := range m.UpdateFAR {
		for i, o := range s.FARs {
			if o.ID == x.ID {
				s.FARs[i] = x
			}
		}
	}
	for _, x := range m.UpdateQER {
		for i, o := range s.QERs {
			if o.ID == x.ID {
				s.QERs[i] = x
			}
		}
	}
	for _, id := range m.RemovePDR {
		for i, o := range s.PDRs {
			if o.ID == id {
				s.PDRs = append(s.PDRs[:i], s.PDRs[i+1:]...)
				break
			}
		}
	}
	for _, id := range m.RemoveFAR {
		for i, o := range s.FARs {
			if o.ID == id {
				s.FARs = append(s.FARs[:i], s.FARs[i+1:]...)
				break
			}
		}
	}
	for _, id := range m.RemoveQER {
		for i, o := range s.QERs {
			if o.ID == id {
				s.QERs = append(s.QERs[:i], s.QERs[i+1:]...)
				break
			}
		}
	}
}

type ModResult struct {
	Rx       *RxMsg
	Resp     *message.SessionModificationResponse
	Accepted bool
	Cause    uint8
}

func (p *Peer) Modify(sess *CPSession, m *ModSpec) ModResult {
	rx := p.Request(p.ModifyMsg(sess.UPSEID, m), 8*time.Second)
	res := ModResult{Rx: rx}
	if rx == nil {
		return res
	}
	resp, ok := rx.Msg.(*message.SessionModificationResponse)
	if !ok {
		return res
	}
	res.Resp = resp
	res.Cause, _ = CauseOf(resp)
	if res.Cause == ie.CauseRequestAccepted {
		res.Accepted = true
		sess.ApplyMod(m)
		// what the UP function chose for PDRs created by this request
		for _, cp := range resp.CreatedPDR {
			id, err := cp.PDRID()
			if err != nil {
				continue
			}
			spec := sess.PDR(id)
			if spec == nil {
				continue
			}
			kids, _ := cp.CreatedPDR()
			for _, k := range kids {
				if k.Type == ie.FTEID {
					if f, err := k.FTEID(); err == nil {
						spec.GotTEID = f.TEID
					}
				}
			}
		}
	}
	return res
}

type DelResult struct {
	Rx       *RxMsg
	Resp     *message.SessionDeletionResponse
	Accepted bool
	Cause    uint8
}

func (p *Peer) DeleteMsg(upSEID uint64) *message.SessionDeletionRequest {
	return message.NewSessionDeletionRequest(0, 0, upSEID, p.NextSeq(), 0)
}

func (p *Peer) Delete(sess *CPSession) DelResult {
	rx := p.Request(p.DeleteMsg(sess.UPSEID), 8*time.Second)
	res := DelResult{Rx: rx}
	if rx == nil {
		return res
	}
	resp, ok := rx.Msg.(*message.SessionDeletionResponse)
	if !ok {
		return res
	}
	res.Resp = resp
	res.Cause, _ = CauseOf(resp)
	if res.Cause == ie.CauseRequestAccepted {
		res.Accepted = true
		delete(p.Sessions, sess.CPSEID)
	}
	return res
}

// LiveSessions lists the sessions of all peers in a deterministic order.
func (r *Run) LiveSessions() []*CPSession {
	var out []*CPSession
	for _, p := range r.Peers {
		var ids []uint64
		for id := range p.Sessions {
			ids = append(ids, id)
		}
		sortU64(ids)
		for _, id := range ids {
			out = append(out, p.Sessions[id])
		}
	}
	return out
}

func sortU64(a []uint64) {
	for i := 1; i < len(a); i++ {
		for j := i; j > 0 && a[j] < a[j-1]; j-- {
			a[j], a[j-1] = a[j-1], a[j]
		}
	}
}

// Cause is the signature component naming the operation.
func (m *ModSpec) Cause() string {
	if m.Trigger != "" {
		return "after:" + m.Trigger
	}
	return "mod:" + m.Tag
}

// HasWidePortRange: some PDR's filter has a port range wider than 100 ports.
func (s *CPSession) HasWidePortRange() bool {
	for _, p := range s.PDRs {
		if p.SDF != nil && p.SDF.HasPort && int(p.SDF.PortHi)-int(p.SDF.PortLo)+1 > 100 {
			return true
		}
	}
	return false
}
