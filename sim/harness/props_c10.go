package harness

import (
	"fmt"
	"os"
	"sort"
	"strings"
	"syscall"
	"time"

	"github.com/wmnsk/go-pfcp/ie"
	"github.com/wmnsk/go-pfcp/message"
)

func init() {
	Register(&PropDef{
		ID: "C10", QuickRuns: 2400, RaceRuns: 240, Level: "exploration", Race: true,
		Rule: "one run = 0-6 associations with 0-2 sessions each on the BESS datapath; per association one trigger is drawn from {none, Association Release, peer silent past the read timeout, heartbeats unanswered}, optionally SIGTERM (Stop) for the agent, all timed on the virtual clock to collide around one instant (offsets of microseconds to hundreds of milliseconds), with a session request in flight, under all scheduling strategies (PCT change points, statement-level pre-emption) and optional faults (datagram loss, agent stall, slow BESS RPCs beyond the join timeout, ICMP unreachable); optionally a peer the agent has never heard of sends its first datagram so that it arrives within nanoseconds to hundreds of microseconds of the stop, and optionally the agent itself opens an association towards a configured peer, possibly listed twice (two connections behind one key of the node's map). One run in six plays the end of an association (release / silence / stop) on the P4Runtime datapath with 2-4 sessions per association and one failing Write RPC inside the teardown: every session but the one hit by the failure must be gone from the switch. Oracle: no panic / Fatal; every key installed for a session of an ended association is deleted exactly once and nothing of it remains; the peer can associate afresh and is served; untouched associations keep their sessions and answer heartbeats; after SIGTERM Run() returns within read_timeout + (retries+1) x resp_timeout + 10 s of virtual time. Non-trivial = at least one association with a session and one trigger fired; distinct = different multiset of (trigger, #sessions) plus stop/fault kinds plus outcome. Also: a released peer back within scheduling steps / microseconds of the close of its old connection, establishing sessions before the stop.",
		Assume: []string{"main() returns when Run() returns: the process exits and every other goroutine dies with it (sessions not yet removed at that moment stay in the datapath)",
			"delete commands are counted at the simulated BESS daemon; a delete hit by an injected RPC fault may be missing"},
		Real: CommonReal, Simulated: CommonSim,
		Scenario: scenarioC10,
	})
}

type c10Plan struct {
	kaUntil int64 // keep-alive heartbeats from the peer until this instant
	p       *Peer
	trigger string
	nsess   int
	keys    map[string]bool // module|key installed for this peer's sessions
	fseids  map[uint64]bool
	ended   bool
	// the peer comes back right after its release: its fresh Association Setup
	// reaches the agent cbOff after the old connection's socket was closed
	comeback, released, cameBack bool
	cbOff                        time.Duration
	cbSteps, cbN                 int
	cbAt                         int64 // instant the old connection was closed
}

func scenarioC10(r *Run) {
	if r.Ch.Choose(6, "datapath") == 1 {
		scenarioC10UP4(r)
		return
	}
	r.Conf = DefaultBESSConf()
	// rarely: more associations than the node's exit-notice channel buffers (100)
	many := r.Ch.Choose(120, "many-assoc") == 1
	hbOn := r.Ch.Choose(3, "hb") != 1 && !many
	N := []uint8{1, 2}[r.Ch.Choose(2, "retries")]
	tout := []time.Duration{500 * time.Millisecond, time.Second}[r.Ch.Choose(2, "tout")]
	hbi := []time.Duration{time.Second, 2 * time.Second, 5 * time.Second}[r.Ch.Choose(3, "hbi")]
	rt := []uint32{3, 5, 15}[r.Ch.Choose(3, "readtimeout")]
	r.Conf.EnableHBTimer = hbOn
	r.Conf.MaxReqRetries = N
	r.Conf.RespTimeout = tout.String()
	r.Conf.HeartBeatInterval = hbi.String()
	r.Conf.ReadTimeout = rt
	readTimeout := time.Duration(rt) * time.Second
	r.DrawStrategy()
	// faults
	faultMode := r.Ch.Choose(5, "faults")
	switch faultMode {
	case 1:
		r.W.Net.ToAgent.DropDen, r.W.Net.FromAgent.DropDen = 25, 25
	case 2:
		r.W.Bess.Faults.SlowDen, r.W.Bess.Faults.SlowBy = 6, 1200*time.Millisecond
	case 3:
		r.W.Bess.Faults.LatJit = 400 * time.Microsecond
	case 4:
		// some RPCs take tens of milliseconds: far below the join timeout, but
		// teardowns now differ in duration
		r.W.Bess.Faults.SlowDen, r.W.Bess.Faults.SlowBy = 4, 20*time.Millisecond
	}
	na := r.Ch.Choose(7, "nassoc")
	if many {
		na = 101 + r.Ch.Choose(12, "many-n")
		r.Probe("more-than-100-associations")
		r.Sim.MaxSteps = 30_000_000
		faultMode = 0
		r.W.Net.ToAgent.DropDen, r.W.Net.FromAgent.DropDen = 0, 0
		r.W.Bess.Faults.SlowDen = 0
	}
	var plans []*c10Plan
	for i := 0; i < na; i++ {
		plans = append(plans, &c10Plan{p: r.AddPeer(), keys: map[string]bool{}, fseids: map[uint64]bool{}})
	}
	if !many && r.Ch.Choose(6, "configured-peer") == 1 {
		// the agent itself opens an association towards a configured control plane
		// node; the list may name the same node twice (two host names resolving to
		// one address): two connections then sit behind one key of the node's map
		cfg := r.AddPeer()
		cfg.OnAssocReq = func(req *message.AssociationSetupRequest) {
			cfg.SendMsg(message.NewAssociationSetupResponse(req.SequenceNumber, ie.NewNodeID(cfg.NodeID, "", ""), ie.NewCause(ie.CauseRequestAccepted), ie.NewRecoveryTimeStamp(cfg.TS)))
		}
		r.Conf.CPIface.Peers = []string{cfg.IP}
		if r.Ch.Choose(2, "listed-twice") == 1 {
			r.Conf.CPIface.Peers = []string{cfg.IP, cfg.IP}
			r.Probe("configured-peer-listed-twice")
		}
		var ka func()
		ka = func() {
			r.Sim.After(readTimeout/3, func() {
				if r.AgentAlive() {
					cfg.SendMsg(message.NewHeartbeatRequest(cfg.NextSeq(), ie.NewRecoveryTimeStamp(cfg.TS), nil))
					ka()
				}
			})
		}
		ka()
	}
	r.StartAgent()
	if !r.AgentAlive() {
		r.CheckNoPanics("C10")
		return
	}
	inc := r.Inc
	g := NewGen(r)
	g.PlainQER = true
	var keepAlive func(pl *c10Plan)
	keepAlive = func(pl *c10Plan) {
		r.Sim.After(readTimeout/3, func() {
			if r.Sim.IncDead(inc) || r.Sim.NowNS() >= pl.kaUntil {
				return
			}
			pl.p.SendMsg(message.NewHeartbeatRequest(pl.p.NextSeq(), ie.NewRecoveryTimeStamp(pl.p.TS), nil))
			keepAlive(pl)
		})
	}
	for _, pl := range plans {
		if pl.p.Associate() == nil {
			if faultMode == 1 {
				pl.trigger = "unassociated"
				continue
			}
			r.Violate("C10", "no-association", "association failed")
			return
		}
		pl.kaUntil = 1 << 62
		keepAlive(pl)
		pl.nsess = r.Ch.Choose(3, "nsess")
		if many {
			pl.nsess = 0
		}
		for k := 0; k < pl.nsess; k++ {
			if res := pl.p.Establish(g.Session(pl.p, SessShape{NQER: r.Ch.Choose(3, "nq"), TEIDChoose: true, UEAlloc: r.Ch.Choose(2, "ua") == 1})); res.Accepted {
				r.Accepted++
			}
		}
		for _, id := range sortedSessionIDs(pl.p) {
			s := pl.p.Sessions[id]
			pl.fseids[s.UPSEID] = true
			if !many && len(s.PDRs) > 0 && r.Ch.Choose(8, "session-without-pdrs") == 1 {
				// a modification takes every PDR of the session away: its FARs and QERs
				// are still installed and must go with the association like everything else
				var ids []uint16
				for _, pd := range s.PDRs {
					ids = append(ids, pd.ID)
				}
				if mr := pl.p.Modify(s, &ModSpec{Tag: "rP:all", RemovePDR: ids}); mr.Accepted {
					r.Probe("session-left-without-pdrs-before-the-teardown")
				}
				if r.W.Bess.Faults.SlowDen > 0 {
					// (a delete the plug-in gave up waiting for is applied late: let it
					// arrive before the entries of the associations are listed)
					r.Sim.RunFor(r.W.Bess.Faults.SlowBy + 300*time.Millisecond)
				}
			}
		}
	}
	// which keys belong to which peer (by fseid carried in the entries)
	owner := func(fseid uint64) *c10Plan {
		for _, pl := range plans {
			if pl.fseids[fseid] {
				return pl
			}
		}
		return nil
	}
	b := r.W.Bess
	for k, e := range b.PDR {
		if pl := owner(e.Valuesv[1]); pl != nil {
			pl.keys["pdrLookup|"+k] = true
		}
	}
	for k, e := range b.FAR {
		if pl := owner(e.Fields[1]); pl != nil {
			pl.keys["farLookup|"+k] = true
		}
	}
	for _, mod := range []string{"appQERLookup", "sessionQERLookup"} {
		for k, e := range b.Qos[mod] {
			if pl := owner(e.Fields[len(e.Fields)-1]); pl != nil {
				pl.keys[mod+"|"+k] = true
			}
		}
	}
	cmdStart := len(b.Cmds)

	// ---- plan the collision
	t0 := r.Sim.NowNS() + int64(readTimeout) + int64(6*time.Second)
	off := func() time.Duration {
		switch r.Ch.Choose(4, "offkind") {
		case 0:
			return 0
		case 1:
			return time.Duration(r.Ch.Choose(400, "off-us")) * time.Microsecond
		case 2:
			return time.Duration(r.Ch.Choose(100, "off-ms")) * time.Millisecond
		}
		return time.Duration(r.Ch.Choose(2000, "off-ms2")) * time.Millisecond
	}
	stop := r.Ch.Choose(2, "stop") == 1 || many
	var trigDesc []string
	for _, pl := range plans {
		pl := pl
		if pl.trigger == "unassociated" {
			continue
		}
		pl.trigger = []string{"none", "release", "silence", "hbfail"}[r.Ch.Choose(4, "trigger")]
		if many {
			pl.trigger = "none"
		}
		if pl.trigger == "hbfail" && !hbOn {
			pl.trigger = "silence"
		}
		trigDesc = append(trigDesc, fmt.Sprintf("%s/%d", pl.trigger, pl.nsess))
		// keep-alive traffic from the peer until its trigger (read timeout stays away)
		switch pl.trigger {
		case "silence":
			pl.kaUntil = t0 - int64(readTimeout) - int64(3*time.Second)
		case "hbfail":
			pl.kaUntil = t0 - int64(hbi) - int64(time.Duration(N+1)*tout) - int64(3*time.Second)
		}
		switch pl.trigger {
		case "release":
			if !many && r.Ch.Choose(3, "comeback") == 1 {
				pl.comeback = true
				pl.cbOff = []time.Duration{0, 0, 0, 0, 1, 1000, 3000, 10000, 40000}[r.Ch.Choose(9, "comeback-off")]
				pl.cbSteps = r.Ch.Choose(8, "comeback-steps")
				pl.cbN = 1 + r.Ch.Choose(4, "comeback-sessions")
			}
			r.Sim.At(t0+int64(off()), func() {
				pl.p.SendMsg(message.NewAssociationReleaseRequest(pl.p.NextSeq(), ie.NewNodeID(pl.p.NodeID, "", "")))
				r.Op("peer%d sends Association Release", pl.p.Idx)
				pl.released = true
				// a second trigger may follow closely: the peer also goes silent
				pl.p.AnswerHeartbeats = false
			})
			pl.ended = true
		case "silence":
			// last datagram so that the read deadline expires around t0
			last := t0 - int64(readTimeout) + int64(off())
			r.Sim.At(last, func() {
				pl.p.SendMsg(message.NewHeartbeatRequest(pl.p.NextSeq(), ie.NewRecoveryTimeStamp(pl.p.TS), nil))
				pl.p.AnswerHeartbeats = false
				r.Op("peer%d sends its last datagram and goes silent", pl.p.Idx)
			})
			pl.ended = true
		case "hbfail":
			// stop answering so that the retry budget runs out around t0
			from := t0 - int64(hbi) - int64(time.Duration(N+1)*tout) + int64(off())
			r.Sim.At(from, func() {
				pl.p.AnswerHeartbeats = false
				r.Op("peer%d stops answering heartbeats (keeps sending its own)", pl.p.Idx)
			})
			// the peer keeps the read timeout away with its own heartbeats for a while
			for k := int64(1); k < 6; k++ {
				at := from + k*int64(readTimeout)/2
				if at > t0+int64(2*time.Second) {
					break
				}
				r.Sim.At(at, func() {
					pl.p.SendMsg(message.NewHeartbeatRequest(pl.p.NextSeq(), ie.NewRecoveryTimeStamp(pl.p.TS), nil))
				})
			}
			pl.ended = true
		}
		// in-flight request around the instant
		if r.Ch.Choose(3, "inflight") == 1 && pl.trigger != "none" {
			r.Sim.At(t0+int64(off())-int64(300*time.Microsecond), func() {
				if r.Sim.IncDead(inc) {
					return
				}
				// (the kind is drawn when the event fires: the sessions must be known)
				var live []*CPSession
				for _, id := range sortedSessionIDs(pl.p) {
					live = append(live, pl.p.Sessions[id])
				}
				switch k := r.Ch.Choose(3, "inflight-kind"); {
				case k == 1 && len(live) > 0:
					// a Session Report Response saying "session context not found" for a
					// session the teardown is about to remove (or has just removed): the
					// handler removes that session too - once, all in all
					s := live[r.Ch.Choose(len(live), "inflight-sess")]
					pl.p.SendMsg(message.NewSessionReportResponse(0, 0, s.UPSEID, uint32(1+r.Ch.Choose(1000, "srr-seq")), 0, ie.NewCause(ie.CauseSessionContextNotFound)))
					r.Op("peer%d has a Session Report Response (session context not found, up=%d) in flight", pl.p.Idx, s.UPSEID)
					r.Probe("report-response-in-flight-at-teardown")
				case k == 2 && len(live) > 0:
					s := live[r.Ch.Choose(len(live), "inflight-sess")]
					pl.p.SendMsg(pl.p.DeleteMsg(s.UPSEID))
					r.Op("peer%d has a Session Deletion (up=%d) in flight", pl.p.Idx, s.UPSEID)
					r.Probe("deletion-in-flight-at-teardown")
				default:
					s := g.SessionFixed(pl.p)
					pl.p.SendMsg(pl.p.EstablishMsg(s))
					r.Op("peer%d has a Session Establishment in flight", pl.p.Idx)
					r.Probe("request-in-flight-at-teardown")
				}
			})
		}
		if r.Ch.Choose(8, "down") == 1 && pl.trigger != "none" {
			pl.comeback = false // its answers would not get through: nothing to tell the new association's session by
			r.Sim.At(t0-int64(readTimeout)/2, func() {
				r.W.Net.SetDown(pl.p.Addr, true)
				r.Fault("peer-unreachable-icmp")
			})
			r.Sim.At(t0+int64(4*time.Second), func() { r.W.Net.SetDown(pl.p.Addr, false) })
		}
	}
	// a released peer that is back at once: its fresh Association Setup arrives
	// within nanoseconds to microseconds of the close of its old connection (the
	// node may not have taken note of the old connection's exit yet), then it
	// establishes a session on the new association
	var stopAfterComeback time.Duration
	var stopFn func()
	r.W.Net.OnConnClose = func(local, remote string) {
		if r.Sim.IncDead(inc) {
			return
		}
		for _, pl := range plans {
			pl := pl
			if !pl.comeback || !pl.released || pl.cameBack || remote != pl.p.Addr {
				continue
			}
			pl.cameBack = true
			pl.cbAt = r.Sim.NowNS()
			setup := Marshal(pl.p.AssocSetupMsg())
			arrive := func() {
				r.W.Net.Arrive(pl.p.Addr, pl.p.AgentAddr(), setup)
				r.Op("peer%d is back: its Association Setup arrives %v / %d scheduling step(s) after the close of its old connection", pl.p.Idx, pl.cbOff, pl.cbSteps)
				r.Probe("reassociation-right-after-release")
			}
			if pl.cbOff == 0 {
				r.Sim.AfterSteps(pl.cbSteps, arrive)
			} else {
				r.Sim.After(pl.cbOff, arrive)
			}
			r.Sim.After(pl.cbOff+3*time.Millisecond, func() {
				if r.Sim.IncDead(inc) {
					return
				}
				pl.p.AnswerHeartbeats = true
				for k := 0; k < pl.cbN; k++ {
					pl.p.SendMsg(pl.p.EstablishMsg(g.SessionFixed(pl.p)))
				}
				if stopFn != nil {
					r.Sim.After(stopAfterComeback, stopFn)
				}
			})
		}
	}
	sort.Strings(trigDesc)
	r.Skel(fmt.Sprintf("triggers=%v stop=%v faults=%d hb=%v", trigDesc, stop, faultMode, hbOn))
	var stopAt int64
	if stop {
		stopAt = t0 + int64(off())
		anyComeback := false
		for _, pl := range plans {
			anyComeback = anyComeback || pl.comeback
		}
		stopped := false
		sigterm := func() {
			if stopped {
				return
			}
			stopped = true
			stopAt = r.Sim.NowNS()
			n := r.W.Signal(inc, syscall.SIGTERM)
			r.Op("SIGTERM delivered to the agent (%d handlers)", n)
		}
		if anyComeback && r.Ch.Choose(2, "stop-after-comeback") == 1 {
			// the stop follows the first returned peer's new session (or comes 2 s
			// after the instant when nobody returned)
			stopAfterComeback = []time.Duration{time.Millisecond, 20 * time.Millisecond, 300 * time.Millisecond}[r.Ch.Choose(3, "stop-after")]
			stopFn = sigterm
			stopAt = t0 + int64(2*time.Second)
		}
		r.Sim.At(stopAt, sigterm)
		if !many && r.Ch.Choose(2, "newcomer") == 1 {
			// a peer the agent has never heard of sends its first datagram so that it
			// reaches the listening socket around the instant of the stop: its
			// connection is created (or not) while the node is shutting down
			nc := r.AddPeer()
			lat := int64(r.W.Net.ToAgent.LatMin)
			d := []int64{0, 0, -1, 1, -5000, -50000, -300000, 20000, 300000}[r.Ch.Choose(9, "newcomer-off")]
			r.Sim.At(stopAt-lat+d, func() {
				if r.Ch.Choose(2, "newcomer-msg") == 0 {
					nc.SendMsg(nc.AssocSetupMsg())
				} else {
					nc.SendMsg(message.NewHeartbeatRequest(nc.NextSeq(), ie.NewRecoveryTimeStamp(nc.TS), nil))
				}
				r.Op("a new peer's first datagram is on its way (arrives %d ns relative to the stop)", d)
				r.Probe("first-contact-of-new-peer-at-stop")
			})
		}
	}
	if r.Ch.Choose(6, "stall") == 1 {
		d := time.Duration(200+r.Ch.Choose(4000, "stall-ms")) * time.Millisecond
		r.Sim.At(t0-int64(d)/2, func() {
			r.Sim.Stall(inc, d)
			r.Fault("agent-stall")
		})
	}
	// count triggers that fire close to each other (reach probe)
	nt := 0
	for _, pl := range plans {
		if pl.ended {
			nt++
		}
	}
	if stop {
		nt++
	}
	if nt >= 2 {
		r.Probe("two-teardown-triggers-in-one-run")
	}

	bound := readTimeout + time.Duration(N+1)*tout + 10*time.Second
	r.Sim.RunUntil(nil, t0+int64(bound)+int64(hbi))
	for _, f := range []string{"bess-slow"} {
		_ = f
	}
	r.Op("config: hb=%v retries=%d resp_timeout=%v hb_interval=%v read_timeout=%v faultMode=%d triggers=%v stop=%v; fired: net=%v bess=%v harness=%v",
		hbOn, N, tout, hbi, readTimeout, faultMode, trigDesc, stop, r.W.Net.Stats, r.W.Bess.Fired, r.Faults)
	r.CheckNoPanics("C10")
	if len(r.Violations) > 0 {
		return
	}

	// ---- oracles
	if stop {
		if !r.RunReturned(inc) {
			r.Violate("C10", "stop-does-not-complete", "SIGTERM at t=%.3fs: Run() has not returned %v of virtual time later (%d associations)\n%s",
				float64(stopAt)/1e9, bound, na, strings.Join(r.Sim.BlockedTable(), "\n"))
			return
		}
		r.Probe("stop-completed")
		for _, pl := range plans {
			if pl.trigger != "unassociated" {
				pl.ended = true
			}
		}
	}
	// delete accounting per key
	state := map[string]int{} // 1 present
	for _, pl := range plans {
		for k := range pl.keys {
			state[k] = 1
		}
	}
	// a slow RPC runs into the join timeout: the agent cancels the context and
	// the remaining commands of that request are never sent (BESS errors are
	// ignored by design) -- only the exactly-once half is judged then
	slowBess := r.W.Bess.Fired["bess-slow"] > 0 && r.W.Bess.Faults.SlowBy >= time.Second
	for _, c := range b.Cmds[cmdStart:] {
		k := c.Module + "|" + c.Key
		switch c.Cmd {
		case "add":
			state[k] = 1
		case "delete":
			if _, mine := state[k]; !mine {
				continue
			}
			if state[k] == 0 {
				r.Violate("C10", "session-deleted-twice", "key %s was deleted from the datapath a second time (triggers %v, stop=%v)", k, trigDesc, stop)
				return
			}
			state[k] = 0
		}
	}
	for _, pl := range plans {
		if !pl.ended {
			continue
		}
		left := 0
		var sample string
		for _, k := range sortedKeys(pl.keys) {
			if state[k] == 1 {
				left++
				sample = k
			}
		}
		// (a process stall longer than the 1 s join timeout has the effect of a slow
		// datapath: the plug-in gives up on the commands still outstanding, by design)
		if left > 0 && !slowBess && r.Faults["agent-stall"] == 0 && !(faultMode == 1 && pl.trigger == "release" && !stop) {
			how := pl.trigger
			if stop {
				how += "+stop"
			}
			r.Violate("C10", "sessions-not-removed:"+how, "association of peer%d ended (%s) but %d of its %d datapath entries are still installed, e.g. %s", pl.p.Idx, how, left, len(pl.keys), sample)
			return
		}
	}
	// nothing may be left of an ended association - also not what a request that was
	// in flight when it ended installed (a session stored after the teardown had
	// listed the sessions would never be removed)
	if !slowBess && faultMode != 1 && r.Faults["agent-stall"] == 0 {
		allowed := map[uint64]bool{}
		for _, pl := range plans {
			if !pl.ended && !stop {
				for f := range pl.fseids {
					allowed[f] = true
				}
			}
		}
		// a session established on the new association of a peer that came back
		for _, pl := range plans {
			if !pl.cameBack || stop {
				continue
			}
			for _, m := range pl.p.Rx {
				if m.Err != nil {
					continue
				}
				// (answers the agent sent after the old connection was gone: the session
				// lives on the new association)
				if er, ok := m.Msg.(*message.SessionEstablishmentResponse); ok && m.At >= pl.cbAt+int64(r.W.Net.FromAgent.LatMin) && er.UPFSEID != nil {
					if c, _ := CauseOf(er); c == ie.CauseRequestAccepted {
						if f, err := er.UPFSEID.FSEID(); err == nil {
							allowed[f.SEID] = true
							r.Probe("session-on-the-new-association-of-a-returned-peer")
						}
					}
				}
			}
		}
		type leftover struct {
			what  string
			fseid uint64
		}
		var lo []leftover
		for _, k := range b.SortedPDRKeys() {
			if f := b.PDR[k].Valuesv[1]; !allowed[f] {
				lo = append(lo, leftover{"pdrLookup " + k, f})
			}
		}
		var fk []string
		for k := range b.FAR {
			fk = append(fk, k)
		}
		sort.Strings(fk)
		for _, k := range fk {
			if f := b.FAR[k].Fields[1]; !allowed[f] {
				lo = append(lo, leftover{"farLookup " + k, f})
			}
		}
		if len(lo) > 0 {
			inflight := r.Probes["request-in-flight-at-teardown"] > 0
			r.Violate("C10", fmt.Sprintf("entries-of-ended-association-left:inflight=%v:stop=%v", inflight, stop), "%d datapath entries belong to no association that is still alive (triggers %v, stop=%v, a Session Establishment was in flight at the teardown: %v), e.g. %s (F-SEID %d)", len(lo), trigDesc, stop, inflight, lo[0].what, lo[0].fseid)
			return
		}
	}
	if stop {
		return
	}
	// ended associations: the peer can associate afresh and is served
	for _, pl := range plans {
		if !pl.ended {
			continue
		}
		pl.p.AnswerHeartbeats = true
		pl.p.Sessions = map[uint64]*CPSession{}
		pl.p.Associated = false
		r.W.Net.SetDown(pl.p.Addr, false)
		r.W.Net.ToAgent.DropDen, r.W.Net.FromAgent.DropDen = 0, 0
		if pl.p.Associate() == nil {
			if r.AgentAlive() {
				r.Violate("C10", "cannot-reassociate:"+pl.trigger, "after its association ended by %s, peer%d's fresh Association Setup is not accepted\n%s", pl.trigger, pl.p.Idx, strings.Join(r.Sim.BlockedTable(), "\n"))
			}
			break
		}
		if res := pl.p.Establish(g.Session(pl.p, SessShape{})); !res.Accepted && r.AgentAlive() {
			r.Violate("C10", "reassociated-peer-not-served:"+pl.trigger, "after re-association peer%d's establishment is not accepted (cause %d)", pl.p.Idx, res.Cause)
			break
		}
	}
	// untouched associations are unaffected
	for _, pl := range plans {
		if pl.ended || pl.trigger != "none" || faultMode == 1 || r.Faults["agent-stall"] > 0 {
			continue
		}
		for _, k := range sortedKeys(pl.keys) {
			if state[k] != 1 {
				r.Violate("C10", "other-association-affected", "association of peer%d had no trigger but its entry %s was removed", pl.p.Idx, k)
				break
			}
		}
		if pl.p.Heartbeat() == nil && r.AgentAlive() {
			r.Violate("C10", "other-association-affected", "association of peer%d had no trigger but no longer answers heartbeats", pl.p.Idx)
		}
	}
	r.CheckNoPanics("C10")
	_ = os.Interrupt
}

// scenarioC10UP4: the end of an association on the P4Runtime datapath, where a
// session's removal can be refused: one Write RPC of the teardown fails; every
// other session of the association must be removed all the same, the
// association is forgotten, nothing panics, Stop completes.
func scenarioC10UP4(r *Run) {
	o := r.DrawUP4Conf()
	r.Conf.EnableHBTimer = true
	r.Conf.HeartBeatInterval = "1s"
	r.Conf.MaxReqRetries = 1
	r.Conf.RespTimeout = "500ms"
	r.Conf.ReadTimeout = 3
	r.DrawStrategy()
	sw := r.W.P4
	np := 1 + r.Ch.Choose(2, "npeers")
	for i := 0; i < np; i++ {
		r.AddPeer()
	}
	r.StartAgent()
	if !r.WaitUP4Ready() {
		r.CheckNoPanics("C10")
		return
	}
	g := NewGen(r)
	g.PlainQER = true
	g.UP4 = true
	for _, k := range KnownTriggers {
		g.Avoid[k] = true
	}
	for _, p := range r.Peers {
		if p.AssociateRetry() == nil {
			return
		}
		for i := 0; i < 2+r.Ch.Choose(3, "nsess"); i++ {
			if res := p.Establish(g.Session(p, SessShape{TEIDChoose: true, NQER: r.Ch.Choose(2, "nq")})); res.Accepted {
				r.Accepted++
			}
		}
	}
	victim := r.Peers[r.Ch.Choose(np, "victim")]
	trigger := []string{"release", "silence", "stop"}[r.Ch.Choose(3, "trigger")]
	nvict := len(victim.Sessions)
	ueOf := func(s *CPSession) uint64 {
		for _, x := range s.PDRs {
			if x.SrcIface == IfCore {
				return uint64(x.EffUEIP())
			}
		}
		return 0
	}
	var ues []uint64
	for _, s := range r.LiveSessions() {
		if s.Peer == victim {
			ues = append(ues, ueOf(s))
		}
	}
	faulty := r.Ch.Choose(4, "write-failure") != 0
	if faulty {
		sw.FailKind = []string{"transport", "update", "bare-unknown"}[r.Ch.Choose(3, "failkind")]
		sw.Faults.FailNth = sw.Writes + 1 + r.Ch.Choose(6*nvict+1, "fail-at")
	}
	r.Skel(fmt.Sprintf("up4 trigger=%s sessions=%d faulty=%v", trigger, nvict, faulty))
	r.Op("UP4: peer%d with %d sessions ends by %s; one Write RPC of the teardown fails: %v (%s)", victim.Idx, nvict, trigger, faulty, sw.FailKind)
	switch trigger {
	case "release":
		victim.Release()
		r.Sim.RunFor(time.Second)
	case "silence":
		victim.AnswerHeartbeats = false
		r.Sim.RunFor(8 * time.Second)
	case "stop":
		r.W.Signal(r.Inc, syscall.SIGTERM)
		r.Sim.RunUntil(func() bool { return !r.AgentAlive() }, r.until(30*time.Second))
		if r.AgentAlive() {
			r.Violate("C10", "stop-does-not-complete:up4", "Run() has not returned 30 s after SIGTERM on the UP4 datapath\n%s", strings.Join(r.Sim.BlockedTable(), "\n"))
			return
		}
	}
	fired := sw.Fired["p4-write-fail-transport"]+sw.Fired["p4-write-fail-update"]+sw.Fired["p4-write-fail-bare-unknown"] > 0
	sw.Faults.FailNth = 0
	r.CheckNoPanics("C10")
	if len(r.Violations) > 0 {
		return
	}
	if fired {
		r.Fault("p4-write-failed-during-teardown")
	}
	// sessions of the ended association that still have entries at the switch
	v := p4view{sw}
	left := 0
	for _, ue := range ues {
		n := 0
		for _, tab := range []string{tSessDL, tTermUL, tTermDL} {
			for _, e := range sw.SortedEntries(tab) {
				if x, _ := v.match(tab, e, "ue_address"); x == ue {
					n++
				}
			}
		}
		if n > 0 {
			left++
		}
	}
	allowed := 0
	if fired {
		allowed = 1 // the session whose removal was hit by the failure
	}
	if trigger == "stop" && np > 1 {
		// every association ends at a stop: count the other peers' sessions too
		for _, s := range r.LiveSessions() {
			if s.Peer == victim {
				continue
			}
			ue := ueOf(s)
			for _, e := range sw.SortedEntries(tSessDL) {
				if x, _ := v.match(tSessDL, e, "ue_address"); x == ue {
					left++
				}
			}
		}
	}
	if left > allowed {
		r.Violate("C10", fmt.Sprintf("sessions-not-removed:up4:%s:failed-write=%v", trigger, fired), "association of peer%d ended by %s on UP4 (one Write RPC failed: %v): %d of its sessions still have entries at the switch, at most %d can be explained by the failed write", victim.Idx, trigger, fired, left, allowed)
		return
	}
	if trigger == "stop" {
		return
	}
	// the association is forgotten: the peer associates afresh and is served
	victim.AnswerHeartbeats = true
	victim.Sessions = map[uint64]*CPSession{}
	victim.Associated = false
	if victim.AssociateRetry() == nil {
		if r.AgentAlive() {
			r.Violate("C10", "cannot-reassociate:up4:"+trigger, "after its association ended by %s, peer%d's fresh Association Setup is not accepted\n%s", trigger, victim.Idx, strings.Join(r.Sim.BlockedTable(), "\n"))
		}
		return
	}
	if res := victim.Establish(g.Session(victim, SessShape{TEIDChoose: true})); !res.Accepted && r.AgentAlive() && !fired {
		r.Violate("C10", "reassociated-peer-not-served:up4:"+trigger, "after re-association peer%d's establishment is not accepted (cause %d)", victim.Idx, res.Cause)
		return
	}
	// the other association is unaffected
	for _, p := range r.Peers {
		if p == victim || len(p.Sessions) == 0 {
			continue
		}
		if p.Heartbeat() == nil && r.AgentAlive() {
			r.Violate("C10", "untouched-association-affected:up4", "peer%d, whose association did not end, gets no heartbeat answer", p.Idx)
			return
		}
	}
	_ = o
	r.CheckNoPanics("C10")
}

func sortedSessionIDs(p *Peer) []uint64 {
	var ids []uint64
	for id := range p.Sessions {
		ids = append(ids, id)
	}
	sortU64(ids)
	return ids
}
