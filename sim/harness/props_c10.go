package harness

import (
	"fmt"
	"os"
	"sort"
	"strings"
	"syscall"
	"time"

	"github.com/wmnsk/go-pfcp/ie"
	"github.com/wmnsk/go-pfcp/message"
)

func init() {
	Register(&PropDef{
		ID: "C10", QuickRuns: 2400, Level: "exploration",
		Rule: "one run = 0-6 associations with 0-2 sessions each on the BESS datapath; per association one trigger is drawn from {none, Association Release, peer silent past the read timeout, heartbeats unanswered}, optionally SIGTERM (Stop) for the agent, all timed on the virtual clock to collide around one instant (offsets of microseconds to hundreds of milliseconds), with a session request in flight, under all scheduling strategies (PCT change points, statement-level pre-emption) and optional faults (datagram loss, agent stall, slow BESS RPCs beyond the join timeout, ICMP unreachable). Oracle: no panic / Fatal; every key installed for a session of an ended association is deleted exactly once and nothing of it remains; the peer can associate afresh and is served; untouched associations keep their sessions and answer heartbeats; after SIGTERM Run() returns within read_timeout + (retries+1) x resp_timeout + 10 s of virtual time. Non-trivial = at least one association with a session and one trigger fired; distinct = different multiset of (trigger, #sessions) plus stop/fault kinds plus outcome.",
		Assume: []string{"main() returns when Run() returns: the process exits and every other goroutine dies with it (sessions not yet removed at that moment stay in the datapath)",
			"delete commands are counted at the simulated BESS daemon; a delete hit by an injected RPC fault may be missing"},
		Real: CommonReal, Simulated: CommonSim,
		Scenario: scenarioC10,
	})
}

type c10Plan struct {
	kaUntil int64 // keep-alive heartbeats from the peer until this instant
	p       *Peer
	trigger string
	nsess   int
	keys    map[string]bool // module|key installed for this peer's sessions
	fseids  map[uint64]bool
	ended   bool
}

func scenarioC10(r *Run) {
	r.Conf = DefaultBESSConf()
	// rarely: more associations than the node's exit-notice channel buffers (100)
	many := r.Ch.Choose(120, "many-assoc") == 1
	hbOn := r.Ch.Choose(3, "hb") != 1 && !many
	N := []uint8{1, 2}[r.Ch.Choose(2, "retries")]
	tout := []time.Duration{500 * time.Millisecond, time.Second}[r.Ch.Choose(2, "tout")]
	hbi := []time.Duration{time.Second, 2 * time.Second, 5 * time.Second}[r.Ch.Choose(3, "hbi")]
	rt := []uint32{3, 5, 15}[r.Ch.Choose(3, "readtimeout")]
	r.Conf.EnableHBTimer = hbOn
	r.Conf.MaxReqRetries = N
	r.Conf.RespTimeout = tout.String()
	r.Conf.HeartBeatInterval = hbi.String()
	r.Conf.ReadTimeout = rt
	readTimeout := time.Duration(rt) * time.Second
	r.DrawStrategy()
	// faults
	faultMode := r.Ch.Choose(5, "faults")
	switch faultMode {
	case 1:
		r.W.Net.ToAgent.DropDen, r.W.Net.FromAgent.DropDen = 25, 25
	case 2:
		r.W.Bess.Faults.SlowDen, r.W.Bess.Faults.SlowBy = 6, 1200*time.Millisecond
	case 3:
		r.W.Bess.Faults.LatJit = 400 * time.Microsecond
	}
	na := r.Ch.Choose(7, "nassoc")
	if many {
		na = 101 + r.Ch.Choose(12, "many-n")
		r.Probe("more-than-100-associations")
		r.Sim.MaxSteps = 30_000_000
		faultMode = 0
		r.W.Net.ToAgent.DropDen, r.W.Net.FromAgent.DropDen = 0, 0
		r.W.Bess.Faults.SlowDen = 0
	}
	var plans []*c10Plan
	for i := 0; i < na; i++ {
		plans = append(plans, &c10Plan{p: r.AddPeer(), keys: map[string]bool{}, fseids: map[uint64]bool{}})
	}
	r.StartAgent()
	if !r.AgentAlive() {
		r.CheckNoPanics("C10")
		return
	}
	inc := r.Inc
	g := NewGen(r)
	g.PlainQER = true
	var keepAlive func(pl *c10Plan)
	keepAlive = func(pl *c10Plan) {
		r.Sim.After(readTimeout/3, func() {
			if r.Sim.IncDead(inc) || r.Sim.NowNS() >= pl.kaUntil {
				return
			}
			pl.p.SendMsg(message.NewHeartbeatRequest(pl.p.NextSeq(), ie.NewRecoveryTimeStamp(pl.p.TS), nil))
			keepAlive(pl)
		})
	}
	for _, pl := range plans {
		if pl.p.Associate() == nil {
			if faultMode == 1 {
				pl.trigger = "unassociated"
				continue
			}
			r.Violate("C10", "no-association", "association failed")
			return
		}
		pl.kaUntil = 1 << 62
		keepAlive(pl)
		pl.nsess = r.Ch.Choose(3, "nsess")
		if many {
			pl.nsess = 0
		}
		for k := 0; k < pl.nsess; k++ {
			if res := pl.p.Establish(g.Session(pl.p, SessShape{NQER: r.Ch.Choose(3, "nq"), TEIDChoose: true, UEAlloc: r.Ch.Choose(2, "ua") == 1})); res.Accepted {
				r.Accepted++
			}
		}
		for _, s := range pl.p.Sessions {
			pl.fseids[s.UPSEID] = true
		}
	}
	// which keys belong to which peer (by fseid carried in the entries)
	owner := func(fseid uint64) *c10Plan {
		for _, pl := range plans {
			if pl.fseids[fseid] {
				return pl
			}
		}
		return nil
	}
	b := r.W.Bess
	for k, e := range b.PDR {
		if pl := owner(e.Valuesv[1]); pl != nil {
			pl.keys["pdrLookup|"+k] = true
		}
	}
	for k, e := range b.FAR {
		if pl := owner(e.Fields[1]); pl != nil {
			pl.keys["farLookup|"+k] = true
		}
	}
	for _, mod := range []string{"appQERLookup", "sessionQERLookup"} {
		for k, e := range b.Qos[mod] {
			if pl := owner(e.Fields[len(e.Fields)-1]); pl != nil {
				pl.keys[mod+"|"+k] = true
			}
		}
	}
	cmdStart := len(b.Cmds)

	// ---- plan the collision
	t0 := r.Sim.NowNS() + int64(readTimeout) + int64(6*time.Second)
	off := func() time.Duration {
		switch r.Ch.Choose(4, "offkind") {
		case 0:
			return 0
		case 1:
			return time.Duration(r.Ch.Choose(400, "off-us")) * time.Microsecond
		case 2:
			return time.Duration(r.Ch.Choose(100, "off-ms")) * time.Millisecond
		}
		return time.Duration(r.Ch.Choose(2000, "off-ms2")) * time.Millisecond
	}
	stop := r.Ch.Choose(2, "stop") == 1 || many
	var trigDesc []string
	for _, pl := range plans {
		pl := pl
		if pl.trigger == "unassociated" {
			continue
		}
		pl.trigger = []string{"none", "release", "silence", "hbfail"}[r.Ch.Choose(4, "trigger")]
		if many {
			pl.trigger = "none"
		}
		if pl.trigger == "hbfail" && !hbOn {
			pl.trigger = "silence"
		}
		trigDesc = append(trigDesc, fmt.Sprintf("%s/%d", pl.trigger, pl.nsess))
		// keep-alive traffic from the peer until its trigger (read timeout stays away)
		switch pl.trigger {
		case "silence":
			pl.kaUntil = t0 - int64(readTimeout) - int64(3*time.Second)
		case "hbfail":
			pl.kaUntil = t0 - int64(hbi) - int64(time.Duration(N+1)*tout) - int64(3*time.Second)
		}
		switch pl.trigger {
		case "release":
			r.Sim.At(t0+int64(off()), func() {
				pl.p.SendMsg(message.NewAssociationReleaseRequest(pl.p.NextSeq(), ie.NewNodeID(pl.p.NodeID, "", "")))
				r.Op("peer%d sends Association Release", pl.p.Idx)
				// a second trigger may follow closely: the peer also goes silent
				pl.p.AnswerHeartbeats = false
			})
			pl.ended = true
		case "silence":
			// last datagram so that the read deadline expires around t0
			last := t0 - int64(readTimeout) + int64(off())
			r.Sim.At(last, func() {
				pl.p.SendMsg(message.NewHeartbeatRequest(pl.p.NextSeq(), ie.NewRecoveryTimeStamp(pl.p.TS), nil))
				pl.p.AnswerHeartbeats = false
				r.Op("peer%d sends its last datagram and goes silent", pl.p.Idx)
			})
			pl.ended = true
		case "hbfail":
			// stop answering so that the retry budget runs out around t0
			from := t0 - int64(hbi) - int64(time.Duration(N+1)*tout) + int64(off())
			r.Sim.At(from, func() {
				pl.p.AnswerHeartbeats = false
				r.Op("peer%d stops answering heartbeats (keeps sending its own)", pl.p.Idx)
			})
			// the peer keeps the read timeout away with its own heartbeats for a while
			for k := int64(1); k < 6; k++ {
				at := from + k*int64(readTimeout)/2
				if at > t0+int64(2*time.Second) {
					break
				}
				r.Sim.At(at, func() {
					pl.p.SendMsg(message.NewHeartbeatRequest(pl.p.NextSeq(), ie.NewRecoveryTimeStamp(pl.p.TS), nil))
				})
			}
			pl.ended = true
		}
		// in-flight request around the instant
		if r.Ch.Choose(3, "inflight") == 1 && pl.trigger != "none" {
			r.Sim.At(t0+int64(off())-int64(300*time.Microsecond), func() {
				if r.Sim.IncDead(inc) {
					return
				}
				s := g.SessionFixed(pl.p)
				pl.p.SendMsg(pl.p.EstablishMsg(s))
				r.Op("peer%d has a Session Establishment in flight", pl.p.Idx)
				r.Probe("request-in-flight-at-teardown")
			})
		}
		if r.Ch.Choose(8, "down") == 1 && pl.trigger != "none" {
			r.Sim.At(t0-int64(readTimeout)/2, func() {
				r.W.Net.SetDown(pl.p.Addr, true)
				r.Fault("peer-unreachable-icmp")
			})
			r.Sim.At(t0+int64(4*time.Second), func() { r.W.Net.SetDown(pl.p.Addr, false) })
		}
	}
	sort.Strings(trigDesc)
	r.Skel(fmt.Sprintf("triggers=%v stop=%v faults=%d hb=%v", trigDesc, stop, faultMode, hbOn))
	var stopAt int64
	if stop {
		stopAt = t0 + int64(off())
		r.Sim.At(stopAt, func() {
			n := r.W.Signal(inc, syscall.SIGTERM)
			r.Op("SIGTERM delivered to the agent (%d handlers)", n)
		})
	}
	if r.Ch.Choose(6, "stall") == 1 {
		d := time.Duration(200+r.Ch.Choose(4000, "stall-ms")) * time.Millisecond
		r.Sim.At(t0-int64(d)/2, func() {
			r.Sim.Stall(inc, d)
			r.Fault("agent-stall")
		})
	}
	// count triggers that fire close to each other (reach probe)
	nt := 0
	for _, pl := range plans {
		if pl.ended {
			nt++
		}
	}
	if stop {
		nt++
	}
	if nt >= 2 {
		r.Probe("two-teardown-triggers-in-one-run")
	}

	bound := readTimeout + time.Duration(N+1)*tout + 10*time.Second
	r.Sim.RunUntil(nil, t0+int64(bound)+int64(hbi))
	for _, f := range []string{"bess-slow"} {
		_ = f
	}
	r.Op("config: hb=%v retries=%d resp_timeout=%v hb_interval=%v read_timeout=%v faultMode=%d triggers=%v stop=%v; fired: net=%v bess=%v harness=%v",
		hbOn, N, tout, hbi, readTimeout, faultMode, trigDesc, stop, r.W.Net.Stats, r.W.Bess.Fired, r.Faults)
	r.CheckNoPanics("C10")
	if len(r.Violations) > 0 {
		return
	}

	// ---- oracles
	if stop {
		if !r.RunReturned(inc) {
			r.Violate("C10", "stop-does-not-complete", "SIGTERM at t=%.3fs: Run() has not returned %v of virtual time later (%d associations)\n%s",
				float64(stopAt)/1e9, bound, na, strings.Join(r.Sim.BlockedTable(), "\n"))
			return
		}
		r.Probe("stop-completed")
		for _, pl := range plans {
			if pl.trigger != "unassociated" {
				pl.ended = true
			}
		}
	}
	// delete accounting per key
	state := map[string]int{} // 1 present
	for _, pl := range plans {
		for k := range pl.keys {
			state[k] = 1
		}
	}
	// a slow RPC runs into the join timeout: the agent cancels the context and
	// the remaining commands of that request are never sent (BESS errors are
	// ignored by design) -- only the exactly-once half is judged then
	slowBess := r.W.Bess.Fired["bess-slow"] > 0
	for _, c := range b.Cmds[cmdStart:] {
		k := c.Module + "|" + c.Key
		switch c.Cmd {
		case "add":
			state[k] = 1
		case "delete":
			if _, mine := state[k]; !mine {
				continue
			}
			if state[k] == 0 {
				r.Violate("C10", "session-deleted-twice", "key %s was deleted from the datapath a second time (triggers %v, stop=%v)", k, trigDesc, stop)
				return
			}
			state[k] = 0
		}
	}
	for _, pl := range plans {
		if !pl.ended {
			continue
		}
		left := 0
		var sample string
		for _, k := range sortedKeys(pl.keys) {
			if state[k] == 1 {
				left++
				sample = k
			}
		}
		if left > 0 && !slowBess && !(faultMode == 1 && pl.trigger == "release" && !stop) {
			how := pl.trigger
			if stop {
				how += "+stop"
			}
			r.Violate("C10", "sessions-not-removed:"+how, "association of peer%d ended (%s) but %d of its %d datapath entries are still installed, e.g. %s", pl.p.Idx, how, left, len(pl.keys), sample)
			return
		}
	}
	if stop {
		return
	}
	// ended associations: the peer can associate afresh and is served
	for _, pl := range plans {
		if !pl.ended {
			continue
		}
		pl.p.AnswerHeartbeats = true
		pl.p.Sessions = map[uint64]*CPSession{}
		pl.p.Associated = false
		r.W.Net.SetDown(pl.p.Addr, false)
		r.W.Net.ToAgent.DropDen, r.W.Net.FromAgent.DropDen = 0, 0
		if pl.p.Associate() == nil {
			if r.AgentAlive() {
				r.Violate("C10", "cannot-reassociate:"+pl.trigger, "after its association ended by %s, peer%d's fresh Association Setup is not accepted\n%s", pl.trigger, pl.p.Idx, strings.Join(r.Sim.BlockedTable(), "\n"))
			}
			break
		}
		if res := pl.p.Establish(g.Session(pl.p, SessShape{})); !res.Accepted && r.AgentAlive() {
			r.Violate("C10", "reassociated-peer-not-served:"+pl.trigger, "after re-association peer%d's establishment is not accepted (cause %d)", pl.p.Idx, res.Cause)
			break
		}
	}
	// untouched associations are unaffected
	for _, pl := range plans {
		if pl.ended || pl.trigger != "none" || faultMode == 1 || r.Faults["agent-stall"] > 0 {
			continue
		}
		for _, k := range sortedKeys(pl.keys) {
			if state[k] != 1 {
				r.Violate("C10", "other-association-affected", "association of peer%d had no trigger but its entry %s was removed", pl.p.Idx, k)
				break
			}
		}
		if pl.p.Heartbeat() == nil && r.AgentAlive() {
			r.Violate("C10", "other-association-affected", "association of peer%d had no trigger but no longer answers heartbeats", pl.p.Idx)
		}
	}
	r.CheckNoPanics("C10")
	_ = os.Interrupt
}
