package harness

import (
	"encoding/json"
	"fmt"
	"time"

	"github.com/omec-project/upf-epc/zzverif/vsimenv"
)

func init() {
	Register(&PropDef{
		ID: "C19", QuickRuns: 6400, Level: "exploration",
		Rule: "one run = 4-20 HTTP requests to /v1/config/network-slices executed by the agent's real handler as simulated tasks (methods GET/PUT/POST/DELETE/PATCH; well-formed documents with every unit and boundary rates 0, 1, 2^63/unit +/- 1, 2^64-1; malformed JSON, incl. a complete document followed by trailing data; body readers that fail or end early, also right after the complete document; the same document posted again; concurrent requests). Oracle: status code, number of WriteHeader calls, and the slice-meter commands that reached the simulated datapath: programmed with the stated unit arithmetic iff the answer is 201, untouched on 4xx / 405. Non-trivial = at least one 201 and one non-201 answer; distinct = different sequence of (method, body class, status).",
		Assume: []string{"the HTTP listener is replaced by the simulator; the handler, the JSON decoding and the datapath programming are real"},
		Real: CommonReal, Simulated: CommonSim,
		Scenario: scenarioC19,
	})
}

func scenarioC19(r *Run) {
	r.Conf = DefaultBESSConf()
	r.DrawStrategy()
	r.StartAgent()
	if !r.AgentAlive() {
		r.CheckNoPanics("C19")
		return
	}
	inc := r.Inc
	b := r.W.Bess
	sliceCmds := func() []vsimenv.BessCmd {
		var out []vsimenv.BessCmd
		for _, c := range b.Cmds {
			if c.Module == "sliceMeter" {
				out = append(out, c)
			}
		}
		return out
	}
	units := map[string]uint64{"bps": 1, "Kbps": 1000, "Mbps": 1000000, "Gbps": 1000000000, "": 1000000}
	unitNames := []string{"bps", "Kbps", "Mbps", "Gbps", ""}
	rate := func(unit uint64) uint64 {
		lim := (uint64(1) << 63) / unit
		switch r.Ch.Choose(9, "rate") {
		case 0:
			return 100
		case 1:
			return 0
		case 2:
			return 1
		case 3:
			return lim - 1
		case 4:
			return lim
		case 5:
			return lim + 1
		case 6:
			return ^uint64(0)
		case 7:
			return uint64(r.Ch.Choose(1<<30, "ratev"))
		}
		return lim / 2
	}
	n201, nOther := 0, 0
	havePrev, prevUn, prev := false, "", [4]uint64{}
	for k := 0; k < 4+r.Ch.Choose(17, "nreq") && r.AgentAlive() && len(r.Violations) == 0; k++ {
		method := []string{"POST", "PUT", "GET", "DELETE", "PATCH"}[r.Ch.Choose(5, "method")]
		req := &vsimenv.HTTPReq{Method: method, Path: "/v1/config/network-slices"}
		class := "wellformed"
		var ul, dl, ulb, dlb uint64
		un := unitNames[r.Ch.Choose(len(unitNames), "unit")]
		unit := units[un]
		ul, dl = rate(unit), rate(unit)
		ulb, dlb = uint64(r.Ch.Choose(1<<20, "ulb")), uint64(r.Ch.Choose(1<<20, "dlb"))
		if havePrev && r.Ch.Choose(4, "repeat") == 1 {
			// the configuration service posts the same document again (periodic sync)
			un, unit, ul, dl, ulb, dlb = prevUn, units[prevUn], prev[0], prev[1], prev[2], prev[3]
			r.Probe("same-document-posted-again")
		}
		havePrev, prevUn, prev = true, un, [4]uint64{ul, dl, ulb, dlb}
		doc := map[string]any{"sliceName": "s1", "sliceQos": map[string]any{"uplinkMbr": ul, "downlinkMbr": dl, "uplinkBurstSize": ulb, "downlinkBurstSize": dlb}}
		if un != "" {
			doc["sliceQos"].(map[string]any)["bitrateUnit"] = un
		}
		body, _ := json.Marshal(doc)
		switch r.Ch.Choose(9, "bodyclass") {
		case 7:
			// a complete document followed by something: malformed as a whole
			class = "trailing-data"
			tail := []string{"}", " xyz", string(body), `{"sliceName": "s2", "sliceQos": {"uplinkMbr": `, "]", ",", "\x00"}[r.Ch.Choose(7, "tail")]
			body = append(append([]byte{}, body...), tail...)
		case 8:
			// the stream breaks after the complete document was delivered
			class = "read-error-at-end"
			req.Fault, req.Cut = []vsimenv.BodyFault{vsimenv.BodyError, vsimenv.BodyShort}[r.Ch.Choose(2, "endfault")], len(body)
			r.Fault("http-body-error-after-complete-document")
		case 1:
			class = "malformed"
			body = []byte(`{"sliceName": "s1", "sliceQos": {"uplinkMbr": `)
		case 2:
			class = "not-json"
			body = []byte("hello")
		case 3:
			class = "read-error"
			req.Fault, req.Cut = vsimenv.BodyError, r.Ch.Choose(len(body), "cut")
			r.Fault("http-body-read-error")
		case 4:
			class = "short-body"
			req.Fault, req.Cut = vsimenv.BodyShort, r.Ch.Choose(len(body), "cut")
			r.Fault("http-short-body")
		case 5:
			class = "wrong-types"
			body = []byte(`{"sliceName": 5, "sliceQos": {"uplinkMbr": "fast"}}`)
		}
		req.Body = body
		before := len(sliceCmds())
		if !r.W.HTTP.Submit(inc, req) {
			r.Violate("C19", "http-not-listening", "the HTTP endpoint is not served")
			return
		}
		r.Sim.RunUntil(func() bool { return req.Done }, r.until(10*time.Second))
		if !req.Done {
			if r.AgentAlive() {
				r.Violate("C19", "http-request-hangs", "%s with %s body did not complete within 10 s", method, class)
			}
			return
		}
		r.Sim.RunFor(5 * time.Millisecond)
		after := sliceCmds()[before:]
		r.Op("%s %s body (%s ul=%d dl=%d) -> %d (WriteHeader x%d), %d slice-meter commands", method, class, un, ul, dl, req.Status, req.WriteHeaders, len(after))
		r.Skel(fmt.Sprintf("%s:%s:%d", method, class, req.Status))
		if req.Panicked {
			r.Violate("C19", "handler-panic:"+class, "the handler panicked on a %s %s body", method, class)
			return
		}
		if req.WriteHeaders != 1 {
			r.Violate("C19", fmt.Sprintf("writeheader-count:%s:%d", class, req.WriteHeaders), "%s with %s body: WriteHeader called %d times (first status %d)", method, class, req.WriteHeaders, req.Status)
			return
		}
		isWrite := method == "POST" || method == "PUT"
		wantStatus := 405
		if isWrite {
			if class == "wellformed" {
				wantStatus = 201
			} else {
				wantStatus = 400
			}
		}
		if wantStatus == 400 {
			if req.Status < 400 || req.Status > 499 {
				r.Violate("C19", "status:"+class, "%s with %s body answered %d, a 4xx is required", method, class, req.Status)
				return
			}
		} else if req.Status != wantStatus {
			r.Violate("C19", fmt.Sprintf("status:%s:%s", method, class), "%s with %s body answered %d, expected %d", method, class, req.Status, wantStatus)
			return
		}
		if req.Status == 201 {
			n201++
			r.Accepted++
		} else {
			nOther++
		}
		if req.Status != 201 {
			if len(after) != 0 {
				r.Violate("C19", "datapath-touched:"+class, "%s with %s body answered %d but %d slice-meter command(s) reached the datapath", method, class, req.Status, len(after))
				return
			}
			continue
		}
		// 201: programmed with the stated unit arithmetic exactly when the rate is
		// non-zero and the converted value fits in 63 bits
		fits := func(v uint64) bool { return v != 0 && v <= ((uint64(1)<<63)-1)/unit }
		if !fits(ul) || !fits(dl) {
			r.Probe("rate-zero-or-overflow")
			continue // the property does not state what is programmed then
		}
		if len(after) != 2 {
			r.Violate("C19", "slice-meter-command-count", "201 for ul=%d dl=%d %s but %d slice-meter commands reached the datapath (one per direction expected)", ul, dl, un, len(after))
			return
		}
		// entries: key (action, tunnel_out_type): uplink N6 = (1,0), downlink N3 = (0,1)
		up := b.Qos["sliceMeter"]["1,0"]
		dn := b.Qos["sliceMeter"]["0,1"]
		if up == nil || dn == nil {
			r.Violate("C19", "slice-meter-entries-missing", "201 but the slice meter lacks the uplink or downlink entry")
			return
		}
		wantUL, wantDL := ul*unit/8, dl*unit/8 // bit/s -> byte/s as the BESS meter takes bytes
		if up.Pir != wantUL || dn.Pir != wantDL {
			r.Violate("C19", "slice-meter-rate", "posted uplink %d / downlink %d %s: programmed peak rates %d / %d byte/s, expected %d / %d", ul, dl, un, up.Pir, dn.Pir, wantUL, wantDL)
			return
		}
		if (ulb != 0 && up.Pbs != ulb) || (dlb != 0 && dn.Pbs != dlb) {
			r.Violate("C19", "slice-meter-burst", "posted burst sizes %d / %d, programmed %d / %d", ulb, dlb, up.Pbs, dn.Pbs)
			return
		}
	}
	if n201 > 0 && nOther > 0 {
		r.Probe("accepted-and-refused-in-one-run")
	}
	r.CheckNoPanics("C19")
}
