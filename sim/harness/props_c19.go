package harness

import (
	"encoding/json"
	"fmt"
	"strings"
	"time"

	"github.com/omec-project/upf-epc/zzverif/vsimenv"
)

func init() {
	Register(&PropDef{
		ID: "C19", QuickRuns: 6400, Level: "exploration",
		Rule:   "one run = 4-20 HTTP requests to /v1/config/network-slices executed by the agent's real handler as simulated tasks (methods GET/PUT/POST/DELETE/PATCH; well-formed documents with every unit and boundary rates 0, 1, 2^63/unit +/- 1, 2^64-1; malformed JSON, incl. a complete document followed by trailing data; body readers that fail or end early, also right after the complete document; the same document posted again; clients that go away while the handler works, with a datapath answering late; concurrent requests; one run in five on the P4Runtime datapath, the document posted while the agent sets up its channel, after a switch restart, or in steady state). Oracle: status code, number of WriteHeader calls, and the slice-meter commands that reached the simulated datapath: programmed with the stated unit arithmetic iff the answer is 201, untouched on 4xx / 405. Non-trivial = at least one 201 and one non-201 answer; distinct = different sequence of (method, body class, status).",
		Assume: []string{"the HTTP listener is replaced by the simulator; the handler, the JSON decoding and the datapath programming are real"},
		Real:   CommonReal, Simulated: CommonSim,
		Scenario: scenarioC19,
	})
}

func scenarioC19(r *Run) {
	if r.Ch.Choose(5, "datapath") == 1 {
		scenarioC19UP4(r)
		return
	}
	r.Conf = DefaultBESSConf()
	r.DrawStrategy()
	if r.Ch.Choose(3, "slow-bess") == 1 {
		// a datapath that answers late (inside its 1 s deadline)
		r.W.Bess.Faults.SlowDen, r.W.Bess.Faults.SlowBy = 2, []time.Duration{300 * time.Microsecond, 5 * time.Millisecond, 200 * time.Millisecond}[r.Ch.Choose(3, "slow-by")]
	}
	r.StartAgent()
	if !r.AgentAlive() {
		r.CheckNoPanics("C19")
		return
	}
	inc := r.Inc
	b := r.W.Bess
	sliceCmds := func() []vsimenv.BessCmd {
		var out []vsimenv.BessCmd
		for _, c := range b.Cmds {
			if c.Module == "sliceMeter" {
				out = append(out, c)
			}
		}
		return out
	}
	units := map[string]uint64{"bps": 1, "Kbps": 1000, "Mbps": 1000000, "Gbps": 1000000000, "": 1000000}
	unitNames := []string{"bps", "Kbps", "Mbps", "Gbps", ""}
	rate := func(unit uint64) uint64 {
		lim := (uint64(1) << 63) / unit
		switch r.Ch.Choose(9, "rate") {
		case 0:
			return 100
		case 1:
			return 0
		case 2:
			return 1
		case 3:
			return lim - 1
		case 4:
			return lim
		case 5:
			return lim + 1
		case 6:
			return ^uint64(0)
		case 7:
			return uint64(r.Ch.Choose(1<<30, "ratev"))
		}
		return lim / 2
	}
	n201, nOther := 0, 0
	havePrev, prevUn, prev := false, "", [4]uint64{}
	for k := 0; k < 4+r.Ch.Choose(17, "nreq") && r.AgentAlive() && len(r.Violations) == 0; k++ {
		method := []string{"POST", "PUT", "GET", "DELETE", "PATCH"}[r.Ch.Choose(5, "method")]
		req := &vsimenv.HTTPReq{Method: method, Path: "/v1/config/network-slices"}
		class := "wellformed"
		var ul, dl, ulb, dlb uint64
		un := unitNames[r.Ch.Choose(len(unitNames), "unit")]
		unit := units[un]
		ul, dl = rate(unit), rate(unit)
		ulb, dlb = uint64(r.Ch.Choose(1<<20, "ulb")), uint64(r.Ch.Choose(1<<20, "dlb"))
		if havePrev && r.Ch.Choose(4, "repeat") == 1 {
			// the configuration service posts the same document again (periodic sync)
			un, unit, ul, dl, ulb, dlb = prevUn, units[prevUn], prev[0], prev[1], prev[2], prev[3]
			r.Probe("same-document-posted-again")
		}
		havePrev, prevUn, prev = true, un, [4]uint64{ul, dl, ulb, dlb}
		doc := map[string]any{"sliceName": "s1", "sliceQos": map[string]any{"uplinkMbr": ul, "downlinkMbr": dl, "uplinkBurstSize": ulb, "downlinkBurstSize": dlb}}
		if un != "" {
			doc["sliceQos"].(map[string]any)["bitrateUnit"] = un
		}
		if r.Ch.Choose(8, "large-document") == 1 {
			// a slice with many UE pools: a well-formed document of several kilobytes
			var pools []map[string]any
			for i := 0; i < 60+r.Ch.Choose(900, "n-ue-pools"); i++ {
				pools = append(pools, map[string]any{"uePoolId": fmt.Sprintf("pool-%04d", i), "dnn": "internet"})
			}
			doc["ueResourceInfo"] = pools
			r.Probe("well-formed-document-of-several-kilobytes")
		}
		body, _ := json.Marshal(doc)
		switch r.Ch.Choose(10, "bodyclass") {
		case 9:
			// the client goes away while the handler works (its own timeout, a proxy
			// reset): no answer is read, but the datapath must end up with what was
			// posted in both directions, or untouched
			class = "client-gone"
			req.CancelAfter = []time.Duration{20 * time.Microsecond, 150 * time.Microsecond, 400 * time.Microsecond, 2 * time.Millisecond, 50 * time.Millisecond, 300 * time.Millisecond}[r.Ch.Choose(6, "gone-after")]
			r.Fault("http-client-gone-during-request")
		case 7:
			// a complete document followed by something: malformed as a whole
			class = "trailing-data"
			tail := []string{"}", " xyz", string(body), `{"sliceName": "s2", "sliceQos": {"uplinkMbr": `, "]", ",", "\x00"}[r.Ch.Choose(7, "tail")]
			body = append(append([]byte{}, body...), tail...)
		case 8:
			// the stream breaks after the complete document was delivered
			class = "read-error-at-end"
			req.Fault, req.Cut = []vsimenv.BodyFault{vsimenv.BodyError, vsimenv.BodyShort}[r.Ch.Choose(2, "endfault")], len(body)
			r.Fault("http-body-error-after-complete-document")
		case 1:
			class = "malformed"
			body = []byte(`{"sliceName": "s1", "sliceQos": {"uplinkMbr": `)
		case 2:
			class = "not-json"
			body = []byte("hello")
		case 3:
			class = "read-error"
			req.Fault, req.Cut = vsimenv.BodyError, r.Ch.Choose(len(body), "cut")
			r.Fault("http-body-read-error")
		case 4:
			class = "short-body"
			req.Fault, req.Cut = vsimenv.BodyShort, r.Ch.Choose(len(body), "cut")
			r.Fault("http-short-body")
		case 5:
			class = "wrong-types"
			body = []byte(`{"sliceName": 5, "sliceQos": {"uplinkMbr": "fast"}}`)
		}
		req.Body = body
		before := len(sliceCmds())
		if !r.W.HTTP.Submit(inc, req) {
			r.Violate("C19", "http-not-listening", "the HTTP endpoint is not served")
			return
		}
		r.Sim.RunUntil(func() bool { return req.Done }, r.until(10*time.Second))
		if !req.Done {
			if r.AgentAlive() {
				r.Violate("C19", "http-request-hangs", "%s with %s body did not complete within 10 s", method, class)
			}
			return
		}
		r.Sim.RunFor(5 * time.Millisecond)
		if class == "client-gone" {
			r.Sim.RunFor(1500 * time.Millisecond) // whatever RPC is still on its way completes or times out
			after := sliceCmds()[before:]
			r.Op("%s, client gone after %v (%s ul=%d dl=%d) -> %d slice-meter commands", method, req.CancelAfter, un, ul, dl, len(after))
			r.Skel(fmt.Sprintf("%s:client-gone:%d", method, len(after)))
			if req.Panicked {
				r.Violate("C19", "handler-panic:"+class, "the handler panicked when the client went away")
				return
			}
			isWrite := method == "POST" || method == "PUT"
			fits := func(v uint64) bool { return v != 0 && v <= ((uint64(1)<<63)-1)/unit }
			if !isWrite {
				if len(after) != 0 {
					r.Violate("C19", "datapath-touched:"+class, "%s (client gone) but %d slice-meter command(s) reached the datapath", method, len(after))
					return
				}
				continue
			}
			if !fits(ul) || !fits(dl) {
				continue
			}
			if len(after) != 0 && len(after) != 2 {
				r.Violate("C19", "slice-meter-half-programmed:client-gone", "%s of ul=%d dl=%d %s whose client went away after %v: %d slice-meter command reached the datapath (both directions or none expected)", method, ul, dl, un, req.CancelAfter, len(after))
				return
			}
			if len(after) == 2 {
				up, dn := b.Qos["sliceMeter"]["1,0"], b.Qos["sliceMeter"]["0,1"]
				if up == nil || dn == nil || up.Pir != ul*unit/8 || dn.Pir != dl*unit/8 {
					r.Violate("C19", "slice-meter-rate:client-gone", "posted uplink %d / downlink %d %s (client gone): programmed entries do not carry these rates", ul, dl, un)
					return
				}
				n201++
			}
			continue
		}
		after := sliceCmds()[before:]
		r.Op("%s %s body (%s ul=%d dl=%d) -> %d (WriteHeader x%d), %d slice-meter commands", method, class, un, ul, dl, req.Status, req.WriteHeaders, len(after))
		r.Skel(fmt.Sprintf("%s:%s:%d", method, class, req.Status))
		if req.Panicked {
			r.Violate("C19", "handler-panic:"+class, "the handler panicked on a %s %s body", method, class)
			return
		}
		if req.WriteHeaders != 1 {
			r.Violate("C19", fmt.Sprintf("writeheader-count:%s:%d", class, req.WriteHeaders), "%s with %s body: WriteHeader called %d times (first status %d)", method, class, req.WriteHeaders, req.Status)
			return
		}
		isWrite := method == "POST" || method == "PUT"
		wantStatus := 405
		if isWrite {
			if class == "wellformed" {
				wantStatus = 201
			} else {
				wantStatus = 400
			}
		}
		if wantStatus == 400 {
			if req.Status < 400 || req.Status > 499 {
				r.Violate("C19", "status:"+class, "%s with %s body answered %d, a 4xx is required", method, class, req.Status)
				return
			}
		} else if req.Status != wantStatus {
			r.Violate("C19", fmt.Sprintf("status:%s:%s", method, class), "%s with %s body answered %d, expected %d", method, class, req.Status, wantStatus)
			return
		}
		if req.Status == 201 {
			n201++
			r.Accepted++
		} else {
			nOther++
		}
		if req.Status != 201 {
			if len(after) != 0 {
				r.Violate("C19", "datapath-touched:"+class, "%s with %s body answered %d but %d slice-meter command(s) reached the datapath", method, class, req.Status, len(after))
				return
			}
			continue
		}
		// 201: programmed with the stated unit arithmetic exactly when the rate is
		// non-zero and the converted value fits in 63 bits
		fits := func(v uint64) bool { return v != 0 && v <= ((uint64(1)<<63)-1)/unit }
		if !fits(ul) || !fits(dl) {
			r.Probe("rate-zero-or-overflow")
			continue // the property does not state what is programmed then
		}
		if len(after) != 2 {
			r.Violate("C19", "slice-meter-command-count", "201 for ul=%d dl=%d %s but %d slice-meter commands reached the datapath (one per direction expected)", ul, dl, un, len(after))
			return
		}
		// entries: key (action, tunnel_out_type): uplink N6 = (1,0), downlink N3 = (0,1)
		up := b.Qos["sliceMeter"]["1,0"]
		dn := b.Qos["sliceMeter"]["0,1"]
		if up == nil || dn == nil {
			r.Violate("C19", "slice-meter-entries-missing", "201 but the slice meter lacks the uplink or downlink entry")
			return
		}
		wantUL, wantDL := ul*unit/8, dl*unit/8 // bit/s -> byte/s as the BESS meter takes bytes
		if up.Pir != wantUL || dn.Pir != wantDL {
			r.Violate("C19", "slice-meter-rate", "posted uplink %d / downlink %d %s: programmed peak rates %d / %d byte/s, expected %d / %d", ul, dl, un, up.Pir, dn.Pir, wantUL, wantDL)
			return
		}
		if (ulb != 0 && up.Pbs != ulb) || (dlb != 0 && dn.Pbs != dlb) {
			r.Violate("C19", "slice-meter-burst", "posted burst sizes %d / %d, programmed %d / %d", ulb, dlb, up.Pbs, dn.Pbs)
			return
		}
	}
	if n201 > 0 && nOther > 0 {
		r.Probe("accepted-and-refused-in-one-run")
	}
	r.CheckNoPanics("C19")
}

// scenarioC19UP4: the slice endpoint on the P4Runtime datapath. The document is
// posted while the agent is still setting up its channel to the switch, after
// the switch restarted its P4Runtime server, or in steady state: as long as the
// switch is up, 201 means the slice meter cell was written.
func scenarioC19UP4(r *Run) {
	r.DrawUP4Conf()
	r.DrawStrategy()
	r.Sim.StepCost = 0 // the start-up loops over whole meter arrays would take minutes of virtual time
	sw := r.W.P4
	r.StartAgent()
	if !r.AgentAlive() {
		r.CheckNoPanics("C19")
		return
	}
	when := r.Ch.Choose(3, "when")
	switch when {
	case 0: // right after start: the agent's first connection round may not be through yet
		r.Sim.RunFor(time.Duration(r.Ch.Choose(3000, "early-us")) * time.Microsecond)
	default:
		if !r.WaitUP4Ready() {
			r.CheckNoPanics("C19")
			return
		}
		r.Sim.RunFor(50 * time.Millisecond)
	}
	r.Skel(fmt.Sprintf("up4 when=%d", when))
	mid := int64(sw.ID(mSlice))
	for k := 0; k < 1+r.Ch.Choose(4, "nreq") && r.AgentAlive() && len(r.Violations) == 0; k++ {
		if when == 2 || (k > 0 && r.Ch.Choose(3, "restart") == 1) {
			sw.Restart(true)
			r.Fault("p4-stream-broken-by-switch-restart")
			r.Sim.RunFor(time.Duration(10+r.Ch.Choose(3000, "after-restart-ms")) * time.Millisecond)
			when = 1
		}
		ul, dl := uint64(1+r.Ch.Choose(1<<20, "ul")), uint64(1+r.Ch.Choose(1<<20, "dl"))
		body := []byte(fmt.Sprintf(`{"sliceName":"s1","sliceQos":{"uplinkMbr":%d,"downlinkMbr":%d,"bitrateUnit":"Kbps","uplinkBurstSize":%d,"downlinkBurstSize":%d}}`, ul, dl, 1+r.Ch.Choose(1<<20, "b1"), 1+r.Ch.Choose(1<<20, "b2")))
		req := &vsimenv.HTTPReq{Method: []string{"POST", "PUT"}[r.Ch.Choose(2, "method")], Path: "/v1/config/network-slices", Body: body}
		before := len(sw.WriteLog)
		failWrite := when == 1 && r.Ch.Choose(6, "slice-write-refused") == 1
		if failWrite {
			// the switch refuses the slice-meter Write: what the property says about the
			// answer then is not much - but it is ONE answer
			sw.FailKind = []string{"transport", "update", "bare-unknown"}[r.Ch.Choose(3, "slice-fail-kind")]
			sw.Faults.FailNth = sw.Writes + 1
			r.Fault("slice-meter-write-refused")
		}
		slowWrite := when == 1 && !failWrite && r.Ch.Choose(4, "slow-slice-write") == 1
		if slowWrite {
			// the switch takes seconds over this Write (it is applied, and answered, late):
			// the client is answered when the datapath has answered, with what really happened
			sw.Faults.SlowDen, sw.Faults.SlowBy = 1, time.Duration(2100+r.Ch.Choose(3000, "slow-slice-ms"))*time.Millisecond
			r.Fault("slice-meter-write-takes-seconds")
		}
		if !r.W.HTTP.Submit(r.Inc, req) {
			r.Violate("C19", "http-not-listening", "the HTTP endpoint is not served")
			return
		}
		r.Sim.RunUntil(func() bool { return req.Done }, r.until(40*time.Second))
		if slowWrite {
			sw.Faults.SlowDen = 0
			r.Sim.RunFor(6 * time.Second) // whatever is still on its way to the switch has arrived
		}
		if !req.Done {
			if r.AgentAlive() {
				r.Violate("C19", "http-request-hangs:up4", "%s did not complete within 40 s\n%s", req.Method, strings.Join(r.Sim.BlockedTable(), "\n"))
			}
			return
		}
		r.Sim.RunFor(5 * time.Millisecond)
		wrote := 0
		for _, w := range sw.WriteLog[before:] {
			if w.Failed == "" && strings.Contains(w.Summary, fmt.Sprintf("MOD:M%d[", mid)) {
				wrote++
			}
		}
		r.Op("UP4 %s ul=%d dl=%d Kbps -> %d, %d slice meter write(s)", req.Method, ul, dl, req.Status, wrote)
		if req.WriteHeaders != 1 {
			r.Violate("C19", fmt.Sprintf("writeheader-count:up4:%d", req.WriteHeaders), "WriteHeader called %d times", req.WriteHeaders)
			return
		}
		if failWrite {
			hit := sw.Faults.FailNth != 0 && sw.Writes >= sw.Faults.FailNth
			sw.Faults.FailNth = 0
			r.Skel(fmt.Sprintf("up4:slice-write-refused:%v:%d", hit, req.Status))
			if hit {
				continue // one answer was given; status and datapath contents after a refused write are not judged
			}
		}
		if req.Status == 201 {
			r.Accepted++
			if wrote == 0 {
				r.Violate("C19", "slice-meter-not-written:up4", "%s of a well-formed document answered 201 while the switch was up (posted %s after the agent start / a switch restart), but no write of the slice meter cell reached the switch", req.Method, []string{"right", "well"}[min(when, 1)])
				return
			}
			want := ul
			if dl > want {
				want = dl
			}
			got := int64(-1)
			for _, c := range sw.Meters[uint32(mid)] {
				got = c.Pir
			}
			if got != int64(want*1000) {
				r.Violate("C19", "slice-meter-rate:up4", "posted uplink %d / downlink %d Kbps: slice meter peak rate %d, expected %d (the larger of the two, converted by the unit)", ul, dl, got, want*1000)
				return
			}
		} else if req.Status != 201 {
			r.Violate("C19", "status:up4:wellformed", "%s of a well-formed document answered %d", req.Method, req.Status)
			return
		}
	}
	r.CheckNoPanics("C19")
}
