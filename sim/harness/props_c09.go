package harness

import (
	"fmt"
	"math/big"
	"strings"
	"time"

	"github.com/omec-project/upf-epc/pfcpiface"
	"github.com/omec-project/upf-epc/zzverif/vsimenv"
)

func init() {
	Register(&PropDef{
		ID: "C09", QuickRuns: 4800, Level: "exploration",
		Rule:   "one run = 2-8 sessions on the BESS datapath (one run in six instead plays sessions with one QER, with or without rates, on the P4Runtime datapath before and after kill -9 / restart of the agent, judged by the C04 image oracle incl. the application meter rate per direction; per-QFI burst configuration drawn: committed / peak / excess burst minima and burst duration, default entry present or not; the UP4 side - gate -> drop action, QFI, traffic class per QFI - is judged by the C04 image oracle) with 0-4 QERs whose rates are drawn over the 40-bit range with boundary bias (0, 1, 7, 8, 2^40-1, GBR <= MBR), both gate bits, QFIs 0..63, and QER lists per PDR drawn to hit the shapes that matter (same list in other orders, GBR only, a common QER missing from one PDR, single QER); then modifications that create or update QERs. Oracle at the simulated datapath: gate closed -> drop gate; otherwise peak rate = MBR x 125 and (BESS) committed rate = max(GBR x 125, 1), both rates zero -> unmetered; burst sizes >= rate x duration and >= the configured minimum; the QER found in the session-wide table is referenced by every PDR of the session and its parameters are that QER's, also after later messages. Non-trivial = at least one session with two or more QERs accepted; distinct = different sequence of (QER shape, list shape, outcome).",
		Assume: []string{"which QER sits in the session-wide table is recognised by its absence from the application table", "x125 = kbit/s to byte/s, from the property statement"},
		Real:   CommonReal, Simulated: CommonSim,
		Scenario: scenarioC09,
	})
}

type qciCfg struct {
	cbs, pbs, ebs, durMs uint32
}

// expectBESSQER computes the stated arithmetic for one direction.
func expectBESSQER(gateClosed bool, mbr, gbr uint64, cfg qciCfg) (gate, cir, pir uint64, metered bool, minCbs, minPbs, minEbs uint64) {
	if gateClosed {
		return 5, 0, 0, false, 0, 0, 0
	}
	if mbr == 0 && gbr == 0 {
		return 6, 0, 0, false, 0, 0, 0
	}
	cir = gbr * 125
	if cir < 1 {
		cir = 1
	}
	pir = mbr * 125
	d := uint64(cfg.durMs)
	minCbs = maxU(rateTimesMs(gbr*125, d), uint64(cfg.cbs))
	minPbs = maxU(rateTimesMs(mbr*125, d), uint64(cfg.pbs))
	minEbs = maxU(rateTimesMs(mbr*125, d), uint64(cfg.ebs))
	return 0, cir, pir, true, minCbs, minPbs, minEbs
}

// rateTimesMs: bytes per second x milliseconds / 1000 in exact arithmetic; what does
// not fit 64 bits is the largest value there is (a burst cannot be larger).
func rateTimesMs(bytesPerSec, ms uint64) uint64 {
	v := new(big.Int).Mul(new(big.Int).SetUint64(bytesPerSec), new(big.Int).SetUint64(ms))
	v.Div(v, big.NewInt(1000))
	if !v.IsUint64() {
		return ^uint64(0)
	}
	return v.Uint64()
}

func maxU(a, b uint64) uint64 {
	if a > b {
		return a
	}
	return b
}

func scenarioC09(r *Run) {
	if r.Ch.Choose(6, "datapath") == 1 {
		scenarioC09UP4(r)
		return
	}
	r.FirstOnly = true
	r.Conf = DefaultBESSConf()
	// per-QFI burst configuration
	cfgs := map[uint8]qciCfg{}
	draw := func() qciCfg {
		c := qciCfg{cbs: uint32(1000 * (1 + r.Ch.Choose(100, "cbs"))), pbs: uint32(1000 * (1 + r.Ch.Choose(100, "pbs"))), ebs: uint32(1000 * (1 + r.Ch.Choose(100, "ebs"))), durMs: uint32(1 + r.Ch.Choose(50, "dur"))}
		if r.Ch.Choose(8, "long-burst-duration") == 1 {
			// minutes instead of milliseconds: rate x duration no longer fits 64 bits for the top rates
			c.durMs = uint32(100000 + r.Ch.Choose(400000, "dur-long"))
		}
		return c
	}
	def := qciCfg{cbs: 32 * 1514, pbs: 32 * 1514, ebs: 32 * 1514, durMs: 10} // shipped default when qci 0 is not configured (README / sample config)
	if r.Ch.Choose(2, "defcfg") == 1 {
		def = draw()
		cfgs[0] = def
	}
	for _, q := range []uint8{9, 5} {
		if r.Ch.Choose(2, "qcfg") == 1 {
			cfgs[q] = draw()
		}
	}
	for q, c := range cfgs {
		r.Conf.QciQosConfig = append(r.Conf.QciQosConfig, pfcpiface.QciQosConfig{QCI: q, CBS: c.cbs, PBS: c.pbs, EBS: c.ebs, BurstDurationMs: c.durMs})
	}
	cfgFor := func(qfi uint8) qciCfg {
		if c, ok := cfgs[qfi]; ok {
			return c
		}
		return def
	}
	r.DrawStrategy()
	if r.Ch.Choose(4, "lost-responses") == 1 {
		// the response of an RPC is lost now and then after the daemon applied the
		// command (the plug-in sees an error): what the tables hold is unaffected
		r.W.Bess.Faults.FailDen, r.W.Bess.Faults.FailLostResp = []int{8, 20}[r.Ch.Choose(2, "lost-den")], true
		r.W.Bess.Faults.LatJit = 300 * time.Microsecond
	}
	p := r.AddPeer()
	r.StartAgent()
	if !r.AgentAlive() || p.AssociateRetry() == nil {
		r.CheckNoPanics("C09")
		return
	}
	g := NewGen(r)
	checkSession := func(s *CPSession, ctx, shape string) {
		b := r.W.Bess
		get := func(mod string, key string) *vsimenv.QosEntry { return b.Qos[mod][key] }
		var inSession []*QERSpec
		for _, q := range s.QERs {
			for di, dir := range []uint64{bessAccess, bessCore} {
				closed := (di == 0 && q.GateUL == 1) || (di == 1 && q.GateDL == 1)
				mbr, gbr := q.MBRUL, q.GBRUL
				if di == 1 {
					mbr, gbr = q.MBRDL, q.GBRDL
				}
				if !q.HasMBR {
					mbr = 0
				}
				if !q.HasGBR {
					gbr = 0
				}
				e := get("appQERLookup", fmt.Sprintf("%d,%d,%d", dir, q.ID, s.UPSEID))
				level := "application"
				if e == nil {
					e = get("sessionQERLookup", fmt.Sprintf("%d,%d", dir, s.UPSEID))
					level = "session"
					if di == 0 {
						inSession = append(inSession, q)
					}
				}
				if e == nil {
					r.Violate("C09", "qer-not-programmed:"+shape, "%s: QER %d of session up=%d has no entry for direction %d", ctx, q.ID, s.UPSEID, dir)
					return
				}
				gate, cir, pir, metered, minCbs, minPbs, minEbs := expectBESSQER(closed, mbr, gbr, cfgFor(q.QFI))
				if e.Gate != gate {
					r.Violate("C09", fmt.Sprintf("wrong-gate:%s:%s", level, shape), "%s: QER %d (%s level, dir %d): gate %d at the datapath, expected %d (gate closed=%v mbr=%d gbr=%d)", ctx, q.ID, level, dir, e.Gate, gate, closed, mbr, gbr)
					return
				}
				if !metered {
					continue
				}
				if gbr <= mbr && (e.Pir != pir || e.Cir != cir) {
					r.Violate("C09", fmt.Sprintf("wrong-rate:%s:%s", level, shape), "%s: QER %d (%s level, dir %d): cir=%d pir=%d at the datapath; MBR %d kbit/s x 125 = %d, GBR %d x 125 floored at 1 = %d", ctx, q.ID, level, dir, e.Cir, e.Pir, mbr, pir, gbr, cir)
					return
				}
				if e.Cbs < minCbs || e.Pbs < minPbs || e.Ebs < minEbs {
					r.Violate("C09", fmt.Sprintf("burst-too-small:%s", whichBurst(e, minCbs, minPbs, minEbs)), "%s: QER %d (QFI %d, dir %d): cbs=%d pbs=%d ebs=%d at the datapath; required >= %d / %d / %d (rate x %d ms, configured minima %+v)", ctx, q.ID, q.QFI, dir, e.Cbs, e.Pbs, e.Ebs, minCbs, minPbs, minEbs, cfgFor(q.QFI).durMs, cfgFor(q.QFI))
					return
				}
			}
		}
		if len(inSession) > 1 {
			r.Violate("C09", "two-qers-without-own-entry:"+shape, "%s: QERs %d and %d of session up=%d are both absent from the application table (only one QER per session can be the session-wide limiter)", ctx, inSession[0].ID, inSession[1].ID, s.UPSEID)
			return
		}
		if len(inSession) == 1 {
			q := inSession[0]
			for _, pd := range s.PDRs {
				ref := false
				for _, id := range pd.QERIDs {
					if id == q.ID {
						ref = true
					}
				}
				if !ref {
					r.Violate("C09", "session-limiter-not-common:"+shape, "%s: QER %d is treated as the session-wide limiter of session up=%d but PDR %d (QER list %v) does not reference it", ctx, q.ID, s.UPSEID, pd.ID, pd.QERIDs)
					return
				}
			}
		}
	}
	n := 2 + r.Ch.Choose(7, "nsess")
	for i := 0; i < n && r.AgentAlive() && len(r.Violations) == 0; i++ {
		nq := r.Ch.Choose(5, "nqer")
		s := g.Session(p, SessShape{NQER: nq, ExtraPDRs: r.Ch.Choose(2, "ex")})
		shape := fmt.Sprintf("q%d", nq)
		// list shapes
		switch r.Ch.Choose(7, "listshape") {
		case 6: // the first PDR pair references no QER at all (signalling flow), the others share theirs
			if nq >= 2 && len(s.PDRs) >= 4 {
				s.PDRs[0].QERIDs, s.PDRs[1].QERIDs = nil, nil
				shape += "-first-pair-without-qer"
			}
		case 5: // one QER of its own per PDR pair + one QER shared by all (last in every list)
			if nq >= 2 {
				shared := s.QERs[nq-1]
				for k, pd := range s.PDRs {
					own := s.QERs[(k/2)%(nq-1)]
					pd.QERIDs = []uint32{own.ID, shared.ID}
				}
				// the shared one may limit one direction only
				switch r.Ch.Choose(4, "shared-one-direction") {
				case 1:
					shared.HasMBR, shared.MBRUL = true, 0
					if shared.MBRDL == 0 {
						shared.MBRDL = 50000
					}
					shared.GBRUL = 0
				case 2:
					shared.HasMBR, shared.MBRDL = true, 0
					if shared.MBRUL == 0 {
						shared.MBRUL = 50000
					}
					shared.GBRDL = 0
				}
				shape += "-own+shared"
			}
		case 1: // reversed order on downlink PDRs
			for _, pd := range s.PDRs {
				if pd.SrcIface == IfCore {
					for a, b := 0, len(pd.QERIDs)-1; a < b; a, b = a+1, b-1 {
						pd.QERIDs[a], pd.QERIDs[b] = pd.QERIDs[b], pd.QERIDs[a]
					}
				}
			}
			shape += "-reversed"
		case 2: // all QERs GBR
			for _, q := range s.QERs {
				q.HasGBR, q.HasMBR = true, true
				if q.MBRUL == 0 {
					q.MBRUL = 1000
				}
				if q.MBRDL == 0 {
					q.MBRDL = 1000
				}
				q.GBRUL, q.GBRDL = q.MBRUL/2+1, q.MBRDL/2+1
			}
			shape += "-allgbr"
		case 3: // the last QER is missing from one PDR
			if nq >= 2 {
				pd := s.PDRs[len(s.PDRs)-1]
				pd.QERIDs = pd.QERIDs[:len(pd.QERIDs)-1]
				shape += "-notcommon"
			}
		case 4: // each PDR lists a single QER
			for k, pd := range s.PDRs {
				if nq > 0 {
					pd.QERIDs = []uint32{s.QERs[k%nq].ID}
				}
			}
			shape += "-single"
		}
		res := p.Establish(s)
		r.Op("establish cp=%d %s qers=%v -> accepted=%v", s.CPSEID, shape, describeQERs(s), res.Accepted)
		r.Skel("est:" + shape)
		if !res.Accepted {
			continue
		}
		r.Accepted++
		checkSession(s, fmt.Sprintf("after establishment of cp=%d (%s) %s", s.CPSEID, shape, describeQERs(s)), shape)
		// later messages: create / update other QERs
		for k := 0; k < r.Ch.Choose(3, "nmods") && len(r.Violations) == 0; k++ {
			var m *ModSpec
			kind := "uQ"
			if r.Ch.Choose(2, "modq") == 0 && len(s.QERs) > 0 {
				q := g.QER(s.QERs[r.Ch.Choose(len(s.QERs), "which")].ID)
				m = &ModSpec{Tag: "uQ", UpdateQER: []*QERSpec{q}}
			} else {
				kind = "cQ"
				m = &ModSpec{Tag: "cQ", CreateQER: []*QERSpec{g.QER(uint32(len(s.QERs) + 1))}}
			}
			mr := p.Modify(s, m)
			r.Op("modify cp=%d %s -> accepted=%v", s.CPSEID, m.Describe(), mr.Accepted)
			r.Skel("mod:" + kind)
			if mr.Accepted {
				checkSession(s, fmt.Sprintf("after modification %s of cp=%d (%s)", m.Describe(), s.CPSEID, shape), shape+"+"+kind)
			}
		}
	}
	r.CheckNoPanics("C09")
}

func whichBurst(e *vsimenv.QosEntry, c, p, x uint64) string {
	switch {
	case e.Cbs < c:
		return "cbs"
	case e.Pbs < p:
		return "pbs"
	}
	return "ebs"
}

func describeQERs(s *CPSession) string {
	out := ""
	for _, q := range s.QERs {
		out += fmt.Sprintf("{id=%d qfi=%d gate=%d/%d mbr=%d/%d gbr=%d/%d}", q.ID, q.QFI, q.GateUL, q.GateDL, q.MBRUL, q.MBRDL, q.GBRUL, q.GBRDL)
	}
	for _, p := range s.PDRs {
		out += fmt.Sprintf(" pdr%d:%v", p.ID, p.QERIDs)
	}
	return out
}

// scenarioC09UP4: QoS as signalled on the P4Runtime datapath, with the C04 image
// oracle (gate -> drop action, QFI, traffic class, application meter rate per
// direction): sessions with one QER, with or without rates, before and after a
// kill -9 / restart of the agent against the populated switch, whose meter
// cells the new incarnation hands out again.
func scenarioC09UP4(r *Run) {
	r.FirstOnly = true
	o := r.DrawUP4Conf()
	r.DrawStrategy()
	r.Sim.StepCost = 0
	cells := int64(12 + 4*r.Ch.Choose(4, "arrays"))
	// one run in four: arrays so small that sessions are attached until the meter
	// cells run out (an odd number of usable cells: one is left over at the end)
	fill := r.Ch.Choose(4, "fill") == 1
	if fill {
		cells = int64(6 + 2*r.Ch.Choose(3, "fill-arrays"))
	}
	for _, n := range []string{mApp, mSess} {
		r.W.P4.Resize(n, cells)
	}
	p := r.AddPeer()
	r.StartAgent()
	if !r.WaitUP4Ready() || p.AssociateRetry() == nil {
		r.CheckNoPanics("C09")
		return
	}
	g := NewGen(r)
	g.PlainQER = true
	g.UP4 = true
	g.Rateless = true
	for _, k := range KnownTriggers {
		g.Avoid[k] = true
	}
	r.Skel("up4")
	attach := func(n int) bool {
		for i := 0; i < n && r.AgentAlive() && r.Hard() == 0; i++ {
			s := g.Session(p, SessShape{NQER: 1, TEIDChoose: r.Ch.Choose(2, "choose") == 1})
			q := s.QERs[0]
			if q.HasMBR {
				q.MBRUL, q.MBRDL = uint64(1+r.Ch.Choose(1<<22, "mbr-ul")), uint64(1+r.Ch.Choose(1<<22, "mbr-dl"))
			}
			res := p.Establish(s)
			r.Op("establish cp=%d QER{gateUL=%d gateDL=%d qfi=%d mbr=%v %d/%d kbit/s} -> accepted=%v", s.CPSEID, q.GateUL, q.GateDL, q.QFI, q.HasMBR, q.MBRUL, q.MBRDL, res.Accepted)
			if !res.Accepted {
				return false
			}
			r.Accepted++
			r.CheckUP4Image("C09", fmt.Sprintf("after establishment of cp=%d", s.CPSEID), "est:up4", o)
		}
		return true
	}
	if !fill && r.Ch.Choose(5, "two-flows") == 1 {
		// one session with two flows (PDR pairs), each with an application QER of its
		// own: the first QFI possibly mapped to a traffic class, the second not (or the
		// other way round) - every terminations entry carries the class of ITS QFI,
		// the configured default for an unmapped one. The run ends there (deleting a
		// session with several PDRs per direction is a listed C04 finding).
		s := g.Session(p, SessShape{NQER: 2, ExtraPDRs: 1, TEIDChoose: r.Ch.Choose(2, "choose") == 1})
		if len(s.PDRs) == 4 && len(s.QERs) == 2 {
			qfis := []uint8{9, 5, 1, 63, 33, 20}
			s.QERs[0].QFI = qfis[r.Ch.Choose(len(qfis), "qfi-a")]
			s.QERs[1].QFI = qfis[r.Ch.Choose(len(qfis), "qfi-b")]
			for k, pd := range s.PDRs {
				pd.QERIDs = []uint32{s.QERs[k/2].ID}
			}
			res := p.Establish(s)
			_, mappedA := o.QFIToTC[s.QERs[0].QFI]
			_, mappedB := o.QFIToTC[s.QERs[1].QFI]
			r.Op("establish cp=%d with two flows: QFI %d (mapped: %v) and QFI %d (mapped: %v), default TC %d -> accepted=%v", s.CPSEID, s.QERs[0].QFI, mappedA, s.QERs[1].QFI, mappedB, o.DefaultTC, res.Accepted)
			r.Skel(fmt.Sprintf("two-flows:%v:%v:%v", mappedA, mappedB, res.Accepted))
			if res.Accepted {
				r.Accepted++
				r.Probe("two-flows-with-qers-of-their-own")
				r.CheckUP4Image("C09", fmt.Sprintf("after establishment of cp=%d with two flows", s.CPSEID), "est:two-flows:up4", o)
			}
		}
		r.CheckNoPanics("C09")
		return
	}
	if fill {
		// every accepted session is judged (rates per cell); the first refusal ends the run
		attach(int(cells))
		r.Probe("attached-until-the-meter-cells-ran-out")
		r.Skel("fill")
		r.CheckNoPanics("C09")
		return
	}
	if !attach(2 + r.Ch.Choose(3, "before")) {
		r.CheckNoPanics("C09")
		return
	}
	// a Session Deletion refused because one of its table DELETE Writes fails:
	// the session lives on with the rates it was given
	if live := r.LiveSessions(); len(live) > 0 && r.Ch.Choose(3, "refused-deletion") == 1 && r.Hard() == 0 {
		sv := live[r.Ch.Choose(len(live), "refused-deletion-which")]
		sw := r.W.P4
		sw.FailKind = "transport"
		sw.Faults.FailNth = sw.Writes + 1 + r.Ch.Choose(3, "refused-deletion-write")
		dr := p.Delete(sv)
		sw.Faults.FailNth = 0
		tableDelete := false
		if n := len(sw.WriteLog); n > 0 && sw.WriteLog[n-1].Failed == "transport" {
			tableDelete = strings.Contains(sw.WriteLog[n-1].Summary, "DEL:T")
		}
		if dr.Accepted {
			delete(p.Sessions, sv.CPSEID)
		} else if dr.Rx != nil && !tableDelete {
			// the Write that failed came after the table entries were gone: what is
			// left of the session then is not for this property to say; the run ends
			r.Probe("refused-deletion-after-the-table-deletes")
			r.CheckNoPanics("C09")
			return
		} else if dr.Rx != nil {
			r.Fault("p4-write-fails-in-deletion")
			r.Skel("refused-deletion")
			r.Op("deletion of cp=%d refused (cause %d) after one of its table DELETE Writes failed: the session stays", sv.CPSEID, dr.Cause)
			// only the meters are this property's matter here (what else a refused
			// deletion leaves behind is C04's / C05's)
			nv := len(r.Violations)
			first := r.FirstOnly
			r.FirstOnly = false
			r.CheckUP4Image("C09", fmt.Sprintf("after the refused deletion of cp=%d", sv.CPSEID), "refused-del:up4", o)
			r.FirstOnly = first
			kept := r.Violations[:nv]
			for _, v := range r.Violations[nv:] {
				if strings.HasPrefix(v.Sig, "meters:") {
					kept = append(kept, v)
				} else {
					r.Probe("non-qos-discrepancy-after-refused-deletion")
				}
			}
			r.Violations = kept
			if len(r.Violations) > 0 {
				r.CheckNoPanics("C09")
				return
			}
			// end it for good before going on
			if dr2 := p.Delete(sv); dr2.Accepted {
				delete(p.Sessions, sv.CPSEID)
			} else {
				r.CheckNoPanics("C09")
				return
			}
		}
	}
	if r.Ch.Choose(3, "restart") != 0 && r.Hard() == 0 {
		r.KillAgent()
		p.Sessions = map[uint64]*CPSession{}
		p.Associated = false
		r.Sim.RunFor(time.Second)
		r.StartAgent()
		r.Skel("restart")
		if !r.WaitUP4Ready() || p.AssociateRetry() == nil {
			r.CheckNoPanics("C09")
			return
		}
		attach(2 + r.Ch.Choose(4, "after"))
	}
	r.CheckNoPanics("C09")
}
