package harness

import (
	"fmt"
	"net"
	"time"

	"github.com/wmnsk/go-pfcp/ie"
	"github.com/wmnsk/go-pfcp/message"
)

// Peer is a control-plane node model (SMF / SPGW-C). Event-driven, runs on the
// simulator goroutine. Written against TS 29.244 and go-pfcp's encoder.
type Peer struct {
	r      *Run
	Idx    int
	Addr   string // ip:port
	IP     string
	NodeID string
	seq    uint32
	TS     time.Time // recovery time stamp

	Rx []*RxMsg // every datagram received from the agent

	// policy for agent-originated requests
	AnswerHeartbeats bool
	// HBFilter, when set, decides per received heartbeat transmission whether to answer.
	HBFilter      func(m *RxMsg) bool
	AnswerReports bool
	ReportCause   uint8
	// OnAssocReq, when set, is called for every Association Setup Request the
	// agent sends to this peer (agent-initiated association)
	OnAssocReq func(req *message.AssociationSetupRequest)

	Associated bool
	Sessions   map[uint64]*CPSession // by CP SEID
	nextSEID   uint64
}

type RxMsg struct {
	At    int64
	Stamp uint64
	Raw   []byte
	Msg   message.Message
	Err   error
	Used  bool // consumed as the response to a request
}

func (r *Run) AddPeer() *Peer {
	i := len(r.Peers)
	ip := fmt.Sprintf("10.250.1.%d", i+1)
	p := &Peer{r: r, Idx: i, IP: ip, Addr: net.JoinHostPort(ip, PFCPPort), NodeID: ip,
		TS:               time.Date(2026, 1, 1, 0, 0, 0, 0, time.UTC).Add(-time.Duration(i+1) * time.Hour),
		AnswerHeartbeats: true, AnswerReports: true, ReportCause: ie.CauseRequestAccepted,
		Sessions: map[uint64]*CPSession{}, nextSEID: uint64(0x1000 * (i + 1))}
	p.seq = uint32(100 * (i + 1))
	r.Peers = append(r.Peers, p)
	r.W.Net.Register(p.Addr, p.onDatagram)
	return p
}

func (p *Peer) NextSeq() uint32 {
	p.seq++
	if p.seq > 0xFFFFFF {
		p.seq = 1
	}
	return p.seq
}

func (p *Peer) AgentAddr() string { return net.JoinHostPort(AgentIP, PFCPPort) }

func (p *Peer) onDatagram(src string, data []byte) {
	s := p.r.Sim
	m := &RxMsg{At: s.NowNS(), Stamp: p.r.W.NextStamp(), Raw: data}
	m.Msg, m.Err = message.Parse(data)
	p.Rx = append(p.Rx, m)
	if m.Err != nil {
		s.Logf("peer%d rx undecodable %d bytes", p.Idx, len(data))
		return
	}
	s.Logf("peer%d rx %s seq=%d seid=%d", p.Idx, m.Msg.MessageTypeName(), m.Msg.Sequence(), m.Msg.SEID())
	switch x := m.Msg.(type) {
	case *message.HeartbeatRequest:
		ans := p.AnswerHeartbeats
		if p.HBFilter != nil {
			ans = p.HBFilter(m)
		}
		if ans {
			p.SendMsg(message.NewHeartbeatResponse(x.SequenceNumber, ie.NewRecoveryTimeStamp(p.TS)))
		}
	case *message.AssociationSetupRequest:
		if p.OnAssocReq != nil {
			p.OnAssocReq(x)
		}
	case *message.SessionReportRequest:
		if p.AnswerReports {
			// the response is addressed with the UP function's SEID of the session
			up := uint64(0)
			if sess, ok := p.Sessions[x.SEID()]; ok {
				up = sess.UPSEID
			}
			p.SendMsg(message.NewSessionReportResponse(0, 0, up, x.SequenceNumber, 0, ie.NewCause(p.ReportCause)))
		}
	}
}

// SendRaw puts bytes on the wire towards the agent.
func (p *Peer) SendRaw(b []byte) {
	p.r.W.Net.Send(p.Addr, p.AgentAddr(), append([]byte{}, b...))
}

func Marshal(m message.Message) []byte {
	b := make([]byte, m.MarshalLen())
	if err := m.MarshalTo(b); err != nil {
		panic(fmt.Sprintf("harness: cannot marshal %s: %v", m.MessageTypeName(), err))
	}
	return b
}

func (p *Peer) SendMsg(m message.Message) {
	p.r.Sim.Logf("peer%d tx %s seq=%d seid=%d", p.Idx, m.MessageTypeName(), m.Sequence(), m.SEID())
	p.SendRaw(Marshal(m))
}

// responseTypeOf maps a request type to its response type.
func responseTypeOf(t uint8) uint8 {
	switch t {
	case message.MsgTypeHeartbeatRequest:
		return message.MsgTypeHeartbeatResponse
	case message.MsgTypePFDManagementRequest:
		return message.MsgTypePFDManagementResponse
	case message.MsgTypeAssociationSetupRequest:
		return message.MsgTypeAssociationSetupResponse
	case message.MsgTypeAssociationUpdateRequest:
		return message.MsgTypeAssociationUpdateResponse
	case message.MsgTypeAssociationReleaseRequest:
		return message.MsgTypeAssociationReleaseResponse
	case message.MsgTypeNodeReportRequest:
		return message.MsgTypeNodeReportResponse
	case message.MsgTypeSessionSetDeletionRequest:
		return message.MsgTypeSessionSetDeletionResponse
	case message.MsgTypeSessionEstablishmentRequest:
		return message.MsgTypeSessionEstablishmentResponse
	case message.MsgTypeSessionModificationRequest:
		return message.MsgTypeSessionModificationResponse
	case message.MsgTypeSessionDeletionRequest:
		return message.MsgTypeSessionDeletionResponse
	case message.MsgTypeSessionReportRequest:
		return message.MsgTypeSessionReportResponse
	}
	return 0
}

func isResponseType(t uint8) bool {
	switch t {
	case message.MsgTypeHeartbeatResponse, message.MsgTypePFDManagementResponse, message.MsgTypeAssociationSetupResponse,
		message.MsgTypeAssociationUpdateResponse, message.MsgTypeAssociationReleaseResponse, message.MsgTypeVersionNotSupportedResponse,
		message.MsgTypeNodeReportResponse, message.MsgTypeSessionSetDeletionResponse, message.MsgTypeSessionEstablishmentResponse,
		message.MsgTypeSessionModificationResponse, message.MsgTypeSessionDeletionResponse, message.MsgTypeSessionReportResponse:
		return true
	}
	return false
}

// FindResponse returns the first unused received message with the given type and sequence.
func (p *Peer) FindResponse(typ uint8, seq uint32) *RxMsg {
	for _, m := range p.Rx {
		if !m.Used && m.Err == nil && m.Msg.MessageType() == typ && m.Msg.Sequence() == seq {
			return m
		}
	}
	return nil
}

// Request sends m and runs the simulation until the matching response has
// arrived and the agent is quiescent, or until the virtual timeout passes.
func (p *Peer) Request(m message.Message, timeout time.Duration) *RxMsg {
	rt := responseTypeOf(m.MessageType())
	p.SendMsg(m)
	var got *RxMsg
	p.r.Sim.RunUntil(func() bool {
		got = p.FindResponse(rt, m.Sequence())
		return got != nil
	}, p.r.until(timeout))
	if got != nil {
		got.Used = true
	}
	return got
}

func CauseOf(m message.Message) (uint8, bool) {
	var c *ie.IE
	switch x := m.(type) {
	case *message.AssociationSetupResponse:
		c = x.Cause
	case *message.AssociationReleaseResponse:
		c = x.Cause
	case *message.PFDManagementResponse:
		c = x.Cause
	case *message.SessionEstablishmentResponse:
		c = x.Cause
	case *message.SessionModificationResponse:
		c = x.Cause
	case *message.SessionDeletionResponse:
		c = x.Cause
	}
	if c == nil {
		return 0, false
	}
	v, err := c.Cause()
	if err != nil {
		return 0, false
	}
	return v, true
}

// ---------------------------------------------------------------- association helpers

func (p *Peer) AssocSetupMsg() *message.AssociationSetupRequest {
	return message.NewAssociationSetupRequest(p.NextSeq(),
		ie.NewNodeID(p.NodeID, "", ""),
		ie.NewRecoveryTimeStamp(p.TS),
		ie.NewCPFunctionFeatures(0),
	)
}

// Associate performs Association Setup and returns the response (nil on timeout).
func (p *Peer) Associate() *message.AssociationSetupResponse {
	resp := p.Request(p.AssocSetupMsg(), 5*time.Second)
	if resp == nil {
		return nil
	}
	ar, _ := resp.Msg.(*message.AssociationSetupResponse)
	if ar != nil {
		if c, ok := CauseOf(ar); ok && c == ie.CauseRequestAccepted {
			p.Associated = true
		}
	}
	return ar
}

func (p *Peer) Heartbeat() *RxMsg {
	return p.Request(message.NewHeartbeatRequest(p.NextSeq(), ie.NewRecoveryTimeStamp(p.TS), nil), 5*time.Second)
}

// HeartbeatRetry is the liveness probe: a single datagram may legitimately be
// dropped (e.g. it reaches the listening socket while the node has not yet
// forgotten the connection that just shut down); "not wedged" means that one
// of a few retransmissions is answered.
func (p *Peer) HeartbeatRetry() *RxMsg {
	for i := 0; i < 3; i++ {
		if rx := p.Request(message.NewHeartbeatRequest(p.NextSeq(), ie.NewRecoveryTimeStamp(p.TS), nil), 2*time.Second); rx != nil {
			return rx
		}
		if !p.r.AgentAlive() {
			return nil
		}
	}
	return nil
}

// AssociateRetry retries a few times (lost to a teardown race, or rejected
// while the datapath is still connecting).
func (p *Peer) AssociateRetry() *message.AssociationSetupResponse {
	var last *message.AssociationSetupResponse
	for i := 0; i < 4; i++ {
		last = p.Associate()
		if p.Associated || !p.r.AgentAlive() {
			return last
		}
		p.r.Sim.RunFor(500 * time.Millisecond)
	}
	if p.Associated {
		return last
	}
	return nil
}

func (p *Peer) Release() *RxMsg {
	m := message.NewAssociationReleaseRequest(p.NextSeq(), ie.NewNodeID(p.NodeID, "", ""))
	resp := p.Request(m, 5*time.Second)
	p.Associated = false
	return resp
}
