package harness

import (
	"fmt"
	"strings"
	"time"

	"github.com/omec-project/upf-epc/pfcpiface"

	"github.com/omec-project/upf-epc/zzverif/vsim"
	"github.com/wmnsk/go-pfcp/ie"
	"github.com/wmnsk/go-pfcp/message"
)

func init() {
	Register(&PropDef{
		ID: "C07", QuickRuns: 2400, Level: "exploration", Race: true,
		Rule:   "one run = 1-3 associations establishing 3-14 sessions with CHOOSE F-TEIDs on the BESS datapath, some rounds with all peers sending at the same instant, sessions deleted in between; the per-association random source is honest, or adversarial (cycle of 1-3 values, constant, zero first - injected through the rand.NewSource seam), and the TEID cursor is placed 0-3 below the 32-bit wrap-around through the bridge. Oracle: live sessions of one association have pairwise different non-zero UP F-SEIDs (otherwise the establishment must have been refused); UP-chosen TEIDs are non-zero and pairwise distinct among live sessions of all associations; the F-SEID and F-TEIDs in the response are the values in the PDR entries of the simulated BESS (image check). Non-trivial = at least two accepted sessions and an adversarial source or wrap-around or concurrent round; distinct = different (source mode, cursor, outcome sequence). Also: one peer releases its association while others hold sessions; one run in five on the P4Runtime datapath with deletions refused after a failed Write. One run in four exercises the TEID generator itself: 2-6 simulated tasks allocate and free on one real FTEIDGenerator under statement-level pre-emption; an id is held from the return of Allocate to the call of FreeID (global stamps) and may not be held twice at once.",
		Assume: []string{"the adversarial random source replaces only the source handed to rand.New for the association's SEID generator"},
		Real:   CommonReal, Simulated: CommonSim,
		Scenario: scenarioC07,
	})
}

type teidHold struct {
	task     int
	id       uint32
	from, to uint64 // stamps: Allocate returned ... FreeID called (0 = never freed)
}

//go:norace
func c07Publish(out [][]teidHold, done []bool, t int, mine []teidHold) {
	vsim.Call(func() {
		out[t] = mine
		done[t] = true
	})
}

// c07API: the TEID generator itself under concurrent callers (the agent calls it
// from one goroutine per association): 2-6 simulated tasks allocate and free on
// one real FTEIDGenerator under statement-level pre-emption; an id is held from
// the return of Allocate to the call of FreeID (global stamps), and no id may be
// held twice at the same time, none may be 0.
func c07API(r *Run) {
	gen := pfcpiface.NewFTEIDGenerator()
	r.DrawStrategy()
	if r.Sim.MaxGap == 0 && r.Sim.Strat != vsim.StratPCT {
		r.Sim.MaxGap = []int{4, 12, 40}[r.Ch.Choose(3, "gap2")]
		r.Sim.ArmPreempt()
	}
	ntasks := 2 + r.Ch.Choose(5, "ntasks")
	plans := make([][]int, ntasks)
	for t := range plans {
		for k := 0; k < 3+r.Ch.Choose(12, "nops"); k++ {
			plans[t] = append(plans[t], r.Ch.Choose(3, "op")/2) // 0 allocate (2 in 3), 1 free the oldest
		}
	}
	out := make([][]teidHold, ntasks)
	done := make([]bool, ntasks)
	stampCounter = 0
	for t := 0; t < ntasks; t++ {
		t := t
		r.Sim.Spawn(1, fmt.Sprintf("teid-client-%d", t), func() {
			var mine []teidHold
			var open []int
			for _, op := range plans[t] {
				if op == 0 {
					id, err := gen.Allocate()
					st := stampNow()
					if err == nil {
						mine = append(mine, teidHold{task: t, id: id, from: st})
						open = append(open, len(mine)-1)
					}
				} else if len(open) > 0 {
					h := &mine[open[0]]
					open = open[1:]
					h.to = stampNow()
					gen.FreeID(h.id)
				}
			}
			c07Publish(out, done, t, mine)
		})
	}
	r.Sim.RunUntil(func() bool {
		for _, d := range done {
			if !d {
				return false
			}
		}
		return true
	}, r.until(time.Second))
	for t, d := range done {
		if !d {
			r.Violate("C07", "teid-generator-hangs", "TEID client %d did not finish: an operation blocks\n%s", t, strings.Join(r.Sim.BlockedTable(), "\n"))
			return
		}
	}
	r.CheckNoPanics("C07")
	var all []teidHold
	for _, l := range out {
		all = append(all, l...)
	}
	r.Accepted++
	r.Skel(fmt.Sprintf("api tasks=%d holds=%d", ntasks, len(all)))
	r.Probe("teid-generator-under-concurrent-callers")
	const never = ^uint64(0)
	for i := range all {
		if all[i].to == 0 {
			all[i].to = never
		}
	}
	for i, a := range all {
		if a.id == 0 {
			r.Violate("C07", "zero-teid:api", "Allocate returned TEID 0 to task %d", a.task)
			return
		}
		for _, b := range all[i+1:] {
			if a.id == b.id && a.from < b.to && b.from < a.to {
				r.Violate("C07", "teid-reused:api", "TEID %d was handed to task %d (held from stamp %d) while task %d still held it (from stamp %d, not yet freed at that point)", a.id, b.task, b.from, a.task, a.from)
				return
			}
		}
	}
	r.Op("api layer: %d tasks, %d allocations", ntasks, len(all))
}

func scenarioC07(r *Run) {
	if r.Ch.Choose(4, "layer") == 1 {
		c07API(r)
		return
	}
	r.FirstOnly = true
	r.Conf = DefaultBESSConf()
	// one run in five on the P4Runtime datapath, where a Session Deletion can be
	// refused (a Write fails): the session lives on and keeps its identifiers
	up4 := r.Ch.Choose(5, "datapath") == 1
	if up4 {
		r.DrawUP4Conf()
	}
	r.DrawStrategy()
	mode := r.Ch.Choose(5, "randmode")
	switch mode {
	case 1:
		vsim.RandCfg = vsim.RandConfig{Mode: vsim.RandRepeat, Cycle: 1 + r.Ch.Choose(3, "cycle")}
	case 2:
		vsim.RandCfg = vsim.RandConfig{Mode: vsim.RandConstant}
	case 3:
		vsim.RandCfg = vsim.RandConfig{Mode: vsim.RandZeroFirst}
	case 4:
		vsim.RandCfg = vsim.RandConfig{Mode: vsim.RandScript, Script: []uint64{7, 7, 0, 7, 9, 9}}
	}
	if mode != 0 {
		r.Fault("adversarial-prng")
	}
	np := 1 + r.Ch.Choose(3, "npeers")
	for i := 0; i < np; i++ {
		r.AddPeer()
	}
	r.StartAgent()
	if !r.AgentAlive() || (up4 && !r.WaitUP4Ready()) {
		r.CheckNoPanics("C07")
		return
	}
	wrap := r.Ch.Choose(3, "wrap") == 1
	if wrap {
		next := uint32(0xFFFFFFFF) - uint32(r.Ch.Choose(4, "below"))
		a := r.Agent
		vsim.Ephemeral(func() { a.VerifSetTEIDCursor(next) })
		r.Fault("teid-cursor-near-wrap")
	}
	for _, p := range r.Peers {
		if p.AssociateRetry() == nil {
			return
		}
	}
	g := NewGen(r)
	g.PlainQER = true
	g.UP4 = up4
	if up4 {
		for _, k := range KnownTriggers {
			g.Avoid[k] = true
		}
	}
	r.Skel(fmt.Sprintf("mode=%d wrap=%v np=%d up4=%v", mode, wrap, np, up4))
	checkIDs := func(ctx string) {
		seids := map[string]uint64{}
		teids := map[uint32]uint64{}
		for _, s := range r.LiveSessions() {
			if s.UPSEID == 0 {
				r.Violate("C07", "zero-up-fseid", "%s: session cp=%d was accepted with UP F-SEID 0", ctx, s.CPSEID)
				return
			}
			k := fmt.Sprintf("%d/%d", s.Peer.Idx, s.UPSEID)
			if other, dup := seids[k]; dup {
				r.Violate("C07", "up-fseid-reused", "%s: sessions cp=%d and cp=%d of peer%d are both live with UP F-SEID %d", ctx, other, s.CPSEID, s.Peer.Idx, s.UPSEID)
				return
			}
			seids[k] = s.CPSEID
			for _, p := range s.PDRs {
				if !p.TEIDChoose {
					continue
				}
				if p.GotTEID == 0 {
					r.Violate("C07", "zero-teid", "%s: PDR %d of session cp=%d got TEID 0 (or no Created PDR)", ctx, p.ID, s.CPSEID)
					return
				}
				if other, dup := teids[p.GotTEID]; dup {
					r.Violate("C07", "teid-reused", "%s: TEID %d chosen for session cp=%d is still used by live session cp=%d", ctx, p.GotTEID, s.CPSEID, other)
					return
				}
				teids[p.GotTEID] = s.CPSEID
			}
		}
	}
	lastEstSeq := map[*Peer]uint32{}
	// white box: every UP-chosen TEID of a live PDR is still marked as taken in the
	// generator (a TEID released while its PDR lives is handed out again once the
	// cursor has come round)
	checkMarked := func(ctx string) {
		if !r.AgentAlive() || r.Agent == nil {
			return
		}
		a := r.Agent
		for _, s := range r.LiveSessions() {
			for _, p := range s.PDRs {
				if !p.TEIDChoose || p.GotTEID == 0 {
					continue
				}
				marked := true
				id := p.GotTEID
				vsim.Ephemeral(func() { marked = a.VerifTEIDAllocated(id) })
				if !marked {
					r.Violate("C07", "teid-of-live-pdr-released", "%s: TEID %d, chosen for PDR %d of live session cp=%d, is no longer marked as taken in the agent's generator: it will be chosen again for somebody else", ctx, id, p.ID, s.CPSEID)
					return
				}
			}
		}
	}
	rounds := 3 + r.Ch.Choose(6, "rounds")
	for round := 0; round < rounds && r.AgentAlive() && len(r.Violations) == 0; round++ {
		if r.Ch.Choose(3, "concurrent") == 1 && np > 1 {
			// all peers at the same instant
			type pend struct {
				p   *Peer
				s   *CPSession
				seq uint32
			}
			var pends []pend
			for _, p := range r.Peers {
				s := g.Session(p, SessShape{TEIDChoose: true, ExtraPDRs: r.Ch.Choose(2, "ex")})
				m := p.EstablishMsg(s)
				p.SendMsg(m)
				pends = append(pends, pend{p, s, m.Sequence()})
			}
			r.Sim.RunFor(300 * time.Millisecond)
			for _, pe := range pends {
				rx := pe.p.FindResponse(message.MsgTypeSessionEstablishmentResponse, pe.seq)
				if rx == nil {
					continue
				}
				rx.Used = true
				if c, _ := CauseOf(rx.Msg); c == ie.CauseRequestAccepted {
					pe.p.Establish2(pe.s, rx.Msg.(*message.SessionEstablishmentResponse))
					r.Accepted++
				}
			}
			r.Skel("concurrent-round")
			r.Probe("concurrent-establishments")
		} else {
			p := r.Peers[r.Ch.Choose(np, "peer")]
			s := g.Session(p, SessShape{TEIDChoose: true, ExtraPDRs: r.Ch.Choose(2, "ex")})
			// the control plane may number this request like its last establishment
			// (restarted counter): another session all the same, with identifiers of its own
			reuse := lastEstSeq[p] != 0 && r.Ch.Choose(4, "est-seq-reused") == 1
			savedSeq := p.seq
			if reuse {
				p.seq = lastEstSeq[p] - 1
				r.Probe("establishment-reuses-the-sequence-number-of-the-last-one")
			}
			res := p.Establish(s)
			usedSeq := p.seq
			if reuse {
				p.seq = savedSeq
			}
			if res.Accepted {
				lastEstSeq[p] = usedSeq
			}
			r.Op("establish peer%d cp=%d -> accepted=%v cause=%d up=%d", p.Idx, s.CPSEID, res.Accepted, res.Cause, s.UPSEID)
			r.Skel(fmt.Sprintf("est:%v", res.Accepted))
			if res.Accepted {
				r.Accepted++
			} else if res.Rx != nil && mode != 0 {
				r.Probe("establishment-refused-under-adversarial-prng")
			}
		}
		checkIDs(fmt.Sprintf("round %d", round))
		if len(r.Violations) == 0 && !up4 {
			// the identifiers in the response are those programmed for the session
			for _, s := range r.LiveSessions() {
				if s.Checked {
					continue
				}
				s.Checked = true
				n := 0
				for _, e := range r.W.Bess.PDR {
					if e.Valuesv[1] == s.UPSEID {
						n++
					}
				}
				if n == 0 {
					r.Violate("C07", "response-fseid-not-programmed", "session cp=%d: the response names UP F-SEID %d but no PDR entry at the datapath carries it", s.CPSEID, s.UPSEID)
					break
				}
				for _, p := range s.PDRs {
					if !p.TEIDChoose {
						continue
					}
					found := false
					for _, e := range r.W.Bess.PDR {
						if e.Valuesv[1] == s.UPSEID && e.Valuesv[0] == uint64(p.ID) && e.Values[2] == uint64(p.GotTEID) && e.Masks[2] == 0xFFFFFFFF {
							found = true
						}
					}
					if !found {
						r.Violate("C07", "response-teid-not-programmed", "session cp=%d PDR %d: the response names TEID %d but the PDR entry at the datapath does not match on it", s.CPSEID, p.ID, p.GotTEID)
					}
				}
			}
		}
		if live := r.LiveSessions(); len(live) > 0 && !up4 && len(r.Violations) == 0 && r.Ch.Choose(4, "create-pdr-choose") == 1 {
			// a modification creates a further PDR pair whose uplink PDR asks the UP
			// function to choose the TEID: that TEID is chosen like any other
			// (non-zero, unique, reported in the response, programmed)
			s := live[r.Ch.Choose(len(live), "cpc-which")]
			maxID := uint16(0)
			for _, x := range s.PDRs {
				if x.ID > maxID {
					maxID = x.ID
				}
			}
			if maxID < 20 && s.PDRs[0].SrcIface == IfAccess && len(s.PDRs) > 1 {
				ul, dl := s.PDRs[0].clone(), s.PDRs[1].clone()
				f := g.Flow(false)
				ul.ID, ul.Precedence, ul.SDF = maxID+1, 40, f
				dl.ID, dl.Precedence, dl.SDF = maxID+2, 40, f
				ul.TEIDChoose, ul.TEID, ul.GotTEID = true, 0, 0
				m := &ModSpec{Tag: "cP:choose", CreatePDR: []*PDRSpec{ul, dl}}
				mr := s.Peer.Modify(s, m)
				r.Op("modify cp=%d: create PDR pair %d/%d, uplink F-TEID with CHOOSE -> accepted=%v, TEID in the response: %d", s.CPSEID, ul.ID, dl.ID, mr.Accepted, ul.GotTEID)
				r.Skel(fmt.Sprintf("mod:cP:choose:%v", mr.Accepted))
				if mr.Accepted {
					r.Probe("pdr-with-choose-created-in-modification")
					s.Checked = false
					checkIDs(fmt.Sprintf("round %d, after a modification that created a PDR with CHOOSE", round))
					if len(r.Violations) == 0 {
						found := false
						for _, e := range r.W.Bess.PDR {
							if e.Valuesv[1] == s.UPSEID && e.Valuesv[0] == uint64(ul.ID) && e.Values[2] == uint64(ul.GotTEID) && e.Masks[2] == 0xFFFFFFFF {
								found = true
							}
						}
						if !found {
							r.Violate("C07", "response-teid-not-programmed:modification", "session cp=%d PDR %d (created by a modification with CHOOSE): the response names TEID %d but the PDR entry at the datapath does not match on it", s.CPSEID, ul.ID, ul.GotTEID)
						}
					}
				}
			}
		}
		if live := r.LiveSessions(); len(live) > 0 && !up4 && len(r.Violations) == 0 && r.Ch.Choose(4, "remove-pdr-before-chosen") == 1 {
			// a modification removes the PDR that precedes, in the session's list, a PDR
			// with a UP-chosen TEID: that TEID stays taken
			s := live[r.Ch.Choose(len(live), "rpc-which")]
			for k := 1; k < len(s.PDRs); k++ {
				if s.PDRs[k].TEIDChoose && s.PDRs[k].GotTEID != 0 && !s.PDRs[k-1].TEIDChoose {
					victim := s.PDRs[k-1].ID
					mr := s.Peer.Modify(s, &ModSpec{Tag: "rP:before-chosen", RemovePDR: []uint16{victim}})
					r.Op("modify cp=%d: remove PDR %d, which precedes PDR %d (UP-chosen TEID %d) -> accepted=%v", s.CPSEID, victim, s.PDRs[min(k, len(s.PDRs)-1)].ID, s.PDRs[min(k, len(s.PDRs)-1)].GotTEID, mr.Accepted)
					r.Skel(fmt.Sprintf("mod:rP:before-chosen:%v", mr.Accepted))
					if mr.Accepted {
						r.Probe("pdr-before-a-chosen-teid-pdr-removed")
					}
					break
				}
			}
		}
		if live := r.LiveSessions(); len(live) > 1 && !up4 && len(r.Violations) == 0 && r.Ch.Choose(5, "update-pdr-naming-foreign-teid") == 1 {
			// the control plane of one session restates its uplink PDR with an explicit
			// F-TEID whose value is the TEID the UP function chose for ANOTHER live
			// session, then deletes its session: the other session's TEID stays taken
			b := live[r.Ch.Choose(len(live), "foreign-b")]
			var a *CPSession
			for _, x := range live {
				if x != b && len(x.PDRs) > 0 && x.PDRs[0].TEIDChoose && x.PDRs[0].GotTEID != 0 {
					a = x
				}
			}
			if a != nil && len(b.PDRs) > 0 && b.PDRs[0].SrcIface == IfAccess && b.PDRs[0].TEIDChoose {
				up := b.PDRs[0].clone()
				up.TEIDChoose, up.TEID, up.TEIDAddr = false, a.PDRs[0].GotTEID, ip4(N3Addr)
				mr := b.Peer.Modify(b, &ModSpec{Tag: "uP:foreign-teid", UpdatePDR: []*PDRSpec{up}})
				r.Op("modify cp=%d: Update PDR %d with explicit TEID %d (chosen for cp=%d) -> accepted=%v", b.CPSEID, up.ID, up.TEID, a.CPSEID, mr.Accepted)
				r.Skel(fmt.Sprintf("mod:uP:foreign-teid:%v", mr.Accepted))
				if mr.Accepted {
					r.Probe("update-pdr-names-the-teid-of-another-session")
					b.Peer.Delete(b)
				}
			}
		}
		if live := r.LiveSessions(); len(live) > 0 && !up4 && len(r.Violations) == 0 && r.Ch.Choose(5, "refused-removal-of-chosen-pdr") == 1 {
			// a modification that removes a PDR with a UP-chosen TEID and is then refused
			// (Remove FAR of an unknown rule): the PDR stays, and so does its TEID
			s := live[r.Ch.Choose(len(live), "rrc-which")]
			for _, pd := range s.PDRs {
				if pd.TEIDChoose && pd.GotTEID != 0 {
					mr := s.Peer.Modify(s, &ModSpec{Tag: "rP:chosen+rF:unknown", RemovePDR: []uint16{pd.ID}, RemoveFAR: []uint32{999}})
					r.Op("modify cp=%d: remove PDR %d (UP-chosen TEID %d) and unknown FAR 999 -> accepted=%v", s.CPSEID, pd.ID, pd.GotTEID, mr.Accepted)
					r.Skel(fmt.Sprintf("mod:rP:chosen+unknown:%v", mr.Accepted))
					if mr.Accepted || mr.Rx == nil {
						r.Inconclusive++
						return
					}
					r.Probe("removal-of-a-chosen-teid-pdr-refused")
					break
				}
			}
		}
		checkMarked(fmt.Sprintf("round %d", round))
		if live := r.LiveSessions(); len(live) > 0 && r.Ch.Choose(3, "del") == 1 {
			s := live[r.Ch.Choose(len(live), "which")]
			armed := up4 && r.Ch.Choose(2, "deletion-refused") == 1
			if armed {
				r.W.P4.FailKind = "transport"
				r.W.P4.Faults.FailNth = r.W.P4.Writes + 1 + r.Ch.Choose(2, "deletion-refused-write")
			}
			dr := s.Peer.Delete(s)
			if armed {
				r.W.P4.Faults.FailNth = 0
				if !dr.Accepted && dr.Rx != nil {
					// refused: the session stays live (in the model too) with its F-SEID and TEIDs
					r.Fault("p4-write-fails-in-deletion")
					r.Skel("deletion-refused")
					r.Op("deletion of cp=%d up=%d refused (cause %d): the session keeps its identifiers", s.CPSEID, s.UPSEID, dr.Cause)
				}
			}
		}
		// one association ends (release) while the others hold sessions with UP-chosen
		// TEIDs; the peer comes back and everybody goes on choosing
		if np > 1 && len(r.LiveSessions()) > 0 && r.Ch.Choose(5, "release-one") == 1 {
			q := r.Peers[r.Ch.Choose(np, "release-which")]
			q.Release()
			q.Sessions = map[uint64]*CPSession{}
			r.Sim.RunFor(300 * time.Millisecond)
			r.Skel("association-released")
			r.Probe("association-released-while-others-hold-teids")
			r.Op("peer%d released its association (%d sessions of others live)", q.Idx, len(r.LiveSessions()))
			if q.AssociateRetry() == nil {
				break
			}
		}
	}
	r.CheckNoPanics("C07")
}
