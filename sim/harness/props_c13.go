package harness

import (
	"encoding/binary"
	"fmt"
	"github.com/wmnsk/go-pfcp/ie"
	"time"

	"github.com/omec-project/upf-epc/zzverif/vsim"
	"github.com/wmnsk/go-pfcp/message"
)

func init() {
	Register(&PropDef{
		ID: "C13", QuickRuns: 4800, Level: "exploration",
		Rule:   "one run = one association with 1-4 sessions (downlink FAR with or without the notify flag) on the BESS datapath and 5-40 datapath reports (8-byte records on the notify socket) for known, unknown and deleted sessions at times drawn around multiples of the 20 s interval (bursts, exactly one interval apart +/- a few ms, long gaps); optionally a repeating PRNG forces F-SEID reuse by a later session; the control plane moves sessions to new CP F-SEIDs (with and without a rule change); one run in four uses the P4Runtime datapath, where reports are digests carrying the UE address on the stream channel. Oracle at the peer socket: the set of Session Report Requests equals the reference notifier (first report of a session forwarded, then at most one per interval), each addressed with the CP SEID, with a sequence number not used before by the agent and a Downlink Data Report naming the session's downlink PDR; none for unknown / non-notifying sessions. Non-trivial = at least one forwarded and one suppressed report; distinct = different sequence of (session kind, interval class, forwarded?). Also: on UP4 a deletion refused after a failed Write (the session keeps reporting); rarely a burst of more reports at one instant than the report queue holds, the node loop starved (PCT).",
		Assume: []string{"reports closer than 3 ms to an exact multiple of the interval after the previous forwarded one are not generated (the agent's clock reads are a few ns later than the injection instant)", "one association (the code documents multi-association routing as not implemented)"},
		Real:   CommonReal, Simulated: CommonSim,
		Scenario: scenarioC13,
	})
}

const ddnInterval = 20 * time.Second // from the property statement

func scenarioC13(r *Run) {
	r.Conf = DefaultBESSConf()
	reuse := r.Ch.Choose(6, "seid-reuse") == 1
	// one run in four: the P4Runtime datapath, where reports arrive as digests
	// carrying the UE address on the stream channel
	up4 := !reuse && r.Ch.Choose(4, "datapath") == 1
	if up4 {
		r.DrawUP4Conf()
	}
	r.Conf.EnableHBTimer = false
	r.Conf.ReadTimeout = 100000
	r.DrawStrategy()
	// rarely: a mass wake-up at the end of the run - more reports at one instant, for
	// distinct F-SEIDs, than the agent's report queue holds (1024), the node's loop
	// possibly far behind the listener (priority scheduling)
	flood := !up4 && !reuse && r.Ch.Choose(24, "flood") == 1
	if flood {
		r.Sim.SetPCT(r.Ch.Choose(4, "pct-d"), 200000)
		r.Sim.StepCost = 0
		r.Sim.MaxSteps = 30_000_000
	}
	if reuse {
		vsim.RandCfg = vsim.RandConfig{Mode: vsim.RandRepeat, Cycle: 1 + r.Ch.Choose(2, "cycle")}
		r.Fault("adversarial-prng-repeats")
	}
	// the listed finding (a later session inherits the F-SEID of a dead one) needs a
	// random source that repeats itself; the same symptom without one is something else
	reuseTag := ""
	if !reuse {
		reuseTag = ":random-source-not-adversarial"
	}
	p := r.AddPeer()
	r.StartAgent()
	if up4 {
		if !r.WaitUP4Ready() || p.AssociateRetry() == nil {
			r.CheckNoPanics("C13")
			return
		}
		r.Skel("up4")
	} else if !r.AgentAlive() || p.Associate() == nil {
		r.CheckNoPanics("C13")
		return
	}
	g := NewGen(r)
	g.PlainQER = true
	g.UP4 = up4
	type sessInfo struct {
		s       *CPSession
		notify  bool
		dlPDR   uint16
		live    bool
		lastFwd int64    // model: last forwarded report (-1 none)
		gen     int      // generation (for SEID reuse)
		seidAt  []int64  // history of the control plane's SEID: valid from seidAt[i] ...
		seids   []uint64 // ... the value
	}
	var sessions []*sessInfo
	mk := func() *sessInfo {
		s := g.Session(p, SessShape{NQER: r.Ch.Choose(2, "nq")})
		notify := r.Ch.Choose(3, "notify") != 1
		if notify {
			*s.FAR(2) = FARSpec{ID: 2, Action: ActBUFF | ActNOCP, DstIface: IfAccess, HasFwd: true}
		} else {
			switch r.Ch.Choose(3, "nonnotify") {
			case 0:
				*s.FAR(2) = FARSpec{ID: 2, Action: ActFORW, DstIface: IfAccess, HasFwd: true, HasOHC: true, TEID: 77, PeerIP: ip4("198.18.1.10")}
			case 1: // buffer without asking for notification
				*s.FAR(2) = FARSpec{ID: 2, Action: ActBUFF, DstIface: IfAccess, HasFwd: true}
			case 2:
				*s.FAR(2) = FARSpec{ID: 2, Action: ActDROP, DstIface: IfAccess, HasFwd: true}
			}
		}
		res := p.Establish(s)
		if !res.Accepted {
			return nil
		}
		r.Accepted++
		si := &sessInfo{s: s, notify: notify, dlPDR: 2, live: true, lastFwd: -1, seidAt: []int64{0}, seids: []uint64{s.CPSEID}}
		sessions = append(sessions, si)
		return si
	}
	n := 1 + r.Ch.Choose(3, "nsess")
	if reuse {
		n = 1 // the repeating PRNG refuses a second concurrent session
	}
	for i := 0; i < n; i++ {
		mk()
	}
	if len(sessions) == 0 {
		return
	}
	// model of what the agent's notifier remembers per F-SEID (it never forgets)
	type fwd struct {
		at          int64
		si          *sessInfo
		cpseid      uint64 // the control plane's SEID of the session when the report was made
		reusedFirst bool   // first report of a session that inherited the F-SEID of a deleted one
	}
	var expected []fwd
	notifierLast := map[uint64]int64{}
	seenFirst := map[*sessInfo]bool{}
	inject := func(fseid uint64) {
		if up4 {
			// the switch reports the UE address; an address no session owns for unknown F-SEIDs
			ue := uint32(0x0A630000) + uint32(fseid&0xff)
			for _, x := range sessions {
				if x.s.UPSEID == fseid {
					for _, pd := range x.s.PDRs {
						if pd.SrcIface == IfCore {
							ue = pd.EffUEIP()
						}
					}
				}
			}
			r.W.P4.InjectDigest(ue)
			return
		}
		b := make([]byte, 8)
		binary.LittleEndian.PutUint64(b, fseid)
		r.W.Net.UnixInject("/tmp/notifycp", b)
	}
	reassociated := false
	rxBoundary := -1
	nrep := 5 + r.Ch.Choose(36, "nreports")
	for k := 0; k < nrep && r.AgentAlive(); k++ {
		// choose the target
		var target *sessInfo
		var fseid uint64
		switch r.Ch.Choose(8, "target") {
		case 1:
			fseid = 0xFEED0000 + uint64(r.Ch.Choose(4, "unk"))
		default:
			target = sessions[r.Ch.Choose(len(sessions), "sess")]
			fseid = target.s.UPSEID
		}
		// the report concerns whichever live session owns that F-SEID now
		if target != nil && !target.live {
			for _, x := range sessions {
				if x.live && x.s.UPSEID == fseid {
					target = x
				}
			}
		}
		// choose the time gap
		var gap time.Duration
		switch r.Ch.Choose(7, "gapkind") {
		case 0:
			gap = time.Duration(r.Ch.Choose(50, "burst-ms")) * time.Millisecond
		case 1:
			gap = time.Duration(1+r.Ch.Choose(19, "s")) * time.Second
		case 2:
			gap = ddnInterval - time.Duration(3+r.Ch.Choose(200, "before-ms"))*time.Millisecond
		case 3:
			gap = ddnInterval + time.Duration(3+r.Ch.Choose(200, "after-ms"))*time.Millisecond
		case 4:
			gap = time.Duration(21+r.Ch.Choose(60, "long-s")) * time.Second
		case 5:
			gap = 0
		case 6:
			gap = time.Duration(r.Ch.Choose(3000, "ms")) * time.Millisecond
		}
		// (drawn here: the boundary rule below must know when the report really arrives)
		during := !flood && !reuse && r.Ch.Choose(8, "during-slow-request") == 1
		var off time.Duration
		if during {
			off = time.Duration(1+r.Ch.Choose(150, "during-ms")) * time.Millisecond
		}
		// stay away from the exact interval boundary relative to the last forwarded report
		at := r.Sim.NowNS() + int64(gap) + int64(off)
		if last, ok := notifierLast[fseid]; ok {
			d := time.Duration(at - last)
			if d > ddnInterval-3*time.Millisecond && d < ddnInterval+3*time.Millisecond {
				gap += 10 * time.Millisecond
				at += int64(10 * time.Millisecond)
			}
		}
		r.Sim.RunFor(gap)
		now := r.Sim.NowNS()
		if during {
			// the report arrives while the association's goroutine is inside a session
			// request whose datapath calls take a while (far below the plug-in's patience):
			// it is forwarded all the same, now or when the request is through
			now += int64(off)
			f := fseid
			r.Sim.At(now, func() { inject(f) })
			if up4 {
				r.W.P4.Faults.SlowDen, r.W.P4.Faults.SlowBy = 1, 200*time.Millisecond
			} else {
				r.W.Bess.Faults.SlowDen, r.W.Bess.Faults.SlowBy = 1, 200*time.Millisecond
			}
			other := mk()
			r.W.P4.Faults.SlowDen, r.W.Bess.Faults.SlowDen = 0, 0
			if r.Sim.NowNS() < now {
				r.Sim.RunFor(time.Duration(now - r.Sim.NowNS()))
			}
			// The property puts no bound on when the notification leaves (on UP4 the
			// listener waits for the request to be through): the interval of the
			// reference notifier starts when the Session Report Request was seen, if one was
			r.Sim.RunFor(20 * time.Millisecond)
			for _, m := range p.Rx {
				if _, ok := m.Msg.(*message.SessionReportRequest); ok && m.Err == nil && m.At >= now {
					now = m.At - int64(r.W.Net.FromAgent.LatMin)
					break
				}
			}
			r.Fault("report-during-slow-session-request")
			r.Op("the next report arrives %v into a session establishment with slow datapath calls (accepted: %v)", off, other != nil)
		} else {
			inject(fseid)
		}
		// reference notifier
		last, known := notifierLast[fseid]
		forward := !known || time.Duration(now-last) >= ddnInterval
		if up4 && (target == nil || !target.live) {
			// UP4 resolves the UE address to a session first: nothing is remembered
			// for an address no live session owns
			forward = false
		} else if forward {
			notifierLast[fseid] = now
		}
		class := "unknown"
		if target != nil {
			class = fmt.Sprintf("notify=%v live=%v", target.notify, target.live)
			if forward && target.live && target.notify {
				expected = append(expected, fwd{now, target, target.s.CPSEID, false})
				seenFirst[target] = true
			}
			if !forward && target.live && target.notify && !seenFirst[target] {
				// the model itself (keyed by F-SEID like the agent) suppresses the first
				// report of a session that inherited an old F-SEID: the property forbids it
				expected = append(expected, fwd{now, target, target.s.CPSEID, true})
				seenFirst[target] = true
				r.Probe("first-report-of-session-with-reused-fseid")
			}
		}
		r.Skel(fmt.Sprintf("%s:%v", class, forward))
		r.Op("report fseid=%d (%s) gap=%v -> reference notifier forwards=%v", fseid, class, gap, forward)
		if !forward {
			r.Fault("report-within-interval")
		}
		r.Sim.RunFor(20 * time.Millisecond)
		// occasionally the control plane moves a session to a new CP F-SEID (with or
		// without touching a rule): later reports are addressed with the new one
		if r.Ch.Choose(10, "new-cp-fseid") == 1 && target != nil && target.live {
			m := &ModSpec{Tag: "newCPSEID", NewCPSEID: p.NewCPSEID()}
			if r.Ch.Choose(2, "with-far") == 1 {
				f := *target.s.FAR(1)
				m.UpdateFAR = append(m.UpdateFAR, &f)
				m.Tag = "newCPSEID+uF"
			}
			sentAt := r.Sim.NowNS()
			res := p.Modify(target.s, m)
			if res.Accepted {
				// the agent switches somewhere between the request and its response
				target.seidAt = append(target.seidAt, sentAt)
				target.seids = append(target.seids, m.NewCPSEID)
			}
			r.Op("session up=%d moved to CP SEID %d (%s) -> accepted=%v", target.s.UPSEID, m.NewCPSEID, m.Tag, res.Accepted)
			r.Skel("cpseid:" + m.Tag)
		}
		// occasionally an Update FAR that carries forwarding parameters but no Apply
		// Action (the element is conditional): refused or accepted, the rule's action
		// is what it was, and so is the notification behaviour
		if r.Ch.Choose(10, "update-far-without-action") == 1 && target != nil && target.live {
			m := &ModSpec{Tag: "uF:no-apply-action", Extra: []*ie.IE{ie.NewUpdateFAR(ie.NewFARID(2),
				ie.NewUpdateForwardingParameters(ie.NewDestinationInterface(ie.DstInterfaceAccess)))}}
			res := p.Modify(target.s, m)
			r.Op("session up=%d: Update FAR 2 without Apply Action -> accepted=%v", target.s.UPSEID, res.Accepted)
			r.Skel(fmt.Sprintf("uF-no-action:%v", res.Accepted))
			r.Probe("update-far-without-apply-action")
		}
		// occasionally the association is released and set up again (same peer address),
		// with new sessions: they are sessions of their own, their first reports are
		// forwarded whatever was notified for the sessions of the old association
		if !up4 && !reuse && !flood && !reassociated && r.Ch.Choose(12, "reassociate") == 1 {
			reassociated = true
			p.Release()
			rxBoundary = len(p.Rx) // (sequence numbers are counted per association)
			for _, x := range sessions {
				x.live = false
			}
			p.Sessions = map[uint64]*CPSession{}
			r.Sim.RunFor(50 * time.Millisecond)
			if p.AssociateRetry() == nil {
				r.Inconclusive++
				return
			}
			sessions = nil
			for i := 0; i < 1+r.Ch.Choose(2, "nsess-after-reassociation"); i++ {
				mk()
			}
			r.Skel("reassociated")
			r.Probe("association-released-and-set-up-again")
			r.Op("association released and set up again; %d new session(s)", len(sessions))
			if len(sessions) == 0 {
				return
			}
			continue
		}
		// occasionally (P4Runtime) the control plane asks for forwarding instead of
		// buffer-and-notify while one Write RPC of that modification fails: the request
		// is refused, the session is what it was and its reports are forwarded as before
		if up4 && r.Ch.Choose(10, "refused-far-update") == 1 && target != nil && target.live && target.notify {
			g.nextTEID++
			nf := &FARSpec{ID: 2, Action: ActFORW, DstIface: IfAccess, HasFwd: true, HasOHC: true, TEID: g.nextTEID, PeerIP: ip4("198.18.1.10")}
			r.W.P4.FailKind = "transport"
			r.W.P4.Faults.FailNth = r.W.P4.Writes + 1 + r.Ch.Choose(3, "which-write-of-the-update")
			res := p.Modify(target.s, &ModSpec{Tag: "uF:forward", UpdateFAR: []*FARSpec{nf}})
			hit := r.W.P4.Faults.FailNth != 0 && r.W.P4.Writes >= r.W.P4.Faults.FailNth
			r.W.P4.Faults.FailNth = 0
			r.Op("session up=%d: Update FAR to forwarding with a failing Write (hit: %v) -> accepted=%v", target.s.UPSEID, hit, res.Accepted)
			r.Skel(fmt.Sprintf("uF-forward-failing-write:%v", res.Accepted))
			if res.Rx == nil {
				r.Inconclusive++
				return
			}
			if res.Accepted {
				target.notify = false // it forwards now: no more notifications
			} else {
				r.Fault("p4-write-fails-in-far-update")
			}
		}
		// occasionally delete a session / create a new one (SEID reuse when the PRNG repeats)
		if r.Ch.Choose(10, "churn") == 1 && target != nil && target.live {
			// (P4Runtime: one Write RPC of the deletion may fail; the deletion is then
			// refused, the session lives on and its reports are forwarded as before)
			armed := false
			if up4 && r.Ch.Choose(2, "delete-fails") == 1 {
				r.W.P4.FailKind = "transport"
				r.W.P4.Faults.FailNth = r.W.P4.Writes + 1 + r.Ch.Choose(2, "which-write")
				armed = true
			}
			res := p.Delete(target.s)
			if armed {
				r.W.P4.Faults.FailNth = 0
				if !res.Accepted && res.Rx != nil {
					r.Fault("p4-write-fails-in-deletion")
					r.Op("deletion of session up=%d refused (cause %d) after a failed Write RPC: the session stays", target.s.UPSEID, res.Cause)
					r.Skel("deletion-refused")
				}
			}
			if res.Accepted {
				target.live = false
				r.Op("session up=%d deleted", target.s.UPSEID)
				if si := mk(); si != nil && si.s.UPSEID == target.s.UPSEID {
					r.Probe("fseid-reused-by-new-session")
					r.Op("new session inherits F-SEID %d", si.s.UPSEID)
				}
				// drop dead sessions from the target list unless nothing else is left
				var liveOnes []*sessInfo
				for _, x := range sessions {
					if x.live {
						liveOnes = append(liveOnes, x)
					}
				}
				if len(liveOnes) > 0 && r.Ch.Choose(2, "keepdead") == 0 {
					sessions = liveOnes
				}
			}
		}
	}
	if flood && r.AgentAlive() {
		r.Sim.RunFor(ddnInterval + time.Second) // every session's interval has expired
		n := 1030 + r.Ch.Choose(700, "flood-n")
		var list []uint64
		for i := 0; i < n; i++ {
			list = append(list, 0xF100D0000+uint64(i))
		}
		// the live sessions' reports come near the end of the burst
		for _, x := range sessions {
			if !x.live {
				continue
			}
			pos := len(list) - r.Ch.Choose(16, "flood-pos")
			list = append(list[:pos], append([]uint64{x.s.UPSEID}, list[pos:]...)...)
		}
		now := r.Sim.NowNS()
		done := map[uint64]bool{}
		for _, f := range list {
			for _, x := range sessions {
				if x.live && x.s.UPSEID == f && !done[f] {
					done[f] = true
					notifierLast[f] = now
					if x.notify {
						expected = append(expected, fwd{now, x, x.s.CPSEID, false})
						seenFirst[x] = true
					}
				}
			}
		}
		i := 0
		var pump func()
		pump = func() {
			// (a unix datagram sender blocks while the receiver's queue is full)
			for i < len(list) && r.W.Net.UnixQueueLen("/tmp/notifycp") < 400 {
				inject(list[i])
				i++
			}
			if i < len(list) {
				r.Sim.AfterSteps(16, pump)
			}
		}
		pump()
		r.Fault("report-burst-beyond-the-queue")
		r.Skel("flood")
		r.Op("%d reports for distinct F-SEIDs at one instant (%d of them for live sessions)", len(list), len(done))
		r.Sim.RunFor(200 * time.Millisecond)
		if i < len(list) {
			r.Inconclusive++ // the listener never drained its socket: nothing to judge
			return
		}
	}
	r.Sim.RunFor(time.Second)
	r.CheckNoPanics("C13")
	if len(r.Violations) > 0 || !r.AgentAlive() {
		return
	}
	// observed Session Report Requests
	var got []*RxMsg
	seqSeen := map[uint32]bool{}
	for i, m := range p.Rx {
		if i == rxBoundary {
			seqSeen = map[uint32]bool{}
		}
		if m.Err != nil {
			continue
		}
		if isResponseType(m.Msg.MessageType()) {
			continue
		}
		if seqSeen[m.Msg.Sequence()] {
			r.Violate("C13", "sequence-number-reused", "agent-originated request reuses sequence number %d", m.Msg.Sequence())
		}
		seqSeen[m.Msg.Sequence()] = true
		if _, ok := m.Msg.(*message.SessionReportRequest); ok {
			got = append(got, m)
		}
	}
	// match in order
	gi := 0
	for _, e := range expected {
		if gi >= len(got) {
			what := "missing-notification"
			if e.si.gen == 0 && r.Probes["first-report-of-session-with-reused-fseid"] > 0 {
				what = "first-report-suppressed:fseid-reuse" + reuseTag
			}
			r.Violate("C13", what, "report for session cp=%d up=%d at t=%.3fs should have been forwarded (reference notifier), no Session Report Request arrived", e.si.s.CPSEID, e.si.s.UPSEID, float64(e.at)/1e9)
			return
		}
		m := got[gi]
		srr := m.Msg.(*message.SessionReportRequest)
		d := time.Duration(m.At - e.at)
		if d < 0 || d > 50*time.Millisecond {
			what := "unexpected-notification"
			if d > 0 {
				what = "missing-notification"
				if r.Probes["first-report-of-session-with-reused-fseid"] > 0 {
					what = "first-report-suppressed:fseid-reuse" + reuseTag
				}
			}
			r.Violate("C13", what, "expected a notification for the report at t=%.3fs (session cp=%d); next Session Report Request arrived at t=%.3fs for SEID %d", float64(e.at)/1e9, e.si.s.CPSEID, float64(m.At)/1e9, srr.SEID())
			return
		}
		gi++
		// the SEID must be one the control plane used for the session between the
		// datapath's report and the arrival of the Session Report Request
		okSEID := false
		for i, sd := range e.si.seids {
			from := e.si.seidAt[i]
			to := int64(1) << 62
			if i+1 < len(e.si.seids) {
				to = e.si.seidAt[i+1] + int64(time.Second)
			}
			if sd == srr.SEID() && from <= m.At && to >= e.at {
				okSEID = true
			}
		}
		if !okSEID && e.reusedFirst {
			// the request that arrived belongs to a later report of another session:
			// this one (the listed finding) was suppressed
			r.Violate("C13", "first-report-suppressed:fseid-reuse"+reuseTag, "report for session cp=%d up=%d at t=%.3fs should have been forwarded (first report of the session), the next Session Report Request carries SEID %d", e.si.s.CPSEID, e.si.s.UPSEID, float64(e.at)/1e9, srr.SEID())
			return
		}
		if !okSEID {
			r.Violate("C13", "wrong-seid", "Session Report Request addressed with SEID %d; the control plane's SEID of the session was %d when the datapath reported (UP SEID %d; history of CP SEIDs %v)", srr.SEID(), e.cpseid, e.si.s.UPSEID, e.si.seids)
			return
		}
		if srr.ReportType == nil || !srr.ReportType.HasDLDR() {
			r.Violate("C13", "no-dldr-report-type", "Session Report Request without DLDR report type")
			return
		}
		if srr.DownlinkDataReport == nil {
			r.Violate("C13", "no-downlink-data-report", "Session Report Request without Downlink Data Report")
			return
		}
		id, err := srr.DownlinkDataReport.PDRID()
		if err != nil || id != e.si.dlPDR {
			r.Violate("C13", "wrong-pdr", "Downlink Data Report names PDR %d (err %v), the session's downlink PDR is %d", id, err, e.si.dlPDR)
			return
		}
	}
	if gi < len(got) {
		m := got[gi]
		r.Violate("C13", "unexpected-notification", "Session Report Request for SEID %d at t=%.3fs although the reference notifier forwards nothing then (unknown / non-notifying session or within the interval)", m.Msg.SEID(), float64(m.At)/1e9)
	}
}
