package harness

import (
	"fmt"
	"sort"

	"github.com/omec-project/upf-epc/zzverif/vsimenv"
)

// Reference model of the BESS datapath image (C03, C05, C09, C11).
//
// Facts used here come from conf/up4.bess (field order and widths of the
// lookup modules, action / gate codes) and from the property statements, not
// from the Go code under test:
//   pdrLookup fields: src_iface(1) tunnel_ipv4_dst(4) teid(4) src_ip(4) dst_ip(4) src_port(2) dst_port(2) ip_proto(1)
//   pdrLookup values: pdr_id fseid ctr_id qer_id far_id ; gate 1 = GTPUDecap
//   farLookup fields: far_id fseid ; values: action tunnel_out_type src dst teid udp_port ; gate 1 = GTPUEncap
//   Access = 1, Core = 2 ; farForwardD 0, farForwardU 1, farDrop 2, farBuffer 3, farNotifyCP 4

const (
	bessAccess = 1
	bessCore   = 2
)

type Packet [8]uint64 // src_iface, tunnel_dst, teid, src_ip, dst_ip, src_port, dst_port, proto

func ifaceCode(srcIface uint8) uint64 {
	if srcIface == IfAccess {
		return bessAccess
	}
	return bessCore
}

// matches: does the live PDR denote this packet (independent reading of the
// property: source interface, tunnel endpoint, UE address, SDF filter)?
func (p *PDRSpec) matches(pk Packet) bool {
	if pk[0] != ifaceCode(p.SrcIface) {
		return false
	}
	if p.HasFTEID {
		if pk[1] != uint64(p.EffTEIDAddr()) || pk[2] != uint64(p.EffTEID()) {
			return false
		}
	}
	uplink := p.SrcIface == IfAccess
	ueField, remField := 4, 3 // downlink: UE is the destination
	uePort, remPort := 6, 5
	if uplink {
		ueField, remField = 3, 4
		uePort, remPort = 5, 6
	}
	_ = uePort
	ueConstrained := false
	if p.SDF != nil && p.SDF.Valid {
		f := p.SDF
		if f.Proto >= 0 && pk[7] != uint64(f.Proto) {
			return false
		}
		if !inPrefix(uint32(pk[remField]), f.RemoteIP, f.RemoteLen) {
			return false
		}
		if f.HasPort && (pk[remPort] < uint64(f.PortLo) || pk[remPort] > uint64(f.PortHi)) {
			return false
		}
		switch f.UESide {
		case "ip":
			ueConstrained = true
			if !inPrefix(uint32(pk[ueField]), f.UEIP, f.UELen) {
				return false
			}
		case "assigned":
			// the UE address of the PDR (below)
		case "any":
			// the filter itself does not restrict the UE side; the PDR's UE
			// address still does
		}
	}
	if p.HasUEIP && !ueConstrained {
		if pk[ueField] != uint64(p.EffUEIP()) {
			return false
		}
	}
	return true
}

func inPrefix(ip, pfx uint32, l int) bool {
	if l <= 0 {
		return true
	}
	m := ^uint32(0) << (32 - uint(l))
	return ip&m == pfx&m
}

type modelPDR struct {
	s *CPSession
	p *PDRSpec
}

// samplePackets: boundary-value packets around a live rule.
func (p *PDRSpec) samplePackets() []Packet {
	base := Packet{ifaceCode(p.SrcIface), 0, 0, 0, 0, 0, 0, 0}
	uplink := p.SrcIface == IfAccess
	ueField, remField, remPort, uePort := 4, 3, 5, 6
	if uplink {
		ueField, remField, remPort, uePort = 3, 4, 6, 5
	}
	if p.HasFTEID {
		base[1], base[2] = uint64(p.EffTEIDAddr()), uint64(p.EffTEID())
	} else {
		base[1], base[2] = 0, 0
	}
	if p.HasUEIP {
		base[ueField] = uint64(p.EffUEIP())
	} else {
		base[ueField] = uint64(ipU32(ip4("10.99.0.1")))
	}
	base[remField] = uint64(ipU32(ip4("8.8.8.8")))
	base[remPort], base[uePort], base[7] = 4000, 5000, 17
	protos := []uint64{17}
	remIPs := []uint64{base[remField]}
	remPorts := []uint64{4000}
	if f := p.SDF; f != nil && f.Valid {
		if f.Proto >= 0 {
			protos = []uint64{uint64(f.Proto), uint64((f.Proto + 1) % 256)}
		} else {
			protos = []uint64{6, 17, 1}
		}
		if f.RemoteLen > 0 {
			m := ^uint32(0) << (32 - uint(f.RemoteLen))
			lo := f.RemoteIP & m
			hi := lo | ^m
			remIPs = []uint64{uint64(lo), uint64(hi), uint64(lo - 1), uint64(hi + 1)}
		}
		if f.HasPort {
			remPorts = []uint64{uint64(f.PortLo), uint64(f.PortHi), uint64(f.PortLo) - 1&0xffff, (uint64(f.PortHi) + 1) & 0xffff, (uint64(f.PortLo) + uint64(f.PortHi)) / 2}
		} else {
			remPorts = []uint64{0, 4000, 65535}
		}
		if f.UESide == "ip" && f.UELen > 0 {
			base[ueField] = uint64(f.UEIP)
		}
	}
	var out []Packet
	add := func(pk Packet) { out = append(out, pk) }
	for _, pr := range protos {
		for _, ri := range remIPs {
			for _, rp := range remPorts {
				pk := base
				pk[7], pk[remField], pk[remPort] = pr, ri&0xffffffff, rp&0xffff
				add(pk)
			}
		}
	}
	// perturb each match field of the base packet
	for i := 0; i < 8; i++ {
		for _, d := range []uint64{1, ^uint64(0)} {
			pk := base
			pk[i] = (pk[i] + d) & fieldMask(i)
			add(pk)
		}
	}
	other := base
	other[0] = 3 - base[0] // the other interface
	add(other)
	return out
}

func fieldMask(i int) uint64 {
	switch i {
	case 0, 7:
		return 0xff
	case 5, 6:
		return 0xffff
	}
	return 0xffffffff
}

// entrySamples: packets taken from an installed wildcard entry itself (catches
// stale entries: present at the datapath but denoted by no live rule).
func entrySamples(e *vsimenv.WCEntry) []Packet {
	var lo, hi, mid Packet
	for i := 0; i < 8; i++ {
		fm := fieldMask(i)
		lo[i] = e.Values[i]
		hi[i] = (e.Values[i] | (^e.Masks[i] & fm)) & fm
		// a "typical" fill of wildcarded bits
		fill := uint64(0x0A0B0C0D) & ^e.Masks[i] & fm
		mid[i] = (e.Values[i] | fill) & fm
	}
	return []Packet{lo, hi, mid}
}

// modelWinner: lowest precedence among live PDRs matching pk. tie reports
// whether another matching PDR has the same precedence.
func modelWinner(live []modelPDR, pk Packet) (w *modelPDR, tie bool) {
	for i := range live {
		m := &live[i]
		if !m.p.matches(pk) {
			continue
		}
		if w == nil || m.p.Precedence < w.p.Precedence {
			w, tie = m, false
		} else if m.p.Precedence == w.p.Precedence {
			tie = true
		}
	}
	return
}

func (r *Run) livePDRs() []modelPDR {
	var live []modelPDR
	for _, s := range r.LiveSessions() {
		for _, p := range s.PDRs {
			live = append(live, modelPDR{s, p})
		}
	}
	return live
}

// CheckBESSImage compares the simulated BESS tables with the image of the live
// rules. prop is the property charged; ctx says after which operation.
type BessCheckOpts struct {
	SkipQoSParams bool // C03 does not judge rates (C09 does)
}

func (r *Run) CheckBESSImage(prop, ctx, cause string) {
	b := r.W.Bess
	live := r.livePDRs()
	liveSess := map[uint64]*CPSession{}
	for _, s := range r.LiveSessions() {
		liveSess[s.UPSEID] = s
	}

	// --- PDR module: classification on boundary samples
	var pkts []Packet
	for _, m := range live {
		pkts = append(pkts, m.p.samplePackets()...)
	}
	for _, k := range b.SortedPDRKeys() {
		pkts = append(pkts, entrySamples(b.PDR[k])...)
	}
	seen := map[Packet]bool{}
	for _, pk := range pkts {
		if seen[pk] {
			continue
		}
		seen[pk] = true
		mw, tie := modelWinner(live, pk)
		bw, amb := b.Classify([8]uint64(pk))
		if tie || amb {
			continue
		}
		switch {
		case mw == nil && bw == nil:
		case mw == nil && bw != nil:
			what := "entry-of-dead-session"
			if _, ok := liveSess[bw.Valuesv[1]]; ok {
				what = "entry-not-denoted-by-live-rule"
			}
			r.Violate(prop, imgSig("pdr", what, r.causeFor(bw.Valuesv[1], cause)), "%s: packet %v is classified by the datapath to pdr=%d fseid=%d but no live PDR denotes it (entry values=%v masks=%v)",
				ctx, pk, bw.Valuesv[0], bw.Valuesv[1], bw.Values, bw.Masks)
		case mw != nil && bw == nil:
			r.Violate(prop, imgSig("pdr", "missing-entry:"+pdrShape(mw.p), r.causeFor(mw.s.UPSEID, cause)), "%s: packet %v is denoted by live PDR %d of session cp=%d up=%d (%s) but the datapath has no matching entry",
				ctx, pk, mw.p.ID, mw.s.CPSEID, mw.s.UPSEID, describePDR(mw.p))
		default:
			if bw.Valuesv[1] != mw.s.UPSEID || bw.Valuesv[0] != uint64(mw.p.ID) {
				r.Violate(prop, imgSig("pdr", "wrong-winner", r.causeFor(mw.s.UPSEID, cause)), "%s: packet %v should go to PDR %d of session up=%d (precedence %d) but the datapath picks pdr=%d fseid=%d (priority %d)",
					ctx, pk, mw.p.ID, mw.s.UPSEID, mw.p.Precedence, bw.Valuesv[0], bw.Valuesv[1], bw.Priority)
				continue
			}
			if bw.Valuesv[4] != uint64(mw.p.FARID) {
				r.Violate(prop, imgSig("pdr", "wrong-far", r.causeFor(mw.s.UPSEID, cause)), "%s: PDR %d of session up=%d carries far_id %d at the datapath, sent %d", ctx, mw.p.ID, mw.s.UPSEID, bw.Valuesv[4], mw.p.FARID)
			}
			wantGate := uint64(0)
			if mw.p.OHR {
				wantGate = 1
			}
			if bw.Gate != wantGate {
				r.Violate(prop, imgSig("pdr", "wrong-decap-gate", r.causeFor(mw.s.UPSEID, cause)), "%s: PDR %d of session up=%d has gate %d at the datapath, outer header removal sent=%v", ctx, mw.p.ID, mw.s.UPSEID, bw.Gate, mw.p.OHR)
			}
			if want, ok := r.expectedFirstAppQER(mw.s, mw.p); ok && bw.Valuesv[3] != uint64(want) {
				r.Violate(prop, imgSig("pdr", "wrong-qer", r.causeFor(mw.s.UPSEID, cause)), "%s: PDR %d of session up=%d carries qer_id %d at the datapath, first application QER is %d (list %v)",
					ctx, mw.p.ID, mw.s.UPSEID, bw.Valuesv[3], want, mw.p.QERIDs)
			}
		}
	}
	// priority must order PDRs as precedence does (pairwise over installed entries of live PDRs)
	type pe struct {
		prec uint32
		prio int64
	}
	var pes []pe
	for _, k := range b.SortedPDRKeys() {
		e := b.PDR[k]
		if s, ok := liveSess[e.Valuesv[1]]; ok {
			if p := s.PDR(uint16(e.Valuesv[0])); p != nil {
				pes = append(pes, pe{p.Precedence, e.Priority})
			}
		}
	}
	for i := range pes {
		for j := range pes {
			if pes[i].prec < pes[j].prec && !(pes[i].prio > pes[j].prio) {
				r.Violate(prop, imgSig("pdr", "priority-order", r.causeFor(0, cause)), "%s: precedence %d < %d but priorities %d !> %d", ctx, pes[i].prec, pes[j].prec, pes[i].prio, pes[j].prio)
			}
		}
	}

	// --- FAR module: exactly one entry per live FAR
	wantFAR := map[string]*FARSpec{}
	farSess := map[string]*CPSession{}
	for _, s := range r.LiveSessions() {
		for _, f := range s.FARs {
			k := fmt.Sprintf("%d,%d", f.ID, s.UPSEID)
			wantFAR[k] = f
			farSess[k] = s
		}
	}
	for _, k := range b.SortedFARKeys() {
		e := b.FAR[k]
		f, ok := wantFAR[k]
		if !ok {
			r.Violate(prop, imgSig("far", "stale-entry", r.causeFor(e.Fields[1], cause)), "%s: FAR entry far_id=%d fseid=%d is present but no live FAR denotes it", ctx, e.Fields[0], e.Fields[1])
			continue
		}
		r.checkFAREntry(prop, ctx, cause, farSess[k], f, e)
	}
	for _, k := range sortedKeys(wantFAR) {
		if _, ok := b.FAR[k]; !ok {
			r.Violate(prop, imgSig("far", "missing-entry", r.causeFor(farSess[k].UPSEID, cause)), "%s: live FAR %d of session up=%d has no entry", ctx, wantFAR[k].ID, farSess[k].UPSEID)
		}
	}

	// --- QER modules: one uplink + one downlink entry per live QER, nothing else
	for _, mod := range []string{"appQERLookup", "sessionQERLookup"} {
		for _, k := range b.SortedQosKeys(mod) {
			e := b.Qos[mod][k]
			var fseid uint64
			var qid int64 = -1
			if mod == "appQERLookup" && len(e.Fields) == 3 {
				qid, fseid = int64(e.Fields[1]), e.Fields[2]
			} else if mod == "sessionQERLookup" && len(e.Fields) == 2 {
				fseid = e.Fields[1]
			} else {
				r.Violate(prop, imgSig("qer", "malformed-key", r.causeFor(0, cause)), "%s: %s entry with fields %v", ctx, mod, e.Fields)
				continue
			}
			s, ok := liveSess[fseid]
			if !ok {
				r.Violate(prop, imgSig("qer", "stale-entry:"+mod, r.causeFor(fseid, cause)), "%s: %s entry %v belongs to no live session", ctx, mod, e.Fields)
				continue
			}
			if qid >= 0 && s.QER(uint32(qid)) == nil {
				r.Violate(prop, imgSig("qer", "stale-entry:"+mod, r.causeFor(fseid, cause)), "%s: %s entry %v: session up=%d has no live QER %d", ctx, mod, e.Fields, fseid, qid)
			}
		}
	}
	for _, s := range r.LiveSessions() {
		sessPairs := 0
		for _, dir := range []uint64{bessAccess, bessCore} {
			if _, ok := b.Qos["sessionQERLookup"][fmt.Sprintf("%d,%d", dir, s.UPSEID)]; ok {
				sessPairs++
			}
		}
		appPairs := 0
		missing := []uint32{}
		for _, q := range s.QERs {
			n := 0
			for _, dir := range []uint64{bessAccess, bessCore} {
				if _, ok := b.Qos["appQERLookup"][fmt.Sprintf("%d,%d,%d", dir, q.ID, s.UPSEID)]; ok {
					n++
				}
			}
			if n == 2 {
				appPairs++
			} else if n == 1 {
				r.Violate(prop, imgSig("qer", "half-installed", r.causeFor(s.UPSEID, cause)), "%s: QER %d of session up=%d has only one direction in appQERLookup", ctx, q.ID, s.UPSEID)
			} else {
				missing = append(missing, q.ID)
			}
		}
		if sessPairs == 1 {
			r.Violate(prop, imgSig("qer", "half-installed", r.causeFor(s.UPSEID, cause)), "%s: session up=%d has only one direction in sessionQERLookup", ctx, s.UPSEID)
		}
		// every QER missing from the application table must be the (single) one in the session table
		if len(missing) > 1 || (len(missing) == 1 && sessPairs != 2) {
			r.Violate(prop, imgSig("qer", "missing-entry", r.causeFor(s.UPSEID, cause)), "%s: session up=%d: live QERs %v have no entries (session-level entries present: %v)", ctx, s.UPSEID, missing, sessPairs == 2)
		}
		if len(missing) == 0 && sessPairs == 2 {
			r.Violate(prop, imgSig("qer", "extra-session-entry", r.causeFor(s.UPSEID, cause)), "%s: session up=%d: all %d QERs are in appQERLookup and a sessionQERLookup entry exists as well", ctx, s.UPSEID, len(s.QERs))
		}
	}
	r.noteState()
}

func pdrShape(p *PDRSpec) string {
	s := "dl"
	if p.SrcIface == IfAccess {
		s = "ul"
	}
	if p.SDF != nil {
		if p.SDF.HasPort && p.SDF.PortHi != p.SDF.PortLo {
			s += "+portrange"
		} else {
			s += "+sdf"
		}
	}
	if p.AppID != "" {
		s += "+app"
	}
	return s
}

func describePDR(p *PDRSpec) string {
	sdf := ""
	if p.SDF != nil {
		sdf = " sdf=\"" + p.SDF.Text + "\""
	}
	return fmt.Sprintf("iface=%d prec=%d fteid=%v/%d ue=%v%s far=%d qers=%v", p.SrcIface, p.Precedence, p.HasFTEID, p.EffTEID(), u32IP(p.EffUEIP()), sdf, p.FARID, p.QERIDs)
}

// expectedFirstAppQER: the PDR's first QER that is not the one installed as
// the session-wide limiter; not judged when that leaves nothing, or when the
// PDR lists no QER.
func (r *Run) expectedFirstAppQER(s *CPSession, p *PDRSpec) (uint32, bool) {
	if len(p.QERIDs) == 0 {
		return 0, true
	}
	b := r.W.Bess
	var rest []uint32
	for _, id := range p.QERIDs {
		inApp := false
		for _, dir := range []uint64{bessAccess, bessCore} {
			if _, ok := b.Qos["appQERLookup"][fmt.Sprintf("%d,%d,%d", dir, id, s.UPSEID)]; ok {
				inApp = true
			}
		}
		if inApp {
			rest = append(rest, id)
		}
	}
	if len(rest) == 0 {
		return 0, false
	}
	return rest[0], true
}

func (r *Run) checkFAREntry(prop, ctx, cause string, s *CPSession, f *FARSpec, e *vsimenv.EMEntry) {
	// action
	okAct := false
	var want string
	switch {
	case f.Action&ActFORW != 0:
		want = "forward"
		if f.HasFwd && f.DstIface == IfAccess {
			okAct = e.Values[0] == 0
		} else if f.HasFwd && f.DstIface == IfCore {
			okAct = e.Values[0] == 1
		} else {
			okAct = true // forwarding without parameters: outside the envelope, not judged
		}
	case f.Action&ActDROP != 0:
		want = "drop"
		okAct = e.Values[0] == 2
	case f.Action&ActBUFF != 0:
		want = "buffer/notify"
		okAct = e.Values[0] == 3 || e.Values[0] == 4
	case f.Action&ActNOCP != 0:
		want = "notify"
		okAct = e.Values[0] == 4
	}
	if !okAct {
		r.Violate(prop, imgSig("far", "wrong-action", r.causeFor(s.UPSEID, cause)), "%s: FAR %d of session up=%d: action code %d at the datapath, sent apply-action 0x%x (%s) dst-iface %d", ctx, f.ID, s.UPSEID, e.Values[0], f.Action, want, f.DstIface)
	}
	if f.Action&ActFORW != 0 && f.HasFwd {
		if f.HasOHC {
			if e.Values[1] != 1 || e.Gate != 1 {
				r.Violate(prop, imgSig("far", "wrong-tunnel-type", r.causeFor(s.UPSEID, cause)), "%s: FAR %d up=%d: tunnel type %d gate %d, outer header creation was sent", ctx, f.ID, s.UPSEID, e.Values[1], e.Gate)
			}
			if e.Values[3] != uint64(ipU32(f.PeerIP)) || e.Values[4] != uint64(f.TEID) || e.Values[5] != 2152 {
				r.Violate(prop, imgSig("far", "wrong-tunnel-params", r.causeFor(s.UPSEID, cause)), "%s: FAR %d up=%d: dst=%v teid=%d port=%d at the datapath, sent dst=%v teid=%d port 2152",
					ctx, f.ID, s.UPSEID, u32IP(uint32(e.Values[3])), e.Values[4], e.Values[5], f.PeerIP, f.TEID)
			}
			if f.DstIface == IfAccess && e.Values[2] != uint64(ipU32(ip4(N3Addr))) {
				r.Violate(prop, imgSig("far", "wrong-tunnel-src", r.causeFor(s.UPSEID, cause)), "%s: FAR %d up=%d: tunnel source %v, N3 address is %s", ctx, f.ID, s.UPSEID, u32IP(uint32(e.Values[2])), N3Addr)
			}
		} else if e.Values[1] != 0 || e.Gate != 0 {
			r.Violate(prop, imgSig("far", "wrong-tunnel-type", r.causeFor(s.UPSEID, cause)), "%s: FAR %d up=%d: tunnel type %d gate %d, no outer header creation was sent", ctx, f.ID, s.UPSEID, e.Values[1], e.Gate)
		}
	}
}

// noteState hashes the abstract datapath state (distinct_states measure).
func (r *Run) noteState() {
	b := r.W.Bess
	h := uint64(1469598103934665603)
	mix := func(x uint64) { h = (h ^ x) * 1099511628211 }
	mix(uint64(len(b.PDR)))
	mix(uint64(len(b.FAR)))
	mix(uint64(len(b.Qos["appQERLookup"])))
	mix(uint64(len(b.Qos["sessionQERLookup"])))
	var shapes []string
	for _, s := range r.LiveSessions() {
		shapes = append(shapes, fmt.Sprintf("%d/%d/%d", len(s.PDRs), len(s.FARs), len(s.QERs)))
	}
	sort.Strings(shapes)
	for _, s := range shapes {
		for _, c := range []byte(s) {
			mix(uint64(c))
		}
	}
	r.stateHashes[h] = true
}

// sessionLevelQER: is QER id of session s currently installed as the
// session-wide limiter (observed at the datapath)?
func (r *Run) sessionLevelQER(s *CPSession, id uint32) bool {
	b := r.W.Bess
	if _, ok := b.Qos["sessionQERLookup"][fmt.Sprintf("%d,%d", bessAccess, s.UPSEID)]; !ok {
		return false
	}
	_, inApp := b.Qos["appQERLookup"][fmt.Sprintf("%d,%d,%d", bessAccess, id, s.UPSEID)]
	return !inApp
}

// imgSig builds a violation signature. For operations the generator flags as
// triggers of a listed known finding ("after:<trigger>") the signature is the
// table plus the trigger, so that one root cause has one signature per table;
// for all other operations it names the kind of discrepancy and the operation.
func imgSig(table, kind, cause string) string {
	if len(cause) > 6 && cause[:6] == "after:" {
		return table + ":" + cause
	}
	return table + ":" + kind + ":" + cause
}

// causeFor: a discrepancy about a session that a known-finding trigger was
// applied to earlier is attributed to that trigger, also when it only shows
// later (e.g. at deletion).
func (r *Run) causeFor(upseid uint64, cause string) string {
	if t, ok := r.Taints[upseid]; ok {
		return "after:" + t
	}
	if upseid == 0 && r.noTaintFallback {
		return cause
	}
	if upseid == 0 && r.sharedTaint != "" {
		// a tainted session had a valid request rejected: what that request
		// half-did to objects shared between sessions belongs to its trigger
		return "after:" + r.sharedTaint
	}
	if upseid == 0 && len(r.Taints) > 0 {
		// a discrepancy about an object shared between sessions, in a run in
		// which some session met a known-finding trigger: attribute it to the
		// (alphabetically first) trigger of the run
		var ts []string
		for _, t := range r.Taints {
			ts = append(ts, t)
		}
		sort.Strings(ts)
		return "after:" + ts[0]
	}
	return cause
}

// RejectedValid records that a valid request for the session was rejected.
func (r *Run) RejectedValid(upseid uint64) {
	if t, ok := r.Taints[upseid]; ok && r.sharedTaint == "" {
		r.sharedTaint = t
	}
}

// TaintRun attributes later discrepancies on objects shared between sessions to
// a trigger that concerns no live session (e.g. a refused establishment).
func (r *Run) TaintRun(trigger string) {
	if trigger == "up4-refused-establishment" {
		r.refusedEst = true
	}
	if r.sharedTaint == "" {
		r.sharedTaint = trigger
	}
}

func (r *Run) Taint(upseid uint64, trigger string) {
	if r.Taints == nil {
		r.Taints = map[uint64]string{}
	}
	if _, ok := r.Taints[upseid]; !ok {
		r.Taints[upseid] = trigger
	}
}
