// Package harness drives simulated runs: it boots agent incarnations through
// the real NewPFCPIface/Run/Stop, owns the control-plane peer models and the
// reference models, and records violations.
package harness

import (
	"fmt"
	"io"
	"log"
	"net"
	"os"
	"sort"
	"strings"
	"time"

	"github.com/omec-project/upf-epc/logger"
	"github.com/omec-project/upf-epc/pfcpiface"
	"github.com/omec-project/upf-epc/zzverif/vsim"
	"github.com/omec-project/upf-epc/zzverif/vsimenv"
	"github.com/prometheus/client_golang/prometheus"
	pfcp "github.com/wmnsk/go-pfcp"
	"github.com/wmnsk/go-pfcp/message"
	"go.uber.org/zap"
	"go.uber.org/zap/zapcore"
)

const (
	N3Addr   = "198.18.0.1"
	N6Addr   = "198.19.0.1"
	AgentIP  = "10.250.0.1"
	PFCPPort = "8805"
)

type Violation struct {
	Prop string `json:"prop"`
	Sig  string `json:"sig"`
	Msg  string `json:"msg"`
}

// Run is one simulated execution.
type Run struct {
	Prop    string
	Seed    uint64
	Tier    string
	Variant int // fault position for fault-enumeration properties
	Sim     *vsim.Sim
	W       *vsimenv.World
	Ch      *vsim.Choices
	Peers   []*Peer

	Inc    int // current agent incarnation (0 = none)
	Agent  *pfcpiface.PFCPIface
	Conf   pfcpiface.Conf
	agents map[int]*pfcpiface.PFCPIface

	Violations   []Violation
	vseen        map[string]bool
	Ops          []string       // operation/fault trace for samples
	Probes       map[string]int // rare-condition reach counters
	Faults       map[string]int // fault kinds that fired
	Accepted     int            // accepted session operations (non-triviality)
	Inconclusive int
	stateHashes  map[uint64]bool
	skel         []string
	stopWD       func()
	// FirstOnly: report only the first discrepancy of the run (state-image
	// properties: later ones are consequences of the diverged state)
	FirstOnly       bool
	faultCtx        string
	faultedMod      map[uint64]bool
	Taints          map[uint64]string // UP SEID -> first known-finding trigger applied to the session
	sharedTaint     string
	refusedEst      bool // an establishment was refused half-way by the UP4 plug-in in this run
	noTaintFallback bool
	soft            int
	softNext        bool
	returned        map[int]*bool
}

func (r *Run) Violate(prop, sig, format string, a ...any) {
	key := prop + "|" + sig
	if r.vseen[key] || (r.FirstOnly && r.Hard() > 0) {
		return
	}
	if r.softNext {
		r.soft++
		r.softNext = false
	}
	if r.Sim.Exhausted && !strings.HasPrefix(sig, "panic:") && !strings.HasPrefix(sig, "fatal-exit:") {
		// the run hit its step budget: whatever has not happened yet may still
		// happen; no verdict from this run (counted as inconclusive)
		r.Inconclusive++
		return
	}
	r.vseen[key] = true
	msg := fmt.Sprintf(format, a...)
	r.Violations = append(r.Violations, Violation{Prop: prop, Sig: sig, Msg: msg})
	r.Sim.Logf("VIOLATION %s %s", prop, sig)
	r.Op("VIOLATION %s %s: %s", prop, sig, msg)
}

// Hard counts the violations that end the judging of a FirstOnly run. A soft
// violation (Soft() before Violate) is reported like any other but lets the run
// go on: used for a listed finding whose consequences stay local (stale meter
// cells after a restart), so that the rest of the run is still judged.
func (r *Run) Hard() int { return len(r.Violations) - r.soft }

func (r *Run) Soft() { r.softNext = true }

func (r *Run) Op(format string, a ...any) {
	r.Ops = append(r.Ops, fmt.Sprintf("t=%.6fs ", float64(r.Sim.NowNS())/1e9)+fmt.Sprintf(format, a...))
}

// Skel appends to the run's event skeleton (what distinguishes runs for the
// distinct_nontrivial count: kinds of operations/faults, not their values).
func (r *Run) Skel(s string) { r.skel = append(r.skel, s) }

func (r *Run) Probe(name string) { r.Probes[name]++ }
func (r *Run) Fault(name string) { r.Faults[name]++ }

// ---------------------------------------------------------------- logging of the agent

type fatalHook struct{}

func (fatalHook) OnWrite(ce *zapcore.CheckedEntry, _ []zapcore.Field) {
	vsim.FatalExit("zap.Fatal: " + ce.Message)
}

var loggersInstalled bool

// InstallLoggers replaces the agent's loggers: Fatal becomes a recorded
// process exit; output is dropped unless UPFSIM_LOG is set.
func InstallLoggers() {
	if loggersInstalled {
		return
	}
	loggersInstalled = true
	log.SetOutput(io.Discard)
	pfcp.DisableLogging() // go-pfcp logs unknown message types to stderr
	var core zapcore.Core = zapcore.NewNopCore()
	if os.Getenv("UPFSIM_LOG") != "" {
		enc := zap.NewDevelopmentEncoderConfig()
		enc.TimeKey = ""
		core = zapcore.NewCore(zapcore.NewConsoleEncoder(enc), zapcore.AddSync(os.Stderr), zapcore.DebugLevel)
	}
	l := zap.New(core, zap.WithFatalHook(fatalHook{})).Sugar()
	logger.BessLog, logger.DockerLog, logger.InitLog, logger.P4Log, logger.PfcpLog = l, l, l, l, l
}

// ---------------------------------------------------------------- run set-up

func NewRun(prop string, seed uint64, tier string, ch *vsim.Choices) *Run {
	InstallLoggers()
	s := vsim.New(ch)
	vsim.S = s
	vsim.ResetChanTable()
	vsim.ResetWaitGroups()
	vsim.ResetPools()
	vsim.RandCfg = vsim.RandConfig{}
	w := vsimenv.NewWorld(s)
	w.AgentIP = AgentIP
	w.Ifaces["access"] = N3Addr + "/24"
	w.Ifaces["core"] = N6Addr + "/24"
	w.Net.UnixOpen["/tmp/notifycp"] = true
	w.Net.UnixOpen["/tmp/pfcpport"] = true
	r := &Run{Prop: prop, Seed: seed, Tier: tier, Variant: curVariant, Sim: s, W: w, Ch: ch, vseen: map[string]bool{},
		Probes: map[string]int{}, Faults: map[string]int{}, agents: map[int]*pfcpiface.PFCPIface{}, stateHashes: map[uint64]bool{}}
	r.stopWD = s.StartWatchdog(60*time.Second, func() string { return fmt.Sprintf("prop=%s seed=%d", prop, seed) })
	return r
}

func (r *Run) Close() {
	if r.stopWD != nil {
		r.stopWD()
	}
	vsim.S = nil
}

// DrawStrategy picks the scheduling strategy and pre-emption knobs of the run.
func (r *Run) DrawStrategy() {
	s := r.Sim
	switch r.Ch.Choose(4, "strategy") {
	case 0:
		s.Strat = vsim.StratRunToBlock
	case 1:
		s.Strat = vsim.StratRandom
		s.SwitchDen = []int{2, 8, 32}[r.Ch.Choose(3, "switchden")]
	case 2:
		s.Strat = vsim.StratRandom
		s.SwitchDen = 4
		s.MaxGap = []int{2000, 300, 50}[r.Ch.Choose(3, "gap")]
	case 3:
		s.SetPCT(r.Ch.Choose(7, "pct-d"), 20000)
	}
	s.ArmPreempt()
	// "slow agent": in a quarter of the runs every scheduling step costs virtual time
	switch r.Ch.Choose(8, "stepcost") {
	case 1:
		s.StepCost = 1000
	case 2:
		s.StepCost = 5000
	case 3: // scheduling points before socket writes (drawn from the same choice: keeps older traces aligned)
		s.IODen = 2
	case 4:
		s.IODen = 3
	}
	r.Skel("strat=" + s.Strat.String())
}

// DefaultBESSConf is the agent configuration for the BESS datapath.
func DefaultBESSConf() pfcpiface.Conf {
	var c pfcpiface.Conf
	c.Mode = "dpdk"
	c.AccessIface.IfName = "access"
	c.CoreIface.IfName = "core"
	c.CPIface.EnableUeIPAlloc = true
	c.CPIface.UEIPPool = "10.60.0.0/24"
	c.CPIface.HTTPPort = "8080"
	c.ReadTimeout = 15
	c.RespTimeout = "2s"
	c.MaxReqRetries = 5
	c.EnableHBTimer = false
	c.HeartBeatInterval = "5s"
	c.EnableNotifyBess = true
	c.EnableEndMarker = true
	c.N4Addr = AgentIP
	c.LogLevel = zap.InfoLevel
	return c
}

// DefaultUP4Conf is the agent configuration for the P4Runtime (UP4) datapath.
func DefaultUP4Conf() pfcpiface.Conf {
	var c pfcpiface.Conf
	c.EnableP4rt = true
	c.P4rtcIface.SliceID = 0
	c.P4rtcIface.AccessIP = N3Addr + "/32"
	c.P4rtcIface.P4rtcServer = "onos"
	c.P4rtcIface.P4rtcPort = "51001"
	c.P4rtcIface.DefaultTC = 3
	c.P4rtcIface.QFIToTC = map[uint8]uint8{}
	c.CPIface.EnableUeIPAlloc = true
	c.CPIface.UEIPPool = "10.60.0.0/22"
	c.CPIface.HTTPPort = "8080"
	c.ReadTimeout = 15
	c.RespTimeout = "2s"
	c.MaxReqRetries = 5
	c.HeartBeatInterval = "5s"
	c.EnableEndMarker = true
	c.N4Addr = AgentIP
	c.LogLevel = zap.InfoLevel
	return c
}

// StartAgent boots a new incarnation with r.Conf and returns when it is
// quiescent (listening) or has died.
func (r *Run) StartAgent() int {
	r.Inc++
	inc := r.Inc
	// process-global state a real restart would reset
	vsim.RaceBarrier()
	reg := prometheus.NewRegistry()
	prometheus.DefaultRegisterer = reg
	prometheus.DefaultGatherer = reg
	pfcpiface.VerifResetGlobals()
	conf := r.Conf
	r.Sim.Logf("agent start inc=%d", inc)
	r.Op("agent start inc=%d", inc)
	r.runReturned(inc)
	r.Sim.Spawn(inc, "agent-main", func() {
		a := pfcpiface.NewPFCPIface(conf)
		registerAgent(r, inc, a)
		a.Run()
		markDone(r.runReturned(inc))
		// main() returns after Run(): the process exits, all other goroutines die
		vsim.ProcessExit()
	})
	// boot: until the PFCP listener and the HTTP listener exist (or the process died)
	r.Sim.RunUntil(func() bool {
		return r.Sim.IncDead(inc) || (r.W.Net.Listening(inc) && r.W.HTTP.Listening(inc))
	}, r.until(60*time.Second))
	return inc
}

//go:norace
func registerAgent(r *Run, inc int, a *pfcpiface.PFCPIface) {
	vsim.Call(func() {
		r.agents[inc] = a
		r.Agent = a
	})
}

func (r *Run) runReturned(inc int) *bool {
	if r.returned == nil {
		r.returned = map[int]*bool{}
	}
	if r.returned[inc] == nil {
		r.returned[inc] = new(bool)
	}
	return r.returned[inc]
}

// RunReturned: the incarnation's Run() has returned (orderly stop).
func (r *Run) RunReturned(inc int) bool { return *r.runReturned(inc) }

// KillAgent is kill -9 of the current incarnation.
func (r *Run) KillAgent() {
	r.Sim.Kill(r.Inc)
	r.Op("agent killed inc=%d", r.Inc)
	r.Fault("agent-kill")
}

// AgentAlive: the incarnation has not panicked / exited / been killed.
// AimAtTimer advances the clock so that a datagram sent now reaches the agent
// at the instant the agent's next timer falls due (when that is within max), so
// that the timer's task and the socket reader run concurrently. Returns whether
// it aimed. A legal schedule: the peer merely picks its sending time.
func (r *Run) AimAtTimer(max time.Duration) bool {
	if !r.AgentAlive() {
		return false
	}
	lat := int64(r.W.Net.ToAgent.LatMin)
	var due []int64
	for _, at := range r.Sim.TimersDue(r.Inc, int64(max)) {
		if at-lat > r.Sim.NowNS() {
			due = append(due, at)
		}
	}
	if len(due) == 0 {
		return false
	}
	if len(due) > 4 {
		due = due[:4]
	}
	at := due[r.Ch.Choose(len(due), "aim-which")]
	r.Sim.RunUntil(nil, at-lat)
	r.Sim.Logf("aim: next datagram reaches the agent when its timer fires at %d", at)
	r.Probe("aimed-at-timer")
	return true
}

func (r *Run) AgentAlive() bool { return r.Inc != 0 && !r.Sim.IncDead(r.Inc) }

// StopAgent calls Stop() from a fresh task of the incarnation (as the signal
// handler goroutine would) and returns the task.
func (r *Run) StopAgentAsync() (done *bool) {
	a := r.Agent
	flag := new(bool)
	r.Sim.Spawn(r.Inc, "stop", func() {
		a.Stop()
		markDone(flag)
	})
	return flag
}

//go:norace
func markDone(b *bool) { vsim.Call(func() { *b = true }) }

// ---------------------------------------------------------------- panic attribution

// PanicSig gives a seed-independent signature for a recorded panic.
func PanicSig(p vsim.PanicRec) string {
	kind := "panic"
	if p.Fatal {
		kind = "fatal-exit"
	}
	v := p.Value
	// strip addresses and numbers that vary
	v = stripVar(v)
	return fmt.Sprintf("%s:%s:%s", kind, vsim.RepoFrame(p.Stack), v)
}

func stripVar(v string) string {
	if i := strings.IndexByte(v, '\n'); i >= 0 {
		v = v[:i]
	}
	var sb strings.Builder
	for i := 0; i < len(v); i++ {
		c := v[i]
		if c >= '0' && c <= '9' {
			if sb.Len() == 0 || sb.String()[sb.Len()-1] != '#' {
				sb.WriteByte('#')
			}
			continue
		}
		sb.WriteByte(c)
	}
	s := sb.String()
	if len(s) > 90 {
		s = s[:90]
	}
	return s
}

// CheckNoPanics turns every recorded agent panic/Fatal into a violation of prop.
func (r *Run) CheckNoPanics(prop string) {
	for _, ra := range r.Sim.Runaways {
		r.Violate(prop, "panic:runaway-task:"+ra.Site, "agent task %q (inc %d) executed more than %d statements without reaching a synchronisation point, sleep or I/O operation: a loop that does not end (last statement at %s); the task was parked and the run went on", ra.Task, ra.Inc, vsim.RunawayStatements, ra.Site)
	}
	for _, p := range r.Sim.Panics {
		r.Violate(prop, PanicSig(p), "agent task %q (inc %d) died: %s\n%s", p.Task, p.Inc, p.Value, trimStack(p.Stack))
	}
}

func trimStack(s string) string {
	lines := strings.Split(s, "\n")
	var out []string
	for i := 0; i < len(lines) && len(out) < 16; i++ {
		if strings.Contains(lines[i], "upf-epc/pfcpiface") || strings.Contains(lines[i], "go-pfcp") {
			out = append(out, lines[i])
		}
	}
	return strings.Join(out, "\n")
}

// ---------------------------------------------------------------- misc

func ip4(s string) net.IP { return net.ParseIP(s).To4() }

func ipU32(ip net.IP) uint32 {
	ip = ip.To4()
	if ip == nil {
		return 0
	}
	return uint32(ip[0])<<24 | uint32(ip[1])<<16 | uint32(ip[2])<<8 | uint32(ip[3])
}

func u32IP(v uint32) net.IP { return net.IPv4(byte(v>>24), byte(v>>16), byte(v>>8), byte(v)).To4() }

func sortedKeys[V any](m map[string]V) []string {
	k := make([]string, 0, len(m))
	for x := range m {
		k = append(k, x)
	}
	sort.Strings(k)
	return k
}

func msgName(m message.Message) string {
	if m == nil {
		return "<nil>"
	}
	return m.MessageTypeName()
}

func (r *Run) until(d time.Duration) int64 { return r.Sim.NowNS() + int64(d) }

// FaultCtx names the first request of the run that an injected datapath fault
// hit ("no-fault" when none did): a signature component, so that a defect
// that needs no fault is never hidden behind a finding that needs one.
func (r *Run) FaultCtx() string {
	if r.faultCtx == "" {
		return "no-fault"
	}
	return r.faultCtx
}

func (r *Run) SetFaultCtx(c string) {
	if r.faultCtx == "" {
		r.faultCtx = c
	}
}
