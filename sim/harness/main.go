package harness

import (
	"fmt"
	"time"

	"github.com/omec-project/upf-epc/zzverif/vsim"
	"github.com/wmnsk/go-pfcp/ie"
)

func Main(args []string) int {
	if len(args) == 0 {
		fmt.Println("usage: upfsim check|worker|replay|shrink|smoke ...")
		return 2
	}
	ensureRaceLog()
	switch args[0] {
	case "smoke":
		return smoke()
	case "smoke4":
		return smoke4()
	case "check":
		return cmdCheck(args[1:])
	case "worker":
		return cmdWorker(args[1:])
	case "replay":
		return cmdReplay(args[1:])
	case "shrink":
		return cmdShrink(args[1:])
	}
	fmt.Println("usage: upfsim check|worker|replay|shrink|smoke ...")
	return 2
}

func smoke() int {
	t0 := time.Now()
	ch := vsim.NewChoices(1)
	r := NewRun("SMOKE", 1, "quick", ch)
	defer r.Close()
	r.Sim.KeepLog = true
	r.Conf = DefaultBESSConf()
	r.Conf.EnableHBTimer = true
	p := r.AddPeer()
	r.StartAgent()
	fmt.Println("agent alive:", r.AgentAlive(), "bess cmds:", len(r.W.Bess.Cmds))
	as := p.Associate()
	fmt.Println("assoc:", as != nil, p.Associated)
	hb := p.Heartbeat()
	fmt.Println("hb:", hb != nil)
	sess := &CPSession{CPSEID: p.NewCPSEID(),
		PDRs: []*PDRSpec{
			{ID: 1, Precedence: 100, SrcIface: IfAccess, HasFTEID: true, TEIDChoose: true, HasUEIP: true, UEIP: ip4("10.60.0.9"), OHR: true, FARID: 1, QERIDs: []uint32{1}},
			{ID: 2, Precedence: 100, SrcIface: IfCore, HasUEIP: true, UEIP: ip4("10.60.0.9"), FARID: 2, QERIDs: []uint32{1}},
		},
		FARs: []*FARSpec{
			{ID: 1, Action: ActFORW, DstIface: IfCore, HasFwd: true},
			{ID: 2, Action: ActFORW, DstIface: IfAccess, HasFwd: true, HasOHC: true, TEID: 0x1234, PeerIP: ip4("198.18.0.77")},
		},
		QERs: []*QERSpec{{ID: 1, QFI: 9, HasMBR: true, MBRUL: 1000, MBRDL: 2000}},
	}
	res := p.Establish(sess)
	fmt.Println("est:", res.Accepted, res.Cause == ie.CauseRequestAccepted, "upseid", sess.UPSEID, "teid", sess.PDRs[0].GotTEID)
	fmt.Println("PDR entries:", len(r.W.Bess.PDR), "FAR:", len(r.W.Bess.FAR), "appQ:", len(r.W.Bess.Qos["appQERLookup"]))
	r.Sim.RunFor(20 * time.Second)
	fmt.Println("hb requests from agent:", countType(p, 1))
	r.CheckNoPanics("SMOKE")
	for _, v := range r.Violations {
		fmt.Println("VIOLATION", v.Sig, v.Msg)
	}
	fmt.Printf("steps=%d sync=%d switches=%d virt=%.3fs wall=%v loghash=%x tasks=%d\n", r.Sim.Steps, r.Sim.SyncSteps, r.Sim.Switches,
		float64(r.Sim.NowNS())/1e9, time.Since(t0), r.Sim.LogHash(), r.Sim.TaskCount())
	if len(r.Sim.LogLines) < 400 {
		for _, l := range r.Sim.LogLines {
			fmt.Println("  ", l)
		}
	}
	return 0
}

func countType(p *Peer, typ uint8) int {
	n := 0
	for _, m := range p.Rx {
		if m.Err == nil && m.Msg.MessageType() == typ {
			n++
		}
	}
	return n
}

func smoke4() int {
	ch := vsim.NewChoices(1)
	r := NewRun("SMOKE", 1, "quick", ch)
	defer r.Close()
	r.Sim.KeepLog = true
	r.Conf = DefaultUP4Conf()
	p := r.AddPeer()
	r.StartAgent()
	r.Sim.RunFor(2 * time.Second)
	fmt.Println("agent alive:", r.AgentAlive(), "writes:", r.W.P4.Writes, "invalid:", r.W.P4.Invalid)
	as := p.Associate()
	fmt.Println("assoc:", as != nil, p.Associated)
	g := NewGen(r)
	g.PlainQER = true
	sess := g.Session(p, SessShape{NQER: 2, TEIDChoose: true})
	res := p.Establish(sess)
	fmt.Println("est:", res.Accepted, res.Cause)
	for _, t := range r.W.P4.Info.Tables {
		if n := len(r.W.P4.Tables[t.Preamble.Id]); n > 0 {
			fmt.Println(" table", t.Preamble.Name, n)
			for _, e := range r.W.P4.SortedEntries(t.Preamble.Name) {
				fmt.Println("    ", e)
			}
		}
	}
	fmt.Println("meters:", r.W.P4.Meters, "invalid:", r.W.P4.Invalid)
	dr := p.Delete(sess)
	fmt.Println("del:", dr.Accepted)
	for _, t := range r.W.P4.Info.Tables {
		if n := len(r.W.P4.Tables[t.Preamble.Id]); n > 0 {
			fmt.Println(" table", t.Preamble.Name, n)
		}
	}
	fmt.Println("meters:", r.W.P4.Meters)
	r.CheckNoPanics("SMOKE")
	for _, v := range r.Violations {
		fmt.Println("VIOLATION", v.Sig, v.Msg)
	}
	for _, l := range r.Sim.LogLines {
		if len(l) > 0 && (len(l) < 160) {
			fmt.Println("  ", l)
		}
	}
	return 0
}
