package harness

import (
	"fmt"
	"strings"

	"github.com/omec-project/upf-epc/zzverif/vsim"
	"github.com/wmnsk/go-pfcp/message"
	"google.golang.org/grpc/codes"
	"net"
	"time"

	"github.com/wmnsk/go-pfcp/ie"

	"github.com/google/gopacket"
	"github.com/google/gopacket/layers"
)

func init() {
	Register(&PropDef{
		ID: "C14", QuickRuns: 4800, Level: "exploration",
		Rule:   "one run = 1-3 sessions on the BESS datapath (end markers enabled or disabled) and 4-20 Session Modifications that update FARs: tunnel changes to another gNB / TEID, send-end-marker flag on or off, unknown FAR ids, two FARs in one message, updates of FARs that had no tunnel before, creations. Oracle at the end-marker unix socket: packets decoded in the harness (Ethernet/IPv4/UDP/GTPv1-U): exactly one End Marker per flagged FAR whose update was accepted, addressed to the tunnel the FAR had before the update (peer address, TEID), UDP ports 2152, source = N3 address, and written after the simulated BESS acknowledged the new FAR; none otherwise. One run in four plays hand-overs on the P4Runtime datapath, where end markers leave as PacketOut messages on the stream channel, also after the switch restarted its P4Runtime server (streams break, the channel reads IDLE, the agent sets up a new channel with the next request): exactly one well-formed marker to the old tunnel must reach a live stream. Non-trivial = at least one end marker expected and >20 task switches; distinct = different sequence of (update kind, flag, expected markers). Also: two associations handing over at the same instant; on UP4 single updates of a hand-over refused by the switch.",
		Assume: []string{"the order between the end-marker write and the FAR command is judged by a global stamp taken when the simulated daemon applies the command and when the socket write happens"},
		Real:   CommonReal, Simulated: CommonSim,
		Scenario: scenarioC14,
	})
}

type emExpect struct {
	peer    net.IP
	teid    uint32
	farKey  string
	afterSt uint64
}

func decodeEndMarker(b []byte) (src, dst net.IP, sport, dport uint16, teid uint32, msgType uint8, ok bool) {
	pkt := gopacket.NewPacket(b, layers.LayerTypeEthernet, gopacket.Default)
	ip4l, _ := pkt.Layer(layers.LayerTypeIPv4).(*layers.IPv4)
	udp, _ := pkt.Layer(layers.LayerTypeUDP).(*layers.UDP)
	gtp, _ := pkt.Layer(layers.LayerTypeGTPv1U).(*layers.GTPv1U)
	if ip4l == nil || udp == nil || gtp == nil {
		return
	}
	return ip4l.SrcIP.To4(), ip4l.DstIP.To4(), uint16(udp.SrcPort), uint16(udp.DstPort), gtp.TEID, gtp.MessageType, true
}

// scenarioC14Stall: the datapath's end of the end-marker socket stops reading for a
// while (its queue is full: the agent's writes block, as a unix datagram sender's
// do) while more hand-overs with end markers arrive than the agent can queue; when
// the socket drains again every hand-over that was accepted must have produced its
// one marker, to its own old tunnel - none may have been dropped on the way.
func scenarioC14Stall(r *Run) {
	r.Conf = DefaultBESSConf()
	r.Conf.EnableEndMarker = true
	r.Conf.EnableHBTimer = false
	r.Conf.ReadTimeout = 100000
	r.Sim.Strat = vsim.StratRunToBlock
	r.Sim.MaxSteps = 60_000_000
	p := r.AddPeer()
	r.StartAgent()
	if !r.AgentAlive() || p.Associate() == nil {
		r.CheckNoPanics("C14")
		return
	}
	g := NewGen(r)
	g.PlainQER = true
	s := g.Session(p, SessShape{})
	// (the downlink FAR has a tunnel from the start: every hand-over has an old tunnel)
	g.nextTEID++
	*s.FAR(2) = FARSpec{ID: 2, Action: ActFORW, DstIface: IfAccess, HasFwd: true, HasOHC: true, TEID: g.nextTEID, PeerIP: g.gnbs[0]}
	if !p.Establish(s).Accepted {
		return
	}
	r.Accepted++
	sink := "/tmp/pfcpport"
	n := 1030 + r.Ch.Choose(30, "stall-handovers")
	stallAt := r.Ch.Choose(3, "stall-at")
	r.Skel("stalled-end-marker-socket")
	type want struct {
		teid uint32
		peer net.IP
	}
	var wants []want
	released := false
	release := func() {
		if !released {
			released = true
			r.W.Net.UnixStallUntil[sink] = 0
			r.Sim.After(0, func() {})
			r.Op("the end-marker socket drains again")
		}
	}
	for k := 0; k < n && r.AgentAlive(); k++ {
		if k == stallAt {
			r.W.Net.StallUnix(r.W, sink, 24*time.Hour)
			r.Fault("end-marker-socket-stalled")
			r.Op("the end-marker socket stops draining at hand-over %d", k)
		}
		old := *s.FAR(2)
		g.nextTEID++
		f := &FARSpec{ID: 2, Action: ActFORW, DstIface: IfAccess, HasFwd: true, HasOHC: true, TEID: g.nextTEID, PeerIP: g.gnbs[k%len(g.gnbs)], EndMarker: true}
		m := p.ModifyMsg(s.UPSEID, &ModSpec{Tag: "uF:handover", UpdateFAR: []*FARSpec{f}})
		p.SendMsg(m)
		// the answer comes at once while the agent can queue the marker; once its
		// queue is full the handler waits for room: after a good second of that the
		// socket drains again
		var rx *RxMsg
		got := r.Sim.RunUntil(func() bool {
			rx = p.FindResponse(message.MsgTypeSessionModificationResponse, m.Sequence())
			return rx != nil
		}, r.until(1300*time.Millisecond))
		if !got {
			r.Probe("handler-waited-for-room-in-the-end-marker-queue")
			release()
			r.Sim.RunUntil(func() bool {
				rx = p.FindResponse(message.MsgTypeSessionModificationResponse, m.Sequence())
				return rx != nil
			}, r.until(8*time.Second))
		}
		if rx == nil {
			if r.AgentAlive() {
				r.Violate("C14", "hand-over-unanswered:stalled-socket", "hand-over %d of %d got no answer although the end-marker socket drains again\n%s", k, n, strings.Join(r.Sim.BlockedTable(), "\n"))
			}
			return
		}
		rx.Used = true
		if c, _ := CauseOf(rx.Msg); c == ie.CauseRequestAccepted {
			r.Accepted++
			if old.HasOHC {
				wants = append(wants, want{old.TEID, old.PeerIP})
			}
			s.ApplyMod(&ModSpec{UpdateFAR: []*FARSpec{f}})
		}
	}
	release()
	r.Sim.RunFor(2 * time.Second)
	r.CheckNoPanics("C14")
	if !r.AgentAlive() {
		return
	}
	pkts := r.W.Net.UnixSink[sink]
	r.Op("%d hand-overs accepted with an old tunnel, %d end markers written (socket stalled from hand-over %d until the agent's queue was full for more than a second)", len(wants), len(pkts), stallAt)
	gotT := map[uint32]int{}
	for _, pk := range pkts {
		_, dst, _, _, teid, mt, ok := decodeEndMarker(pk.Data)
		if !ok || mt != 254 {
			r.Violate("C14", "malformed-marker:stalled-socket", "a packet on the end-marker socket does not decode as a GTP-U End Marker")
			return
		}
		_ = dst
		gotT[teid]++
	}
	for _, w := range wants {
		if gotT[w.teid] != 1 {
			r.Violate("C14", fmt.Sprintf("marker-count:stalled-socket:want=1:got=%d", min(gotT[w.teid], 2)), "the hand-over away from TEID %d towards %v was accepted; %d end markers to that tunnel were written (%d hand-overs, %d markers in all; the end-marker socket had stalled for a while)", w.teid, w.peer, gotT[w.teid], len(wants), len(pkts))
			return
		}
	}
	if len(pkts) != len(wants) {
		r.Violate("C14", "marker-count:stalled-socket:extra", "%d end markers written for %d accepted hand-overs", len(pkts), len(wants))
	}
}

func scenarioC14(r *Run) {
	if r.Ch.Choose(60, "stalled-socket-history") == 1 {
		scenarioC14Stall(r)
		return
	}
	if r.Ch.Choose(4, "datapath") == 1 {
		scenarioC14UP4(r)
		return
	}
	r.Conf = DefaultBESSConf()
	enabled := r.Ch.Choose(4, "em-enabled") != 1
	r.Conf.EnableEndMarker = enabled
	r.DrawStrategy()
	r.W.Bess.Faults.LatJit = []time.Duration{0, 100 * time.Microsecond, 400 * time.Microsecond}[r.Ch.Choose(3, "jit")]
	p := r.AddPeer()
	r.StartAgent()
	if !r.AgentAlive() || p.Associate() == nil {
		r.CheckNoPanics("C14")
		return
	}
	g := NewGen(r)
	g.PlainQER = true
	var sessions []*CPSession
	for i := 0; i < 1+r.Ch.Choose(3, "nsess"); i++ {
		s := g.Session(p, SessShape{NQER: r.Ch.Choose(2, "nq")})
		if r.Ch.Choose(4, "idle") == 1 {
			*s.FAR(2) = FARSpec{ID: 2, Action: ActBUFF | ActNOCP, DstIface: IfAccess, HasFwd: true}
		}
		// a second downlink FAR so that one message can update several
		g.nextTEID++
		s.FARs = append(s.FARs, &FARSpec{ID: 3, Action: ActFORW, DstIface: IfAccess, HasFwd: true, HasOHC: true, TEID: g.nextTEID, PeerIP: g.gnbs[1]})
		if res := p.Establish(s); res.Accepted {
			sessions = append(sessions, s)
			r.Accepted++
		}
	}
	if len(sessions) == 0 {
		return
	}
	sink := "/tmp/pfcpport"
	checked := 0
	for k := 0; k < 4+r.Ch.Choose(17, "nmods") && r.AgentAlive() && len(r.Violations) == 0; k++ {
		s := sessions[r.Ch.Choose(len(sessions), "sess")]
		m := &ModSpec{Tag: "uF"}
		var exp []emExpect
		nf := 1 + r.Ch.Choose(2, "nfars")
		used := map[uint32]bool{}
		for i := 0; i < nf; i++ {
			id := []uint32{2, 3, 9}[r.Ch.Choose(3, "farid")] // 9 is unknown
			if used[id] {
				continue
			}
			used[id] = true
			old := s.FAR(id)
			g.nextTEID++
			nf := &FARSpec{ID: id, Action: ActFORW, DstIface: IfAccess, HasFwd: true, HasOHC: true, TEID: g.nextTEID, PeerIP: g.gnbs[r.Ch.Choose(len(g.gnbs), "gnb")]}
			nf.EndMarker = r.Ch.Choose(3, "sndem") != 1
			if old != nil && old.HasOHC && r.Ch.Choose(6, "same-teid-at-the-target") == 1 {
				// the target gNB happens to choose the TEID value the source gNB used (each
				// end allocates its own): another tunnel all the same
				for _, cand := range g.gnbs {
					if !cand.Equal(old.PeerIP) {
						nf.PeerIP, nf.TEID = cand, old.TEID
						r.Probe("hand-over-to-a-gnb-that-chose-the-same-teid")
						break
					}
				}
			}
			if r.Ch.Choose(6, "tobuf") == 1 {
				nf = &FARSpec{ID: id, Action: ActBUFF | ActNOCP, DstIface: IfAccess, HasFwd: true, EndMarker: nf.EndMarker}
			}
			m.UpdateFAR = append(m.UpdateFAR, nf)
			r.Skel(fmt.Sprintf("uF id=%d known=%v flag=%v oldtunnel=%v", id, old != nil, nf.EndMarker, old != nil && old.HasOHC))
			if old != nil && nf.EndMarker && enabled {
				if old.HasOHC {
					exp = append(exp, emExpect{peer: old.PeerIP, teid: old.TEID, farKey: fmt.Sprintf("%d,%d", id, s.UPSEID)})
				} else {
					// the rule had no tunnel before the update: there is no old tunnel to
					// address; not judged (outside what the property states)
					exp = append(exp, emExpect{peer: nil})
				}
			}
		}
		if r.Ch.Choose(5, "also-create") == 1 {
			m.CreateFAR = append(m.CreateFAR, &FARSpec{ID: uint32(20 + k), Action: ActFORW, DstIface: IfAccess, HasFwd: true, HasOHC: true, TEID: 999, PeerIP: g.gnbs[0]})
		}
		before := len(r.W.Net.UnixSink[sink])
		cmdBefore := len(r.W.Bess.Cmds)
		// unknown FAR ids are skipped by the agent, the rest of the message is applied
		var known []*FARSpec
		for _, f := range m.UpdateFAR {
			if s.FAR(f.ID) != nil {
				known = append(known, f)
			}
		}
		rejectLater := r.Ch.Choose(5, "reject-later") == 1
		var extra []*ie.IE
		if rejectLater {
			// an Update QER without QER ID: the request is rejected after the FARs
			// were parsed and before anything is written to the datapath
			extra = []*ie.IE{ie.NewUpdateQER(ie.NewQFI(5))}
			r.Skel("rejected-after-far-loop")
			r.Fault("modification-rejected-after-far-update")
		}
		res := p.Modify(s, &ModSpec{UpdateFAR: m.UpdateFAR, CreateFAR: m.CreateFAR, Extra: extra, Tag: m.Tag})
		r.Op("modify cp=%d %s -> accepted=%v", s.CPSEID, m.Describe(), res.Accepted)
		if res.Accepted {
			r.Accepted++
			// ApplyMod replaced known FARs; unknown ids are ignored by ApplyMod already
		}
		_ = known
		r.Sim.RunFor(20 * time.Millisecond)
		pkts := r.W.Net.UnixSink[sink][before:]
		if !res.Accepted {
			if len(pkts) > 0 {
				r.Violate("C14", "marker-for-failed-update", "the modification was rejected but %d end marker(s) were emitted", len(pkts))
			}
			continue
		}
		judged := true
		want := 0
		for _, e := range exp {
			if e.peer == nil {
				judged = false
			} else {
				want++
			}
		}
		if !judged {
			continue
		}
		checked++
		if len(pkts) != want {
			r.Violate("C14", fmt.Sprintf("marker-count:want=%d:got=%d", min(want, 2), min(len(pkts), 3)), "modification %s: %d end marker(s) expected (flagged FARs with an old tunnel, end markers enabled=%v), %d emitted", m.Describe(), want, len(pkts), enabled)
			continue
		}
		matched := map[int]bool{}
		for _, pk := range pkts {
			src, dst, sp, dp, teid, mt, ok := decodeEndMarker(pk.Data)
			if !ok {
				r.Violate("C14", "undecodable-marker", "end marker packet does not decode as Ethernet/IPv4/UDP/GTPv1-U")
				break
			}
			if mt != 254 {
				r.Violate("C14", "wrong-gtp-message-type", "GTP-U message type %d, End Marker is 254", mt)
			}
			if sp != 2152 || dp != 2152 {
				r.Violate("C14", "wrong-udp-port", "end marker UDP ports %d -> %d, must be 2152", sp, dp)
			}
			if !src.Equal(ip4(N3Addr)) {
				r.Violate("C14", "wrong-source-address", "end marker sourced from %v, the N3 address is %s", src, N3Addr)
			}
			found := false
			for i, e := range exp {
				if !matched[i] && e.peer.Equal(dst) && e.teid == teid {
					matched[i] = true
					found = true
					// emitted after the new rule was programmed
					var farStamp uint64
					for _, c := range r.W.Bess.Cmds[cmdBefore:] {
						if c.Module == "farLookup" && c.Cmd == "add" && c.Key == e.farKey {
							farStamp = c.Stamp
						}
					}
					if farStamp == 0 || pk.Seq < farStamp {
						r.Violate("C14", "marker-before-new-rule", "end marker for FAR %s written (stamp %d) before the datapath applied the updated FAR (stamp %d)", e.farKey, pk.Seq, farStamp)
					}
				}
			}
			if !found {
				r.Violate("C14", "marker-to-wrong-tunnel", "end marker addressed to %v TEID %d; the updated FARs' old tunnels were %v", dst, teid, exp)
			}
		}
	}
	// two associations hand over at the same instant (datapath calls of different
	// length, one of them slow): each flagged FAR gets exactly one marker, to its own
	// old tunnel, whatever the other association's handler does meanwhile
	if enabled && len(r.Violations) == 0 && r.AgentAlive() && r.Ch.Choose(3, "two-associations") == 1 {
		q := r.AddPeer()
		if q.Associate() == nil {
			r.CheckNoPanics("C14")
			return
		}
		sq := g.Session(q, SessShape{NQER: r.Ch.Choose(2, "nq-b")})
		g.nextTEID++
		*sq.FAR(2) = FARSpec{ID: 2, Action: ActFORW, DstIface: IfAccess, HasFwd: true, HasOHC: true, TEID: g.nextTEID, PeerIP: g.gnbs[2]}
		if res := q.Establish(sq); !res.Accepted {
			r.CheckNoPanics("C14")
			return
		}
		sa := sessions[0]
		oldA, oldB := *sa.FAR(3), *sq.FAR(2)
		if !oldA.HasOHC {
			r.CheckNoPanics("C14")
			return
		}
		g.nextTEID += 2
		nfA := &FARSpec{ID: 3, Action: ActFORW, DstIface: IfAccess, HasFwd: true, HasOHC: true, TEID: g.nextTEID - 1, PeerIP: g.gnbs[0], EndMarker: true}
		nfB := &FARSpec{ID: 2, Action: ActFORW, DstIface: IfAccess, HasFwd: true, HasOHC: true, TEID: g.nextTEID, PeerIP: g.gnbs[1], EndMarker: true}
		modA, modB := &ModSpec{Tag: "uF", UpdateFAR: []*FARSpec{nfA}}, &ModSpec{Tag: "uF", UpdateFAR: []*FARSpec{nfB}}
		mA, mB := p.ModifyMsg(sa.UPSEID, modA), q.ModifyMsg(sq.UPSEID, modB)
		r.W.Bess.Faults.LatJit = 2 * time.Millisecond
		r.W.Bess.Faults.SlowNth = r.W.Bess.Calls + 1 + r.Ch.Choose(3, "slow-which")
		r.W.Bess.Faults.SlowBy = time.Duration(3+r.Ch.Choose(20, "slow-ms")) * time.Millisecond
		before := len(r.W.Net.UnixSink[sink])
		p.SendMsg(mA)
		if off := time.Duration(r.Ch.Choose(300, "b-off-us")) * time.Microsecond; off > 0 {
			r.Sim.RunFor(off)
		}
		q.SendMsg(mB)
		r.Sim.RunUntil(func() bool {
			return p.FindResponse(message.MsgTypeSessionModificationResponse, mA.Sequence()) != nil && q.FindResponse(message.MsgTypeSessionModificationResponse, mB.Sequence()) != nil
		}, r.Sim.NowNS()+int64(5*time.Second))
		r.W.Bess.Faults.SlowNth = 0
		r.Sim.RunFor(50 * time.Millisecond)
		ra, rb := p.FindResponse(message.MsgTypeSessionModificationResponse, mA.Sequence()), q.FindResponse(message.MsgTypeSessionModificationResponse, mB.Sequence())
		accepted := func(x *RxMsg) bool {
			if x == nil {
				return false
			}
			x.Used = true
			c, _ := CauseOf(x.Msg)
			return c == ie.CauseRequestAccepted
		}
		if accepted(ra) && accepted(rb) {
			sa.ApplyMod(modA)
			sq.ApplyMod(modB)
			r.Accepted += 2
			r.Skel("two-associations-hand-over")
			r.Probe("hand-overs-of-two-associations-at-one-instant")
			pkts := r.W.Net.UnixSink[sink][before:]
			r.Op("two associations hand over at the same instant: %d end marker(s)", len(pkts))
			gotA, gotB, other := 0, 0, 0
			for _, pk := range pkts {
				_, dst, _, _, teid, _, ok := decodeEndMarker(pk.Data)
				switch {
				case ok && dst.Equal(oldA.PeerIP) && teid == oldA.TEID:
					gotA++
				case ok && dst.Equal(oldB.PeerIP) && teid == oldB.TEID:
					gotB++
				default:
					other++
				}
			}
			if gotA != 1 || gotB != 1 || other != 0 {
				r.Violate("C14", "marker-count:two-associations", "two associations updated one flagged FAR each at the same instant: %d marker(s) to the first one's old tunnel (%v TEID %d), %d to the second one's (%v TEID %d), %d elsewhere; exactly one each is due", gotA, oldA.PeerIP, oldA.TEID, gotB, oldB.PeerIP, oldB.TEID, other)
			}
		}
	}
	if checked > 0 {
		r.Probe("modifications-judged")
	}
	r.CheckNoPanics("C14")
}

// scenarioC14UP4: end markers on the P4Runtime datapath leave as PacketOut
// messages on the stream channel. Hand-overs with and without the flag, also
// after the switch (or the connection to it) was restarted and the agent has
// set up a new channel: exactly one marker per flagged FAR, to the old tunnel,
// on a stream that is alive.
func scenarioC14UP4(r *Run) {
	r.DrawUP4Conf()
	enabled := r.Ch.Choose(4, "em-enabled") != 1
	r.Conf.EnableEndMarker = enabled
	r.DrawStrategy()
	sw := r.W.P4
	p := r.AddPeer()
	r.StartAgent()
	if !r.WaitUP4Ready() || p.AssociateRetry() == nil {
		r.CheckNoPanics("C14")
		return
	}
	g := NewGen(r)
	g.PlainQER = true
	g.UP4 = true
	var sessions []*CPSession
	for i := 0; i < 1+r.Ch.Choose(2, "nsess"); i++ {
		s := g.Session(p, SessShape{NQER: r.Ch.Choose(2, "nq"), TEIDChoose: r.Ch.Choose(2, "choose") == 1})
		*s.FAR(2) = FARSpec{ID: 2, Action: ActFORW, DstIface: IfAccess, HasFwd: true, HasOHC: true, TEID: s.FAR(2).TEID | 0x100, PeerIP: g.gnbs[r.Ch.Choose(len(g.gnbs), "gnb0")]}
		if res := p.Establish(s); res.Accepted {
			sessions = append(sessions, s)
			r.Accepted++
		}
	}
	if len(sessions) == 0 {
		return
	}
	r.Skel(fmt.Sprintf("up4 em=%v", enabled))
	restarts := 0
	checked := 0
	for k := 0; k < 3+r.Ch.Choose(8, "nmods") && r.AgentAlive() && len(r.Violations) == 0; k++ {
		if restarts < 2 && r.Ch.Choose(4, "switch-restart") == 1 {
			restarts++
			sw.Restart(true) // streams break, tables survive
			r.Fault("p4-stream-broken-by-switch-restart")
			r.Skel("switch-restart")
			r.Op("the switch restarts its P4Runtime server (tables kept): the stream channel breaks")
			r.Sim.RunFor(time.Duration(10+r.Ch.Choose(3000, "after-restart-ms")) * time.Millisecond)
		}
		s := sessions[r.Ch.Choose(len(sessions), "sess")]
		old := s.FAR(2)
		g.nextTEID++
		nf := &FARSpec{ID: 2, Action: ActFORW, DstIface: IfAccess, HasFwd: true, HasOHC: true, TEID: g.nextTEID, PeerIP: g.gnbs[r.Ch.Choose(len(g.gnbs), "gnb")]}
		nf.EndMarker = r.Ch.Choose(3, "sndem") != 1
		before := len(sw.PacketOuts)
		// one hand-over in five: one update inside one Write of the modification is
		// refused by the switch (per-update status; the other updates of the batch are
		// applied): a failed update emits no marker
		armed := r.Ch.Choose(5, "update-fails") == 1
		f0 := sw.Fired["p4-write-fail-update"]
		if armed {
			sw.FailKind = "update"
			sw.FailCode = []codes.Code{codes.NotFound, codes.Internal, codes.InvalidArgument}[r.Ch.Choose(3, "update-fail-code")]
			sw.Faults.FailNth = sw.Writes + 1 + r.Ch.Choose(3, "update-fail-write")
		}
		res := p.Modify(s, &ModSpec{Tag: "uF:handover", UpdateFAR: []*FARSpec{nf}})
		if armed {
			sw.Faults.FailNth = 0
			if sw.Fired["p4-write-fail-update"] > f0 {
				r.Fault("p4-update-refused-in-hand-over")
				r.Sim.RunFor(20 * time.Millisecond)
				r.Op("hand-over of cp=%d with one update refused by the switch (%v) -> accepted=%v, %d PacketOut", s.CPSEID, sw.FailCode, res.Accepted, len(sw.PacketOuts)-before)
				r.Skel(fmt.Sprintf("ho-update-refused acc=%v", res.Accepted))
				if n := len(sw.PacketOuts) - before; n > 0 {
					r.Violate("C14", "marker-for-failed-update:up4", "an update of the hand-over was refused by the switch (%v; modification answered accepted=%v) but %d end marker(s) left as PacketOut", sw.FailCode, res.Accepted, n)
				}
				// what the switch holds for this session is no longer known: it is left alone
				var rest []*CPSession
				for _, x := range sessions {
					if x != s {
						rest = append(rest, x)
					}
				}
				sessions = rest
				if len(sessions) == 0 {
					break
				}
				continue
			}
		}
		r.Op("hand-over of cp=%d: FAR 2 %v/%d -> %v/%d flag=%v -> accepted=%v", s.CPSEID, old.PeerIP, old.TEID, nf.PeerIP, nf.TEID, nf.EndMarker, res.Accepted)
		r.Skel(fmt.Sprintf("ho flag=%v acc=%v", nf.EndMarker, res.Accepted))
		r.Sim.RunFor(20 * time.Millisecond)
		pkts := sw.PacketOuts[before:]
		if !res.Accepted {
			if len(pkts) > 0 {
				r.Violate("C14", "marker-for-failed-update:up4", "the modification was rejected but %d end marker(s) left as PacketOut", len(pkts))
			}
			continue
		}
		r.Accepted++
		want := 0
		if nf.EndMarker && enabled && old.HasOHC {
			want = 1
		}
		checked++
		if len(pkts) != want {
			r.Violate("C14", fmt.Sprintf("marker-count:up4:want=%d:got=%d:after-restart=%v", want, min(len(pkts), 3), restarts > 0), "hand-over of cp=%d (flag=%v, end markers enabled=%v, %d switch restart(s) before): %d end marker(s) expected, %d PacketOut message(s) reached a live stream", s.CPSEID, nf.EndMarker, enabled, restarts, want, len(pkts))
			continue
		}
		for _, pk := range pkts {
			src, dst, sp, dp, teid, mt, ok := decodeEndMarker(pk.Data)
			if !ok {
				r.Violate("C14", "undecodable-marker:up4", "PacketOut payload does not decode as Ethernet/IPv4/UDP/GTPv1-U")
				break
			}
			if mt != 254 || sp != 2152 || dp != 2152 || !src.Equal(ip4(N3Addr)) {
				r.Violate("C14", "malformed-marker:up4", "end marker: GTP-U type %d, ports %d -> %d, source %v (N3 address %s)", mt, sp, dp, src, N3Addr)
			}
			if !dst.Equal(old.PeerIP) || teid != old.TEID {
				r.Violate("C14", "marker-to-wrong-tunnel:up4", "end marker addressed to %v TEID %d; the FAR's old tunnel was %v TEID %d", dst, teid, old.PeerIP, old.TEID)
			}
		}
	}
	if checked > 0 {
		r.Probe("up4-hand-overs-judged")
	}
	r.CheckNoPanics("C14")
}
