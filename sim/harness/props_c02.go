package harness

import (
	"fmt"
	"sort"
	"time"

	"github.com/omec-project/upf-epc/zzverif/vsim"

	"github.com/wmnsk/go-pfcp/ie"
	"github.com/wmnsk/go-pfcp/message"
)

func init() {
	Register(&PropDef{
		ID: "C02", QuickRuns: 3200, Level: "exploration",
		Rule:   "one run = 6-30 requests of all dispatched request types from 1-3 peers with drawn 24-bit sequence numbers (incl. 0 and 2^24-1) and CP SEIDs, mixing accepted and rejected requests (unknown session, no association, unknown Node ID), explicit duplicates of idempotent requests and response-type messages sent to the agent; once per run the agent may be killed (-9) and restarted, the peers re-associate and establish new sessions, and requests addressed with F-SEIDs of the killed incarnation's sessions must be refused as unknown; the oracle is evaluated on the decoded bytes at the peer socket: exactly one response of the matching type and sequence per delivered request, header SEID, Node ID / UP F-SEID / Created PDR content of establishment responses, addressing by UP F-SEID, CP F-SEID update on modification, rejection causes. Non-trivial = at least one accepted session operation and >20 task switches or pre-emption; distinct = different sequence of (request kind, outcome). Once per run a heartbeat outage (the heartbeats of the agent unanswered while the peer sends its own, late answers afterwards); PDI IEs in drawn order.",
		Assume: []string{"loss is not injected (it would make 'exactly one' unobservable); duplicates are sent explicitly and each delivered copy counts as a request", "a response is awaited for 8 virtual seconds after the agent is quiescent"},
		Real:   CommonReal, Simulated: CommonSim,
		Scenario: scenarioC02,
	})
}

type sentReq struct {
	peer  *Peer
	typ   uint8
	seq   uint32
	kind  string
	count int // copies delivered
}

func scenarioC02(r *Run) {
	r.Conf = DefaultBESSConf()
	r.Conf.EnableHBTimer = r.Ch.Choose(3, "hb") != 0
	r.Conf.ReadTimeout = 3600 // quiet connections stay: the read timeout is not this property's trigger
	// short heartbeat intervals: the heartbeat monitor sends while responses are being sent
	r.Conf.HeartBeatInterval = []string{"5s", "5s", "20ms", "8ms"}[r.Ch.Choose(4, "hbi")]
	r.DrawStrategy()
	if r.Conf.EnableHBTimer && r.Sim.MaxGap == 0 && r.Sim.Strat != vsim.StratPCT {
		r.Sim.MaxGap = []int{15, 60}[r.Ch.Choose(2, "gap2")]
		r.Sim.ArmPreempt()
	}
	np := 1 + r.Ch.Choose(3, "npeers")
	for i := 0; i < np; i++ {
		r.AddPeer()
	}
	r.StartAgent()
	if !r.AgentAlive() {
		r.CheckNoPanics("C02")
		return
	}
	g := NewGen(r)
	g.PlainQER = true
	g.DrawAvoid()
	g.PDIOrders = true
	var sent []*sentReq
	seqFor := func(p *Peer) uint32 {
		switch r.Ch.Choose(8, "seqkind") {
		case 1:
			return 0
		case 2:
			return 0xFFFFFF
		case 3:
			return uint32(r.Ch.Choose(1<<24, "seqv"))
		}
		return p.NextSeq()
	}
	aim := r.Conf.EnableHBTimer && r.Ch.Choose(2, "aim") == 1
	usedSeq := map[string]bool{}
	hasConn := map[*Peer]bool{}   // the agent holds a connected socket for this peer
	stale := map[*Peer][]uint64{} // UP F-SEIDs handed out by an incarnation of the agent that was killed since
	restarted := false
	outageDone := false
	// send performs one request, records it and returns the response.
	send := func(p *Peer, m message.Message, kind string, copies int) *RxMsg {
		key := fmt.Sprintf("%d/%d/%d", p.Idx, m.MessageType(), m.Sequence())
		if usedSeq[key] {
			return nil // the generator drew a (type, seq) it already used on this peer: skip
		}
		usedSeq[key] = true
		if !hasConn[p] {
			// first contact: a copy that reaches the listening socket before the
			// connected socket exists is dropped by design; duplicates are only
			// judged on an existing connection
			copies = 1
		}
		sr := &sentReq{peer: p, typ: m.MessageType(), seq: m.Sequence(), kind: kind, count: copies}
		sent = append(sent, sr)
		if aim && r.Ch.Choose(2, "aim1") == 1 {
			// arrive while the heartbeat monitor of some connection sends
			r.AimAtTimer(30 * time.Millisecond)
		}
		for i := 1; i < copies; i++ {
			p.SendMsg(m)
		}
		rx := p.Request(m, 8*time.Second)
		if copies > 1 {
			r.Sim.RunFor(50 * time.Millisecond) // let the answers to the other copies arrive
		}
		if rx != nil {
			hasConn[p] = m.MessageType() != message.MsgTypeAssociationReleaseRequest
		}
		if rx == nil && r.AgentAlive() {
			r.Violate("C02", "no-response:"+kind, "%s seq=%d from peer%d got no response of type %d within 8 s", kind, m.Sequence(), p.Idx, responseTypeOf(m.MessageType()))
		}
		return rx
	}
	setSeq := func(m message.Message, seq uint32) {
		switch x := m.(type) {
		case *message.HeartbeatRequest:
			x.SetSequenceNumber(seq)
		case *message.AssociationSetupRequest:
			x.SetSequenceNumber(seq)
		case *message.AssociationReleaseRequest:
			x.SetSequenceNumber(seq)
		case *message.PFDManagementRequest:
			x.SetSequenceNumber(seq)
		case *message.SessionEstablishmentRequest:
			x.SetSequenceNumber(seq)
		case *message.SessionModificationRequest:
			x.SetSequenceNumber(seq)
		case *message.SessionDeletionRequest:
			x.SetSequenceNumber(seq)
		}
	}
	n := 6 + r.Ch.Choose(25, "nreq")
	for k := 0; k < n && r.AgentAlive() && len(r.Violations) == 0; k++ {
		// once per run: the agent is killed (-9) and started again; the control
		// plane re-associates and goes on; F-SEIDs of the dead incarnation's
		// sessions then name nothing and must be refused as unknown
		if !restarted && len(r.LiveSessions()) > 0 && r.Ch.Choose(14, "agent-restart") == 1 {
			restarted = true
			for _, q := range r.Peers {
				for _, s := range q.Sessions {
					stale[q] = append(stale[q], s.UPSEID)
				}
				sort.Slice(stale[q], func(i, j int) bool { return stale[q][i] < stale[q][j] })
				q.Sessions = map[uint64]*CPSession{}
				q.Associated = false
				hasConn[q] = false
			}
			r.KillAgent()
			r.Sim.RunFor(time.Second)
			r.StartAgent()
			r.Skel("restart")
			if !r.AgentAlive() {
				break
			}
			for _, q := range r.Peers {
				if len(stale[q]) == 0 {
					continue
				}
				am := q.AssocSetupMsg()
				if rx := send(q, am, "AssociationSetupRequest", 1); rx == nil {
					continue
				} else if c, _ := CauseOf(rx.Msg); c != ie.CauseRequestAccepted {
					continue
				}
				q.Associated = true
				hasConn[q] = true
				for i := 0; i < 1+r.Ch.Choose(2, "after-restart-sessions"); i++ {
					ns := g.Session(q, SessShape{TEIDChoose: true})
					em := q.EstablishMsg(ns)
					if rx := send(q, em, "SessionEstablishmentRequest", 1); rx != nil {
						if resp, ok := rx.Msg.(*message.SessionEstablishmentResponse); ok {
							if c, _ := CauseOf(resp); c == ie.CauseRequestAccepted {
								q.Establish2(ns, resp)
								r.Accepted++
							}
						}
					}
				}
			}
		}
		p := r.Peers[r.Ch.Choose(len(r.Peers), "peer")]
		var sessions []*CPSession
		for _, s := range r.LiveSessions() {
			if s.Peer == p {
				sessions = append(sessions, s)
			}
		}
		// once per run (heartbeat monitor on): the peer sits on the agent's Heartbeat
		// Requests until the agent has given up, sends heartbeats of its own meanwhile,
		// and answers the agent's old request afterwards (a delayed datagram)
		if !outageDone && r.Conf.EnableHBTimer && r.Conf.HeartBeatInterval != "5s" && p.Associated && hasConn[p] && r.Ch.Choose(16, "heartbeat-outage") == 1 {
			outageDone = true
			var held []uint32
			p.HBFilter = func(m *RxMsg) bool {
				held = append(held, m.Msg.Sequence())
				return false
			}
			giveUp := time.Duration(r.Conf.MaxReqRetries+1)*2*time.Second + 3*time.Second // resp_timeout 2 s
			for t := time.Duration(0); t < giveUp && r.AgentAlive(); t += time.Second {
				r.Sim.RunFor(time.Second)
				cnt := map[uint32]int{}
				last := false
				for _, sq := range held {
					cnt[sq]++
					last = last || cnt[sq] > int(r.Conf.MaxReqRetries)
				}
				if last {
					continue // final transmission seen: the connection is about to go, a request now may legitimately be lost
				}
				hb := message.NewHeartbeatRequest(p.NextSeq(), ie.NewRecoveryTimeStamp(p.TS), nil)
				setSeq(hb, seqFor(p))
				if len(held) > 0 && r.Ch.Choose(3, "same-seq-as-pending") == 1 {
					// the peer's own request happens to carry the sequence number of the
					// agent's request that is still waiting for its answer (the two ends
					// number independently): a request all the same, to be answered
					setSeq(hb, held[len(held)-1])
					r.Probe("peer-request-numbered-like-a-pending-agent-request")
				}
				send(p, hb, "HeartbeatRequest", 1)
			}
			p.HBFilter = nil
			r.Fault("agent-heartbeats-unanswered-until-give-up")
			r.Skel("hb-outage")
			seen := map[uint32]bool{}
			for _, sq := range held {
				if !seen[sq] {
					seen[sq] = true
					p.SendMsg(message.NewHeartbeatResponse(sq, ie.NewRecoveryTimeStamp(p.TS)))
				}
			}
			r.Op("peer%d left %d heartbeat transmission(s) of the agent unanswered for %v (sending its own), then answered them late", p.Idx, len(held), giveUp)
			r.Sim.RunFor(50 * time.Millisecond)
			// every transmission of one request went unanswered: the agent has dropped
			// the association (anything else: the model cannot tell, the run ends here)
			cnt := map[uint32]int{}
			most := 0
			for _, sq := range held {
				cnt[sq]++
				if cnt[sq] > most {
					most = cnt[sq]
				}
			}
			if most < int(r.Conf.MaxReqRetries)+1 {
				r.Inconclusive++
				return
			}
			p.Associated = false
			p.Sessions = map[uint64]*CPSession{}
			hasConn[p] = false
			continue
		}
		kind := r.Ch.Choose(11, "kind")
		switch kind {
		case 0: // association setup (also repeated on a live association)
			m := p.AssocSetupMsg()
			setSeq(m, seqFor(p))
			rx := send(p, m, "AssociationSetupRequest", 1)
			r.Skel("assoc")
			if rx != nil {
				ar, ok := rx.Msg.(*message.AssociationSetupResponse)
				if !ok {
					break
				}
				c, _ := CauseOf(ar)
				if c != ie.CauseRequestAccepted {
					r.Violate("C02", "association-rejected-while-connected", "Association Setup rejected with cause %d although the datapath is connected", c)
				} else {
					p.Associated = true
					r.Accepted++
				}
				if ar.NodeID == nil || ar.RecoveryTimeStamp == nil || ar.UPFunctionFeatures == nil {
					r.Violate("C02", "association-response-incomplete", "Association Setup Response lacks Node ID / Recovery Time Stamp / UP Function Features")
				}
			}
		case 1: // heartbeat, possibly duplicated
			m := message.NewHeartbeatRequest(seqFor(p), ie.NewRecoveryTimeStamp(p.TS), nil)
			copies := 1 + r.Ch.Choose(3, "hbcopies")
			send(p, m, "HeartbeatRequest", copies)
			r.Skel(fmt.Sprintf("hb%d", copies))
		case 2, 3: // establishment
			sh := SessShape{UEAlloc: r.Ch.Choose(2, "ua") == 1, TEIDChoose: r.Ch.Choose(2, "ch") == 1, NQER: r.Ch.Choose(3, "nq"), ExtraPDRs: r.Ch.Choose(3, "ex")}
			s := g.Session(p, sh)
			var twin *CPSession
			switch r.Ch.Choose(6, "cpseid") {
			case 1:
				s.CPSEID = 0xFFFFFFFFFFFFFFFF - uint64(len(sent))
			case 2:
				s.CPSEID = uint64(r.Ch.Choose(1<<30, "cpseidv"))<<20 + uint64(len(sent)) + 1
			case 3:
				// the SEID value of a live session of this association again, inside a
				// CP F-SEID with another CP address (several SMF instances behind one N4
				// address number their sessions independently; a CP that restarted starts
				// at 1 again): a session of its own all the same
				if len(sessions) > 0 && p.Associated {
					twin = sessions[r.Ch.Choose(len(sessions), "twin")]
					s.CPSEID, s.CPAddr = twin.CPSEID, ip4("10.250.7.7")
				}
			}
			badNode := p.Associated && r.Ch.Choose(8, "badnode") == 1
			saved := p.NodeID
			if badNode {
				p.NodeID = "10.250.9.9"
			}
			m := p.EstablishMsg(s)
			p.NodeID = saved
			setSeq(m, seqFor(p))
			rx := send(p, m, "SessionEstablishmentRequest", 1)
			if rx == nil {
				break
			}
			resp, ok := rx.Msg.(*message.SessionEstablishmentResponse)
			if !ok {
				break
			}
			c, _ := CauseOf(resp)
			expectAccept := p.Associated && !badNode
			r.Skel(fmt.Sprintf("est:%v", c == ie.CauseRequestAccepted))
			if c == ie.CauseRequestAccepted {
				if !expectAccept {
					r.Violate("C02", "establishment-accepted-without-association", "establishment accepted without a matching association (associated=%v badNode=%v)", p.Associated, badNode)
					break
				}
				r.Accepted++
				checkEstResponse(r, p, s, resp)
				p.Establish2(s, resp)
				if twin != nil {
					r.Probe("two-live-sessions-with-one-cp-seid-value")
					r.Skel("est:twin-cp-seid")
					if s.UPSEID == twin.UPSEID {
						r.Violate("C02", "up-fseid-shared-by-two-sessions", "the establishment of a second session whose CP F-SEID has the SEID value %d of a live session (another CP address) was answered with that session's UP F-SEID %d: the F-SEID no longer addresses one session", s.CPSEID, s.UPSEID)
						break
					}
					// the model keys sessions by CP SEID: the older twin leaves (by a
					// deletion addressed with its own UP F-SEID), the new one stays
					dm := p.DeleteMsg(twin.UPSEID)
					setSeq(dm, seqFor(p))
					if drx := send(p, dm, "SessionDeletionRequest", 1); drx != nil {
						if dc, _ := CauseOf(drx.Msg); dc != ie.CauseRequestAccepted {
							r.Violate("C02", "twin-session-not-addressable", "after a second session with the same CP SEID value was established, the first one (UP F-SEID %d) can no longer be deleted: cause %d", twin.UPSEID, dc)
						}
					}
				}
			} else {
				if expectAccept {
					r.Probe("valid-establishment-rejected")
				}
				if c == 0 {
					r.Violate("C02", "rejection-without-cause", "rejected establishment carries no Cause")
				}
				if resp.SEID() != 0 && resp.SEID() != s.CPSEID {
					r.Violate("C02", "wrong-header-seid:est-reject", "rejected establishment: header SEID %d is neither 0 nor the CP SEID %d", resp.SEID(), s.CPSEID)
				}
			}
		case 4, 5: // modification of a live session (addressed by UP F-SEID), sometimes moving the CP F-SEID
			if len(sessions) == 0 {
				continue
			}
			s := sessions[r.Ch.Choose(len(sessions), "sess")]
			mod := g.Modification(s)
			if mod.Empty() {
				continue
			}
			m := p.ModifyMsg(s.UPSEID, mod)
			setSeq(m, seqFor(p))
			rx := send(p, m, "SessionModificationRequest", 1)
			if rx == nil {
				break
			}
			resp, ok := rx.Msg.(*message.SessionModificationResponse)
			if !ok {
				break
			}
			c, _ := CauseOf(resp)
			r.Skel(fmt.Sprintf("mod:%s:%v", mod.Tag, c == ie.CauseRequestAccepted))
			wantSEID := s.CPSEID
			if mod.NewCPSEID != 0 {
				wantSEID = mod.NewCPSEID
			}
			if c == ie.CauseRequestAccepted {
				r.Accepted++
				s.ApplyMod(mod)
				if resp.SEID() != wantSEID {
					r.Violate("C02", "wrong-header-seid:mod", "accepted modification: header SEID %d, the control plane's SEID for the session is %d (new CP F-SEID sent: %v)", resp.SEID(), wantSEID, mod.NewCPSEID != 0)
				}
			} else {
				r.Probe("valid-modification-rejected:" + mod.Tag)
				if c == 0 {
					r.Violate("C02", "rejection-without-cause", "rejected modification carries no Cause")
				}
			}
		case 6: // deletion
			if len(sessions) == 0 {
				continue
			}
			s := sessions[r.Ch.Choose(len(sessions), "sess")]
			m := p.DeleteMsg(s.UPSEID)
			setSeq(m, seqFor(p))
			rx := send(p, m, "SessionDeletionRequest", 1)
			if rx == nil {
				break
			}
			resp, ok := rx.Msg.(*message.SessionDeletionResponse)
			if !ok {
				break
			}
			c, _ := CauseOf(resp)
			r.Skel(fmt.Sprintf("del:%v", c == ie.CauseRequestAccepted))
			if c == ie.CauseRequestAccepted {
				r.Accepted++
				delete(p.Sessions, s.CPSEID)
				// (the session is gone: its UP F-SEID is now that of an unknown session)
				stale[p] = append(stale[p], s.UPSEID)
				sort.Slice(stale[p], func(i, j int) bool { return stale[p][i] < stale[p][j] })
				if resp.SEID() != s.CPSEID {
					r.Violate("C02", "wrong-header-seid:del", "accepted deletion: header SEID %d, the control plane's SEID for the session is %d", resp.SEID(), s.CPSEID)
				}
			} else {
				r.Violate("C02", "live-session-not-addressable", "deletion addressed with the UP F-SEID %d returned by the establishment was rejected (cause %d)", s.UPSEID, c)
			}
		case 7: // unknown session
			bogus := uint64(0xDEAD0000) + uint64(r.Ch.Choose(1000, "bogus"))
			if len(stale[p]) > 0 && r.Ch.Choose(3, "stale") != 0 {
				bogus = stale[p][r.Ch.Choose(len(stale[p]), "which-stale")]
				// (the new incarnation draws its F-SEIDs from 64 random bits: it never
				// hands one of these out again; if it does, the request below - meant for
				// the dead session - is executed on somebody else's session)
				r.Probe("request-to-fseid-of-killed-incarnation")
			}
			var m message.Message
			kindName := "SessionDeletionRequest(unknown)"
			if r.Ch.Choose(2, "bk") == 0 {
				x := p.DeleteMsg(bogus)
				setSeq(x, seqFor(p))
				m = x
			} else {
				x := p.ModifyMsg(bogus, &ModSpec{CreateQER: []*QERSpec{g.QER(77)}})
				setSeq(x, seqFor(p))
				m = x
				kindName = "SessionModificationRequest(unknown)"
			}
			rx := send(p, m, kindName, 1)
			r.Skel("unknown")
			if rx != nil {
				c, _ := CauseOf(rx.Msg)
				if c == ie.CauseRequestAccepted || c == 0 {
					r.Violate("C02", "unknown-session-not-rejected", "%s for unknown SEID %d answered with cause %d", kindName, bogus, c)
				}
				if rx.Msg.SEID() != 0 {
					r.Violate("C02", "wrong-header-seid:unknown-session", "%s for unknown SEID: response header SEID is %d, must be 0", kindName, rx.Msg.SEID())
				}
			}
		case 8: // PFD management
			m := message.NewPFDManagementRequest(seqFor(p),
				ie.NewApplicationIDsPFDs(ie.NewApplicationID(fmt.Sprintf("app%d", r.Ch.Choose(3, "app"))),
					ie.NewPFDContext(ie.NewPFDContents("permit out ip from 10.1.1.0/24 to assigned", "", "", "", "", nil, nil, nil))))
			rx := send(p, m, "PFDManagementRequest", 1+r.Ch.Choose(2, "pfdcopies"))
			r.Skel("pfd")
			if rx != nil {
				if c, _ := CauseOf(rx.Msg); c != ie.CauseRequestAccepted {
					r.Violate("C02", "valid-pfd-rejected", "well-formed PFD Management Request rejected with cause %d", c)
				}
			}
		case 9: // response-type messages are never answered
			before := len(p.Rx)
			var m message.Message
			switch r.Ch.Choose(4, "resptype") {
			case 0:
				m = message.NewHeartbeatResponse(uint32(r.Ch.Choose(1<<24, "rs")), ie.NewRecoveryTimeStamp(p.TS))
			case 1:
				m = message.NewAssociationSetupResponse(uint32(r.Ch.Choose(1<<24, "rs")), ie.NewNodeID(p.NodeID, "", ""), ie.NewCause(ie.CauseRequestAccepted), ie.NewRecoveryTimeStamp(p.TS))
			case 2:
				m = message.NewSessionReportResponse(0, 0, 0xABCDEF, uint32(r.Ch.Choose(1<<24, "rs")), 0, ie.NewCause(ie.CauseRequestAccepted))
			case 3:
				m = message.NewSessionDeletionResponse(0, 0, 0xABCDEF, uint32(r.Ch.Choose(1<<24, "rs")), 0, ie.NewCause(ie.CauseRequestAccepted))
			}
			p.SendMsg(m)
			r.Sim.RunFor(50 * time.Millisecond)
			r.Skel("resp-type")
			for _, x := range p.Rx[before:] {
				if x.Err == nil && isResponseType(x.Msg.MessageType()) {
					r.Violate("C02", "response-answered", "the agent answered a %s with a %s", m.MessageTypeName(), x.Msg.MessageTypeName())
				}
			}
		case 10: // association release (rare), then the peer may associate afresh
			if !p.Associated || r.Ch.Choose(3, "rel") != 1 {
				continue
			}
			m := message.NewAssociationReleaseRequest(seqFor(p), ie.NewNodeID(p.NodeID, "", ""))
			if send(p, m, "AssociationReleaseRequest", 1) == nil {
				continue // not sent (sequence number already used) or unanswered
			}
			p.Associated = false
			p.Sessions = map[uint64]*CPSession{}
			r.Skel("release")
			r.Sim.RunFor(100 * time.Millisecond)
		}
	}
	// settle, then count: exactly one response per delivered request, none extra
	r.Sim.RunFor(3 * time.Second)
	if r.AgentAlive() && len(r.Violations) == 0 {
		for _, sr := range sent {
			rt := responseTypeOf(sr.typ)
			got := 0
			for _, m := range sr.peer.Rx {
				if m.Err == nil && m.Msg.MessageType() == rt && m.Msg.Sequence() == sr.seq {
					got++
				}
			}
			if got != sr.count {
				r.Violate("C02", fmt.Sprintf("response-count:%s", sr.kind), "%s seq=%d delivered %d time(s) to the agent, %d response(s) of type %d with that sequence number arrived", sr.kind, sr.seq, sr.count, got, rt)
			}
		}
		for _, p := range r.Peers {
			for _, m := range p.Rx {
				if m.Err != nil {
					r.Violate("C02", "undecodable-datagram", "peer%d received bytes go-pfcp cannot decode: %v", p.Idx, m.Err)
					continue
				}
				if !isResponseType(m.Msg.MessageType()) {
					continue // agent-originated request (heartbeat)
				}
				ok := false
				for _, sr := range sent {
					if sr.peer == p && responseTypeOf(sr.typ) == m.Msg.MessageType() && sr.seq == m.Msg.Sequence() {
						ok = true
					}
				}
				if !ok {
					r.Violate("C02", "unsolicited-response", "peer%d received %s seq=%d that answers no request it sent", p.Idx, m.Msg.MessageTypeName(), m.Msg.Sequence())
				}
			}
		}
	}
	r.CheckNoPanics("C02")
}

// Establish2 records an accepted establishment (response already in hand).
func (p *Peer) Establish2(sess *CPSession, resp *message.SessionEstablishmentResponse) {
	sess.Peer = p
	if resp.UPFSEID != nil {
		if f, err := resp.UPFSEID.FSEID(); err == nil {
			sess.UPSEID = f.SEID
		}
	}
	for _, cp := range resp.CreatedPDR {
		id, err := cp.PDRID()
		if err != nil {
			continue
		}
		spec := sess.PDR(id)
		if spec == nil {
			continue
		}
		kids, _ := cp.CreatedPDR()
		for _, k := range kids {
			switch k.Type {
			case ie.FTEID:
				if f, err := k.FTEID(); err == nil {
					spec.GotTEID = f.TEID
				}
			case ie.UEIPAddress:
				if u, err := k.UEIPAddress(); err == nil {
					spec.GotUEIP = u.IPv4Address
				}
			}
		}
	}
	var got = sess.PDRs[0].GotUEIP
	for _, x := range sess.PDRs {
		if x.GotUEIP != nil {
			got = x.GotUEIP
		}
	}
	for _, x := range sess.PDRs {
		if x.UEIPAlloc && x.GotUEIP == nil {
			x.GotUEIP = got
		}
	}
	p.Sessions[sess.CPSEID] = sess
}

func checkEstResponse(r *Run, p *Peer, s *CPSession, resp *message.SessionEstablishmentResponse) {
	if resp.SEID() != s.CPSEID {
		r.Violate("C02", "wrong-header-seid:est", "accepted establishment: header SEID %d, CP SEID is %d", resp.SEID(), s.CPSEID)
	}
	if resp.NodeID == nil {
		r.Violate("C02", "est-response:no-node-id", "accepted establishment response carries no Node ID")
	} else if id, err := resp.NodeID.NodeID(); err != nil || id != AgentIP {
		r.Violate("C02", "est-response:wrong-node-id", "accepted establishment response Node ID %q (err %v), agent's is %s", id, err, AgentIP)
	}
	if resp.UPFSEID == nil {
		r.Violate("C02", "est-response:no-up-fseid", "accepted establishment response carries no UP F-SEID")
		return
	}
	f, err := resp.UPFSEID.FSEID()
	if err != nil || f.SEID == 0 {
		r.Violate("C02", "est-response:zero-up-fseid", "accepted establishment response UP F-SEID is zero or undecodable (%v)", err)
		return
	}
	if f.IPv4Address == nil || f.IPv4Address.String() != AgentIP {
		r.Violate("C02", "est-response:wrong-up-fseid-address", "UP F-SEID address %v, the agent's N4 address is %s", f.IPv4Address, AgentIP)
	}
	// one Created PDR per CHOOSE F-TEID, and one per UP-allocated UE IP address
	wantTEID := map[uint16]bool{}
	wantUE := 0
	for _, x := range s.PDRs {
		if x.HasFTEID && x.TEIDChoose {
			wantTEID[x.ID] = true
		}
		if x.HasUEIP && x.UEIPAlloc {
			wantUE = 1 // one address per session
		}
	}
	gotTEID := map[uint16]int{}
	gotUE := 0
	for _, cp := range resp.CreatedPDR {
		id, _ := cp.PDRID()
		kids, _ := cp.CreatedPDR()
		for _, k := range kids {
			switch k.Type {
			case ie.FTEID:
				gotTEID[id]++
				ft, err := k.FTEID()
				if err != nil || ft.TEID == 0 || ft.IPv4Address == nil || ft.IPv4Address.String() != N3Addr {
					r.Violate("C02", "est-response:bad-created-fteid", "Created PDR %d: F-TEID %+v err=%v (want non-zero TEID at %s)", id, ft, err, N3Addr)
				}
			case ie.UEIPAddress:
				gotUE++
				if u, err := k.UEIPAddress(); err != nil || u.IPv4Address == nil {
					r.Violate("C02", "est-response:bad-created-ueip", "Created PDR %d: UE IP address undecodable (%v)", id, err)
				}
			}
		}
	}
	for id := range wantTEID {
		if gotTEID[id] != 1 {
			r.Violate("C02", "est-response:created-pdr-fteid-count", "PDR %d asked the UP function to choose the F-TEID: %d Created PDR F-TEID elements for it", id, gotTEID[id])
		}
	}
	for id, n := range gotTEID {
		if !wantTEID[id] && n > 0 {
			r.Violate("C02", "est-response:unrequested-created-fteid", "Created PDR F-TEID for PDR %d which did not ask for one", id)
		}
	}
	if wantUE == 1 && gotUE < 1 {
		r.Violate("C02", "est-response:created-pdr-ueip-missing", "the session asked for a UP-allocated UE IP address, no Created PDR carries one")
	}
	if wantUE == 0 && gotUE > 0 {
		r.Violate("C02", "est-response:unrequested-created-ueip", "Created PDR UE IP address although none was requested")
	}
}
