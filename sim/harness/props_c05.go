package harness

import (
	"encoding/binary"
	"fmt"
	"sort"
	"strings"
	"time"

	"google.golang.org/grpc/codes"

	"github.com/omec-project/upf-epc/zzverif/vsim"
	"github.com/wmnsk/go-pfcp/ie"
	"github.com/wmnsk/go-pfcp/message"
)

func init() {
	Register(&PropDef{
		ID: "C05", QuickRuns: 1600, Level: "exploration",
		Rule:   "one run = more attach/detach cycles than the UE pool has addresses (/29 or /30) on the BESS datapath; each cycle: (re-)associate, establish a session with UP-allocated UE address and CHOOSE F-TEIDs, optionally accepted and rejected modifications and an establishment that is rejected after resources were taken, then one ending drawn from {Session Deletion, Association Release, peer silent past the read timeout, heartbeats unanswered, Session Report answered with 'session context not found'}; light datagram loss optional. Oracle after each ending (agent quiescent): no datapath entry carries the session's F-SEID; the pool has all addresses back and the next establishment succeeds; the TEIDs the session was given are no longer marked used; no session record is left; the pfcp_sessions gauge equals the number of live sessions. Non-trivial = at least two endings of different kinds; distinct = different sequence of (ending, pre-history kinds). Also: one RPC of an establishment slower than the plug-in waits (then: no datapath entry of a session that does not exist); on UP4 a Write failing inside the teardown of an association (what the agent holds is returned all the same).",
		Assume: []string{"white-box reads (TEID used map, pool sizes, session records, gauge) go through a bridge file compiled into the scratch copy; they run at quiescence"},
		Real:   CommonReal, Simulated: CommonSim,
		Scenario: scenarioC05,
	})
}

type agentState struct {
	poolFree, poolHeld, teidsUsed, stored, assocs int
	gauge                                         float64
}

// probeAgent reads white-box state on an ephemeral goroutine at quiescence.
func (r *Run) probeAgent(teids []uint32) (st agentState, teidUsed []bool) {
	a := r.Agent
	vsim.Ephemeral(func() {
		st.poolFree, st.poolHeld, st.teidsUsed = a.VerifPoolFree(), a.VerifPoolHeld(), a.VerifTEIDsUsed()
		st.stored, st.assocs, st.gauge = a.VerifStoredSessions(), a.VerifAssociations(), a.VerifSessionsGauge()
		for _, t := range teids {
			teidUsed = append(teidUsed, a.VerifTEIDAllocated(t))
		}
	})
	if st.poolFree < 0 || st.poolHeld < 0 || st.teidsUsed < 0 {
		// an internal the bridge names is gone (refactored): that comparison is skipped
		r.Probe("white-box-probe-unknown")
	}
	return
}

// bessForeignEntries counts datapath entries whose F-SEID is not in live.
func (r *Run) bessForeignEntries(live map[uint64]bool) (n int, sample string) {
	b := r.W.Bess
	var all []string
	for k, e := range b.PDR {
		if !live[e.Valuesv[1]] {
			all = append(all, fmt.Sprintf("pdrLookup %s (F-SEID %d)", k, e.Valuesv[1]))
		}
	}
	for k, e := range b.FAR {
		if !live[e.Fields[1]] {
			all = append(all, fmt.Sprintf("farLookup %s (F-SEID %d)", k, e.Fields[1]))
		}
	}
	for _, mod := range []string{"appQERLookup", "sessionQERLookup"} {
		for k, e := range b.Qos[mod] {
			if !live[e.Fields[len(e.Fields)-1]] {
				all = append(all, fmt.Sprintf("%s %s (F-SEID %d)", mod, k, e.Fields[len(e.Fields)-1]))
			}
		}
	}
	sort.Strings(all)
	if len(all) > 0 {
		sample = all[0]
	}
	return len(all), sample
}

// bessEntriesOf counts datapath entries that carry the given F-SEID.
func (r *Run) bessEntriesOf(fseid uint64) (n int, sample string) {
	b := r.W.Bess
	for k, e := range b.PDR {
		if e.Valuesv[1] == fseid {
			n++
			sample = "pdrLookup " + k
		}
	}
	for k, e := range b.FAR {
		if e.Fields[1] == fseid {
			n++
			sample = "farLookup " + k
		}
	}
	for _, mod := range []string{"appQERLookup", "sessionQERLookup"} {
		for k, e := range b.Qos[mod] {
			if e.Fields[len(e.Fields)-1] == fseid {
				n++
				sample = mod + " " + k
			}
		}
	}
	return
}

func scenarioC05(r *Run) {
	if r.Ch.Choose(3, "datapath") == 1 {
		scenarioC05UP4(r)
		return
	}
	r.Conf = DefaultBESSConf()
	r.Conf.EnableHBTimer = true
	r.Conf.HeartBeatInterval = "1s"
	r.Conf.MaxReqRetries = 1
	r.Conf.RespTimeout = "500ms"
	r.Conf.ReadTimeout = 3
	pool := []string{"10.60.0.0/29", "10.60.0.0/30"}[r.Ch.Choose(2, "pool")]
	poolSize := map[string]int{"10.60.0.0/29": 6, "10.60.0.0/30": 2}[pool]
	r.Conf.CPIface.UEIPPool = pool
	r.DrawStrategy()
	if r.Ch.Choose(4, "loss") == 1 {
		r.W.Net.ToAgent.DropDen, r.W.Net.FromAgent.DropDen = 30, 30
	}
	lossy := r.W.Net.ToAgent.DropDen > 0
	p := r.AddPeer()
	r.StartAgent()
	if !r.AgentAlive() {
		r.CheckNoPanics("C05")
		return
	}
	g := NewGen(r)
	g.PlainQER = true
	g.DrawAvoid()
	keepAlive := true
	kaPeriod := time.Second
	var ka func()
	ka = func() {
		r.Sim.After(kaPeriod, func() {
			if keepAlive && p.Associated && r.AgentAlive() {
				p.SendMsg(message.NewHeartbeatRequest(p.NextSeq(), ie.NewRecoveryTimeStamp(p.TS), nil))
			}
			ka()
		})
	}
	ka()
	cycles := poolSize + 2 + r.Ch.Choose(3, "extra-cycles")
	kinds := map[string]bool{}
	quietDone := false
	modelLost := false // a request the model expected to be refused was accepted: it no longer knows the live sessions
	// the datapath never keeps a rule of a session that does not exist
	foreignCheck := func(when string) bool {
		if modelLost || lossy {
			return true
		}
		live := map[uint64]bool{}
		for _, x := range r.LiveSessions() {
			live[x.UPSEID] = true
		}
		if n, sample := r.bessForeignEntries(live); n > 0 {
			r.Violate("C05", "datapath-entries-of-no-session", "%s: %d datapath entries carry the F-SEID of no session that exists, e.g. %s", when, n, sample)
			return false
		}
		return true
	}
	for c := 0; c < cycles && r.AgentAlive() && len(r.Violations) == 0; c++ {
		if !p.Associated {
			p.AnswerHeartbeats, keepAlive = true, true
			ok := false
			for try := 0; try < 4 && !ok; try++ {
				ok = p.Associate() != nil
			}
			if !ok {
				if r.AgentAlive() && !lossy {
					r.Violate("C05", "cannot-associate", "cycle %d: Association Setup not accepted\n%s", c, strings.Join(r.Sim.BlockedTable(), "\n"))
				}
				return
			}
		}
		// an establishment that is rejected after resources were taken
		if r.Ch.Choose(4, "rejected-est") == 1 {
			bad := g.Session(p, SessShape{UEAlloc: true, TEIDChoose: true})
			switch rk := r.Ch.Choose(3, "rej-kind"); {
			case rk == 0:
				// a FAR without a usable apply action comes after valid PDRs
				bad.FARs = append(bad.FARs, &FARSpec{ID: 7, Action: 0})
			case rk == 2:
				// everything parses, the address is taken, the datapath plug-in then
				// refuses the rules: a port range too wide to be installed
				sdf := &FlowSpec{Valid: true, Dir: "out", Proto: 17, UESide: "assigned", RemoteIP: ipU32(ip4("8.8.4.4")), RemoteLen: 32, HasPort: true, PortLo: 2000, PortHi: 2000 + uint16(300+r.Ch.Choose(3000, "too-wide")),
					Text: ""}
				sdf.Text = fmt.Sprintf("permit out udp from 8.8.4.4 %d-%d to assigned", sdf.PortLo, sdf.PortHi)
				for _, x := range bad.PDRs {
					x.SDF = sdf
				}
				r.Probe("establishment-refused-by-the-datapath-plug-in")
			default:
				// the PDR that asks for the UE address fails to parse after the
				// address was taken: it names an application that is not provisioned
				for _, x := range bad.PDRs {
					if x.SrcIface == IfCore {
						x.AppID = "no-such-application"
					}
				}
			}
			res := p.Establish(bad)
			r.Op("cycle %d: establishment with an invalid FAR after valid PDRs -> accepted=%v cause=%d", c, res.Accepted, res.Cause)
			r.Skel("rejected-est")
			if res.Accepted {
				delete(p.Sessions, bad.CPSEID)
				modelLost = true
			} else if res.Rx != nil {
				r.Probe("establishment-rejected-after-allocation")
			}
		}
		s := g.Session(p, SessShape{UEAlloc: true, TEIDChoose: true, NQER: r.Ch.Choose(3, "nq"), ExtraPDRs: r.Ch.Choose(2, "extra")})
		ending := []string{"deletion", "release", "silence", "hbfail", "report-not-found"}[r.Ch.Choose(5, "ending")]
		if ending == "report-not-found" {
			*s.FAR(2) = FARSpec{ID: 2, Action: ActBUFF | ActNOCP, DstIface: IfAccess, HasFwd: true}
		}
		var res EstResult
		refusedSlow := false
		slowEst := !lossy && r.Ch.Choose(6, "slow-rpc-in-establishment") == 1
		if slowEst {
			// one of the establishment's parallel RPCs takes longer than the plug-in
			// waits for (1 s): whatever the agent answers, nothing may stay installed
			// for a session that does not exist
			r.W.Bess.Faults.SlowNth = r.W.Bess.Calls + 1 + r.Ch.Choose(5, "slow-which")
			r.W.Bess.Faults.SlowBy = time.Duration(1100+r.Ch.Choose(900, "slow-ms")) * time.Millisecond
		}
		for try := 0; try < 4; try++ {
			res = p.Establish(s)
			if slowEst {
				r.W.Bess.Faults.SlowNth = 0
				if r.W.Bess.Fired["bess-slow"] > 0 {
					r.Fault("slow-rpc-in-establishment")
				}
				r.Sim.RunFor(1500 * time.Millisecond) // the slow call has come back by now
				if !res.Accepted && res.Rx != nil && r.AgentAlive() {
					// refused: the session does not exist, nothing of it may have stayed
					r.Probe("establishment-refused-after-slow-rpc")
					delete(p.Sessions, s.CPSEID)
					refusedSlow = true
					break
				}
			}
			if res.Rx != nil || !lossy {
				break
			}
			// lost request or response: retry with a new sequence number; an
			// establishment whose response was lost may have created a session
			s = g.Session(p, SessShape{UEAlloc: true, TEIDChoose: true})
		}
		if refusedSlow {
			r.Op("cycle %d: establishment refused (cause %d) after one of its RPCs took longer than the plug-in waits", c, res.Cause)
			r.Skel("refused-after-slow-rpc")
			foreignCheck("an establishment was refused after a slow RPC")
			continue
		}
		if !res.Accepted {
			if res.Rx != nil && !lossy && r.AgentAlive() {
				st, _ := r.probeAgent(nil)
				r.Violate("C05", "pool-exhausted-by-cycles", "cycle %d of %d (pool of %d addresses): establishment rejected with cause %d although no session is live; pool free=%d held=%d, TEIDs marked used=%d, session records=%d",
					c, cycles, poolSize, res.Cause, st.poolFree, st.poolHeld, st.teidsUsed, st.stored)
			}
			return
		}
		r.Accepted++
		var teids []uint32
		for _, x := range s.PDRs {
			if x.TEIDChoose && x.GotTEID != 0 {
				teids = append(teids, x.GotTEID)
			}
		}
		// optional history before the end
		for k := 0; k < r.Ch.Choose(3, "nmods"); k++ {
			m := g.Modification(s)
			if m.Empty() || m.Trigger != "" || (ending == "report-not-found" && len(m.UpdateFAR) > 0) {
				continue
			}
			mr := p.Modify(s, m)
			r.Op("  modify %s -> accepted=%v", m.Describe(), mr.Accepted)
			r.Skel("mod:" + m.Tag)
			if mr.Rx == nil && lossy {
				break
			}
		}
		if r.Ch.Choose(3, "rejmod") == 1 {
			// a modification that fails half-way: remove an existing PDR and an unknown one
			// removal only, of any PDR (also one that is not the last of the list), then an unknown one
			victim := s.PDRs[r.Ch.Choose(len(s.PDRs), "rej-victim")].ID
			mr := p.Modify(s, &ModSpec{Tag: "rP+unknown", RemovePDR: []uint16{victim, 99}})
			r.Op("  modify removing PDR %d and unknown PDR 99 -> accepted=%v", victim, mr.Accepted)
			r.Skel("rejected-mod")
			if mr.Accepted {
				// both "removed": keep our copy in step
			} else if mr.Rx != nil {
				r.Probe("modification-rejected-half-way")
			}
		}
		if !lossy && ending != "report-not-found" && len(s.PDRs) >= 2 && s.PDRs[0].SrcIface == IfAccess && r.Ch.Choose(6, "duplicated-create-pdr-choose") == 1 {
			// a Session Modification that creates a PDR pair whose uplink PDR asks for a
			// UP-chosen TEID, delivered twice (duplicated datagram): however the agent
			// deals with the copy, everything chosen for either delivery comes back at the end
			maxID := uint16(0)
			for _, x := range s.PDRs {
				if x.ID > maxID {
					maxID = x.ID
				}
			}
			ul, dl := s.PDRs[0].clone(), s.PDRs[1].clone()
			f := g.Flow(false)
			ul.ID, ul.Precedence, ul.SDF = maxID+1, 40, f
			dl.ID, dl.Precedence, dl.SDF = maxID+2, 40, f
			ul.TEIDChoose, ul.TEID, ul.GotTEID = true, 0, 0
			if ul.UEIPAlloc {
				ul.UEIPAlloc, ul.UEIP = false, ul.GotUEIP
			}
			if dl.UEIPAlloc {
				dl.UEIPAlloc, dl.UEIP = false, dl.GotUEIP
			}
			m := &ModSpec{Tag: "cP:choose:twice", CreatePDR: []*PDRSpec{ul, dl}}
			msg := p.ModifyMsg(s.UPSEID, m)
			raw := Marshal(msg)
			p.SendRaw(raw)
			p.SendRaw(raw)
			r.Sim.RunFor(300 * time.Millisecond)
			nresp, acc := 0, 0
			for _, rx := range p.Rx {
				if rx.Err == nil && !rx.Used && rx.Msg.MessageType() == message.MsgTypeSessionModificationResponse && rx.Msg.Sequence() == msg.Sequence() {
					rx.Used = true
					nresp++
					if c, _ := CauseOf(rx.Msg); c == ie.CauseRequestAccepted {
						acc++
					}
				}
			}
			if acc > 0 {
				s.ApplyMod(m)
			}
			r.Fault("modification-datagram-duplicated")
			r.Op("  modification creating PDR %d with a CHOOSE F-TEID delivered twice: %d responses, %d accepted", ul.ID, nresp, acc)
			r.Skel(fmt.Sprintf("mod:cP:choose:twice:%d", acc))
		}
		ueGot := s.PDRs[1].GotUEIP
		if ending != "report-not-found" && !lossy && r.Ch.Choose(5, "remove-base-pdr") == 1 {
			// an accepted modification takes away the very PDR through which the UE
			// address (downlink PDR) or the UP-chosen TEID (uplink PDR) was allocated:
			// what the session acquired must come back when it ends all the same
			victim := uint16(1 + r.Ch.Choose(2, "base-victim"))
			mr := p.Modify(s, &ModSpec{Tag: "rP:base", RemovePDR: []uint16{victim}})
			r.Op("  modify removing base PDR %d -> accepted=%v", victim, mr.Accepted)
			r.Skel(fmt.Sprintf("mod:rP:base%d:%v", victim, mr.Accepted))
			if mr.Accepted {
				r.Probe("allocating-pdr-removed-before-the-end")
			}
		}
		up := s.UPSEID
		r.Op("cycle %d: session cp=%d up=%d established (ue=%v teids=%v); ending: %s", c, s.CPSEID, up, ueGot, teids, ending)
		r.Skel("end:" + ending)
		kinds[ending] = true
		if !quietDone && !lossy && ending != "deletion" && r.Ch.Choose(5, "long-quiet") == 1 {
			// nothing touches the datapath for more than grpc's idle timeout: the
			// channel to BESS reads IDLE (not READY) when the session ends, while
			// BESS is up and populated
			quietDone = true
			r.Sim.RunFor(31 * time.Minute)
			r.Fault("datapath-channel-idle-before-ending")
			r.Skel("quiet-31min")
		}
		switch ending {
		case "deletion":
			var dr DelResult
			for try := 0; try < 4; try++ {
				dr = p.Delete(s)
				if dr.Rx != nil || !lossy {
					break
				}
			}
			if !dr.Accepted && !lossy && r.AgentAlive() {
				r.Violate("C05", "deletion-rejected", "deletion of the live session rejected (cause %d)", dr.Cause)
				return
			}
			delete(p.Sessions, s.CPSEID)
		case "release":
			p.Release()
			p.Sessions = map[uint64]*CPSession{}
			r.Sim.RunFor(500 * time.Millisecond)
		case "silence":
			keepAlive, p.AnswerHeartbeats = false, false
			r.Sim.RunFor(8 * time.Second)
			p.Associated = false
			p.Sessions = map[uint64]*CPSession{}
		case "hbfail":
			// keeps sending its own heartbeats, but rarely enough for the agent's
			// heartbeat (postponed by each of them) to fire and run out of retries
			p.AnswerHeartbeats = false
			kaPeriod = 2500 * time.Millisecond
			r.Sim.RunFor(8 * time.Second)
			kaPeriod = time.Second
			p.Associated = false
			p.Sessions = map[uint64]*CPSession{}
		case "report-not-found":
			p.ReportCause = ie.CauseSessionContextNotFound
			b := make([]byte, 8)
			binary.LittleEndian.PutUint64(b, up)
			r.W.Net.UnixInject("/tmp/notifycp", b)
			r.Sim.RunFor(500 * time.Millisecond)
			p.ReportCause = ie.CauseRequestAccepted
			delete(p.Sessions, s.CPSEID)
		}
		if !r.AgentAlive() {
			break
		}
		if lossy {
			// a lost datagram may have kept the ending from happening: only the
			// fault-free configuration judges each ending
			continue
		}
		// ---- everything the session acquired is reclaimed
		if n, sample := r.bessEntriesOf(up); n > 0 {
			r.Violate("C05", "datapath-entries-left:"+ending, "session up=%d ended by %s but %d datapath entries still carry its F-SEID, e.g. %s", up, ending, n, sample)
			return
		}
		st, used := r.probeAgent(teids)
		live := len(r.LiveSessions())
		if st.poolHeld >= 0 && st.poolHeld != live {
			r.Violate("C05", "ue-address-not-returned:"+ending, "after the session ended by %s the pool still holds %d address(es) for %d live session(s) (free %d of %d)", ending, st.poolHeld, live, st.poolFree, poolSize)
			return
		}
		for i, u := range used {
			if u {
				r.Violate("C05", "teid-not-returned:"+ending, "TEID %d chosen by the agent for the session that ended by %s is still marked used (%d TEIDs marked used, %d live sessions)", teids[i], ending, st.teidsUsed, live)
				return
			}
		}
		if st.stored != live {
			r.Violate("C05", "session-record-left:"+ending, "%d session record(s) stored for %d live session(s) after the ending by %s", st.stored, live, ending)
			return
		}
		if int(st.gauge+0.5) != live {
			r.Violate("C05", "sessions-gauge:"+ending, "pfcp_sessions gauge is %v with %d live session(s) after the ending by %s", st.gauge, live, ending)
			return
		}
		if !foreignCheck(fmt.Sprintf("after the session of cycle %d ended by %s", c, ending)) {
			return
		}
	}
	if len(kinds) >= 2 {
		r.Probe("two-kinds-of-ending-in-one-run")
	}
	if len(r.Violations) == 0 && r.AgentAlive() && !lossy {
		r.Probe(fmt.Sprintf("cycles-beyond-pool-size-%d", poolSize))
	}
	r.CheckNoPanics("C05")
}

// scenarioC05UP4 is the P4Runtime side of C05: attach/detach cycles on the UP4
// datapath with small counter / meter arrays, each session ended one of the
// five ways; afterwards the switch holds nothing of the session and every id
// pool of the plug-in is back to its size before the first session.
func scenarioC05UP4(r *Run) {
	r.FirstOnly = true
	o := r.DrawUP4Conf()
	r.Conf.EnableHBTimer = true
	r.Conf.HeartBeatInterval = "1s"
	r.Conf.MaxReqRetries = 1
	r.Conf.RespTimeout = "500ms"
	r.Conf.ReadTimeout = 3
	pool := []string{"10.60.0.0/29", "10.60.0.0/30"}[r.Ch.Choose(2, "pool")]
	poolSize := map[string]int{"10.60.0.0/29": 6, "10.60.0.0/30": 2}[pool]
	r.Conf.CPIface.UEIPPool = pool
	o.UEPool = pool
	r.DrawStrategy()
	sw := r.W.P4
	small := int64(6 + 3*r.Ch.Choose(3, "arrays"))
	for _, n := range []string{mApp, mSess, cPre, cPost} {
		sw.Resize(n, small)
	}
	// fault sequences: in one run in three, Write RPCs of establishments and
	// modifications fail now and then (never during the ending itself, so that
	// the session does end)
	faulty := r.Ch.Choose(3, "p4-write-failures") == 1
	sw.FailKind = []string{"transport", "update", "lost", "bare-unknown"}[r.Ch.Choose(4, "failkind")]
	sw.FailCode = []codes.Code{codes.Internal, codes.Unavailable, codes.NotFound, codes.ResourceExhausted}[r.Ch.Choose(4, "failcode")]
	faults := func(on bool) {
		sw.Faults.FailDen = 0
		if faulty && on {
			sw.Faults.FailDen = 10
		}
	}
	fired := func() int {
		return sw.Fired["p4-write-fail-transport"] + sw.Fired["p4-write-fail-update"] + sw.Fired["p4-write-response-lost"] + sw.Fired["p4-write-fail-bare-unknown"]
	}
	p := r.AddPeer()
	r.StartAgent()
	if !r.WaitUP4Ready() {
		r.CheckNoPanics("C05")
		return
	}
	var occ0 map[string]int
	probeOcc := func() (m map[string]int) {
		a := r.Agent
		vsim.Ephemeral(func() { m = a.VerifUP4Occupancy() })
		return
	}
	g := NewGen(r)
	g.PlainQER = true
	g.UP4 = true
	g.DrawAvoid()
	shared := []*FlowSpec{g.Flow(false), g.Flow(false)}
	keepAlive := true
	kaPeriod := time.Second
	var ka func()
	ka = func() {
		r.Sim.After(kaPeriod, func() {
			if keepAlive && p.Associated && r.AgentAlive() {
				p.SendMsg(message.NewHeartbeatRequest(p.NextSeq(), ie.NewRecoveryTimeStamp(p.TS), nil))
			}
			ka()
		})
	}
	ka()
	cycles := poolSize
	if int(small) > cycles {
		cycles = int(small)
	}
	cycles += 2 + r.Ch.Choose(3, "extra-cycles")
	r.Skel(fmt.Sprintf("up4 pool=%d arrays=%d", poolSize, small))
	kinds := map[string]bool{}
	for c := 0; c < cycles && r.AgentAlive() && len(r.Violations) == 0; c++ {
		if !p.Associated {
			p.AnswerHeartbeats, keepAlive = true, true
			if p.AssociateRetry() == nil {
				if r.AgentAlive() {
					r.Violate("C05", "cannot-associate:up4", "cycle %d: Association Setup not accepted\n%s", c, strings.Join(r.Sim.BlockedTable(), "\n"))
				}
				return
			}
		}
		if occ0 == nil {
			occ0 = probeOcc()
		}
		if r.Ch.Choose(4, "rejected-est") == 1 {
			// refused after PDRs, QERs and FARs were parsed (and ids possibly taken)
			bad := g.Session(p, SessShape{UEAlloc: true, TEIDChoose: true, NQER: r.Ch.Choose(3, "bad-nq")})
			bad.FARs = append(bad.FARs, &FARSpec{ID: 7, Action: 0})
			faults(true)
			res := p.Establish(bad)
			faults(false)
			r.Op("cycle %d: establishment with an invalid FAR after valid rules -> accepted=%v cause=%d", c, res.Accepted, res.Cause)
			r.Skel("rejected-est")
			if res.Accepted {
				delete(p.Sessions, bad.CPSEID)
			} else if res.Rx != nil {
				r.Probe("establishment-rejected-after-allocation")
			}
		}
		sh := SessShape{UEAlloc: r.Ch.Choose(2, "uealloc") == 1, TEIDChoose: true, NQER: r.Ch.Choose(3, "nq")}
		if k := r.Ch.Choose(3, "appfilter"); k > 0 {
			sh.BaseSDF = shared[k-1]
		}
		s := g.Session(p, sh)
		ending := []string{"deletion", "release", "silence", "hbfail", "report-not-found"}[r.Ch.Choose(5, "ending")]
		f0 := fired()
		faults(true)
		res := p.Establish(s)
		faults(false)
		estHit := fired() > f0
		ctxFault := ""
		if estHit {
			ctxFault = ":write-failed"
			r.Fault("p4-write-failed-in-establishment")
		}
		if !res.Accepted && estHit && res.Rx != nil && r.AgentAlive() {
			// refused because a write failed: whatever the attempt took must be back
			r.Op("cycle %d: establishment refused (cause %d) after an injected write failure (%s)", c, res.Cause, sw.FailKind)
			r.Skel("est-write-failed")
			ctx := fmt.Sprintf("cycle %d: establishment of cp=%d refused after a failed write (%s)", c, s.CPSEID, sw.FailKind)
			// One root cause (the plug-in does not undo what a failed establishment
			// did), seen through whichever object comes first: one signature.
			nv := len(r.Violations)
			r.noTaintFallback = true
			r.CheckUP4Image("C05", ctx, "refused-est"+ctxFault, o)
			r.noTaintFallback = false
			if len(r.Violations) == nv {
				occ := probeOcc()
				var keys []string
				for k := range occ0 {
					keys = append(keys, k)
				}
				sort.Strings(keys)
				for _, k := range keys {
					if occ[k] != occ0[k] {
						r.Violate("C05", "up4-"+k+":not-returned:refused-est"+ctxFault, "%s: UP4 %s has size %d, %d before the first session (all: %v)", ctx, k, occ[k], occ0[k], occ)
						break
					}
				}
			}
			if len(r.Violations) > nv {
				v := &r.Violations[len(r.Violations)-1]
				v.Msg = "[" + v.Sig + "] " + v.Msg
				v.Sig = "up4-leftovers-of-establishment-refused-after-failed-write"
				return
			}
			// what the PFCP layer took for the attempt is back as well
			if st, _ := r.probeAgent(nil); st.poolHeld >= 0 && st.poolHeld != len(r.LiveSessions()) {
				r.Violate("C05", "ue-address-not-returned:refused-est", "%s: the pool holds %d address(es) for %d live session(s)", ctx, st.poolHeld, len(r.LiveSessions()))
				return
			} else if st.stored != len(r.LiveSessions()) {
				r.Violate("C05", "session-record-left:refused-est", "%s: %d session record(s) stored for %d live session(s)", ctx, st.stored, len(r.LiveSessions()))
				return
			}
			continue
		}
		if !res.Accepted {
			if res.Rx != nil && r.AgentAlive() {
				st, _ := r.probeAgent(nil)
				r.Violate("C05", "pool-exhausted-by-cycles:up4", "cycle %d of %d (UE pool of %d addresses, counter / meter arrays of %d cells): establishment rejected with cause %d although no session is live; pool free=%d held=%d, TEIDs marked used=%d, session records=%d, UP4 occupancy %v (before the first session %v)",
					c, cycles, poolSize, small, res.Cause, st.poolFree, st.poolHeld, st.teidsUsed, st.stored, probeOcc(), occ0)
			}
			return
		}
		r.Accepted++
		var teids []uint32
		for _, x := range s.PDRs {
			if x.TEIDChoose && x.GotTEID != 0 {
				teids = append(teids, x.GotTEID)
			}
		}
		ue := uint32(0)
		for _, x := range s.PDRs {
			if x.SrcIface == IfCore {
				ue = x.EffUEIP()
			}
		}
		// history before the end: the UE goes idle and active again (the way
		// pfcpsim sends it: buffering FAR keeps the gNB address, TEID 0), hand-overs
		nm := r.Ch.Choose(4, "nmods")
		modHit := false
		for k := 0; k < nm; k++ {
			old := s.FAR(2)
			var f FARSpec
			m := &ModSpec{}
			switch r.Ch.Choose(4, "farmod") {
			case 0: // idle, pfcpsim style
				gnb := g.gnbs[0]
				if old.HasOHC && old.PeerIP != nil {
					gnb = old.PeerIP
				}
				f = FARSpec{ID: 2, Action: ActBUFF | ActNOCP, DstIface: IfAccess, HasFwd: true, HasOHC: true, TEID: 0, PeerIP: gnb}
				m.Tag = "uF:idle"
			case 1: // active again towards the same gNB
				gnb := g.gnbs[0]
				if old.HasOHC && old.PeerIP != nil {
					gnb = old.PeerIP
				}
				g.nextTEID++
				f = FARSpec{ID: 2, Action: ActFORW, DstIface: IfAccess, HasFwd: true, HasOHC: true, TEID: g.nextTEID, PeerIP: gnb}
				m.Tag = "uF:active"
			case 2: // hand-over to another gNB: reaches a listed finding
				if g.Avoid["up4-far-update-leaves-tunnel-peer"] || !old.HasOHC {
					continue
				}
				g.nextTEID++
				f = FARSpec{ID: 2, Action: ActFORW, DstIface: IfAccess, HasFwd: true, HasOHC: true, TEID: g.nextTEID, PeerIP: g.gnbs[1+r.Ch.Choose(2, "ho-gnb")]}
				if f.PeerIP.Equal(old.PeerIP) {
					continue
				}
				m.Tag, m.Trigger = "uF:handover", "up4-far-update-leaves-tunnel-peer"
			case 3: // buffering without forwarding parameters: reaches the same finding
				if g.Avoid["up4-far-update-leaves-tunnel-peer"] || !old.HasOHC || old.TEID == 0 {
					continue
				}
				f = FARSpec{ID: 2, Action: ActBUFF | ActNOCP, DstIface: IfAccess, HasFwd: true}
				m.Tag, m.Trigger = "uF:buffer", "up4-far-update-leaves-tunnel-peer"
			}
			if ending == "report-not-found" && f.Action&ActNOCP == 0 {
				continue
			}
			m.UpdateFAR = []*FARSpec{&f}
			if m.Trigger != "" {
				r.Taint(s.UPSEID, m.Trigger)
			}
			f1 := fired()
			faults(true)
			mr := p.Modify(s, m)
			faults(false)
			if fired() > f1 {
				r.Fault("p4-write-failed-in-modification")
				modHit = true
			}
			r.Op("  modify %s -> accepted=%v", m.Describe(), mr.Accepted)
			r.Skel("mod:" + m.Tag)
		}
		if ending == "report-not-found" && s.FAR(2).Action&ActNOCP == 0 {
			f := FARSpec{ID: 2, Action: ActBUFF | ActNOCP, DstIface: IfAccess, HasFwd: true, HasOHC: true, TEID: 0, PeerIP: s.FAR(2).PeerIP}
			if f.PeerIP == nil {
				f.PeerIP = g.gnbs[0]
			}
			mr := p.Modify(s, &ModSpec{Tag: "uF:idle", UpdateFAR: []*FARSpec{&f}})
			r.Op("  modify to idle (for the report) -> accepted=%v", mr.Accepted)
			if !mr.Accepted {
				ending = "deletion"
			}
		}
		if r.Ch.Choose(3, "rejmod") == 1 {
			mr := p.Modify(s, &ModSpec{Tag: "rP+unknown", RemovePDR: []uint16{99}})
			r.Op("  modify removing unknown PDR 99 -> accepted=%v", mr.Accepted)
			r.Skel("rejected-mod")
			if !mr.Accepted && mr.Rx != nil {
				r.Probe("modification-rejected")
			}
		}
		up := s.UPSEID
		r.Op("cycle %d: session cp=%d up=%d established (ue=%v teids=%v); ending: %s", c, s.CPSEID, up, u32IP(ue), teids, ending)
		r.Skel("end:" + ending)
		kinds[ending] = true
		// the end of an association whose session the switch refuses to let go of (one
		// Write of the teardown fails): the switch keeps what it keeps, but everything
		// the agent itself holds for the session is returned all the same
		teardownArmed := false
		w0 := sw.Fired["p4-write-fail-transport"]
		if (ending == "release" || ending == "silence" || ending == "hbfail") && r.Ch.Choose(4, "teardown-write-fails") == 1 {
			teardownArmed = true
			sw.FailKind = "transport"
			sw.Faults.FailNth = sw.Writes + 1 + r.Ch.Choose(2, "teardown-which-write")
		}
		switch ending {
		case "deletion":
			dr := p.Delete(s)
			if !dr.Accepted && r.AgentAlive() {
				r.Violate("C05", "deletion-rejected:up4:"+r.causeFor(up, "plain"), "deletion of the live session rejected (cause %d)", dr.Cause)
				return
			}
			delete(p.Sessions, s.CPSEID)
		case "release":
			p.Release()
			p.Sessions = map[uint64]*CPSession{}
			r.Sim.RunFor(500 * time.Millisecond)
		case "silence":
			keepAlive, p.AnswerHeartbeats = false, false
			r.Sim.RunFor(8 * time.Second)
			p.Associated = false
			p.Sessions = map[uint64]*CPSession{}
		case "hbfail":
			p.AnswerHeartbeats = false
			kaPeriod = 2500 * time.Millisecond
			r.Sim.RunFor(8 * time.Second)
			kaPeriod = time.Second
			p.Associated = false
			p.Sessions = map[uint64]*CPSession{}
		case "report-not-found":
			p.ReportCause = ie.CauseSessionContextNotFound
			before := len(p.Rx)
			sw.InjectDigest(ue)
			r.Sim.RunFor(500 * time.Millisecond)
			p.ReportCause = ie.CauseRequestAccepted
			reported := false
			for _, m := range p.Rx[before:] {
				if m.Err == nil && m.Msg.MessageType() == message.MsgTypeSessionReportRequest {
					reported = true
				}
			}
			if !reported {
				// no report was sent (not this property's matter): end the session plainly
				r.Probe("up4-digest-produced-no-report")
				dr := p.Delete(s)
				if !dr.Accepted {
					return
				}
			}
			delete(p.Sessions, s.CPSEID)
		}
		if !r.AgentAlive() {
			break
		}
		if teardownArmed {
			sw.Faults.FailNth = 0
			if sw.Fired["p4-write-fail-transport"] > w0 {
				r.Fault("p4-write-failed-in-teardown")
				r.Skel("teardown-write-failed")
				ctx := fmt.Sprintf("cycle %d: session up=%d ended by %s while a Write RPC of the teardown failed", c, up, ending)
				st, used := r.probeAgent(teids)
				live := len(r.LiveSessions())
				if st.poolHeld >= 0 && st.poolHeld != live {
					r.Violate("C05", "ue-address-not-returned:"+ending+":teardown-write-failed", "%s: the pool still holds %d address(es) for %d live session(s) (free %d of %d)", ctx, st.poolHeld, live, st.poolFree, poolSize)
				} else if st.stored != live {
					r.Violate("C05", "session-record-left:"+ending+":teardown-write-failed", "%s: %d session record(s) stored for %d live session(s)", ctx, st.stored, live)
				} else if int(st.gauge+0.5) != live {
					r.Violate("C05", "sessions-gauge:"+ending+":teardown-write-failed", "%s: pfcp_sessions gauge is %v with %d live session(s)", ctx, st.gauge, live)
				} else {
					for i, u := range used {
						if u {
							r.Violate("C05", "teid-not-returned:"+ending+":teardown-write-failed", "%s: TEID %d chosen by the agent is still marked used", ctx, teids[i])
							break
						}
					}
				}
				// the switch holds the remains of that session from here on: the run ends
				r.CheckNoPanics("C05")
				return
			}
		}
		// ---- nothing of the session is left at the switch, every id is back
		ctx := fmt.Sprintf("cycle %d: session up=%d ended by %s", c, up, ending)
		endCause := "end:" + ending
		if estHit || modHit {
			endCause += ":after-failed-write"
			ctx += fmt.Sprintf(" (a write of its establishment / a modification had failed: %s)", sw.FailKind)
		}
		// what a request refused after a failed write left behind (the plug-in
		// undoes nothing) surfaces here through whichever object comes first: one
		// signature for that root cause, unless a listed trigger explains it
		collapse := func() {
			if !(estHit || modHit) || len(r.Violations) == 0 {
				return
			}
			v := &r.Violations[len(r.Violations)-1]
			if strings.Contains(v.Sig, ":after:") {
				return
			}
			v.Msg = "[" + v.Sig + "] " + v.Msg
			v.Sig = "up4-leftovers-of-session-with-a-request-refused-after-failed-write"
		}
		r.CheckUP4Image("C05", ctx, endCause, o)
		if len(r.Violations) > 0 {
			collapse()
			return
		}
		occ := probeOcc()
		var keys []string
		for k := range occ0 {
			keys = append(keys, k)
		}
		sort.Strings(keys)
		for _, k := range keys {
			if occ[k] != occ0[k] {
				r.Violate("C05", imgSig("up4-"+k, "not-returned", r.causeFor(up, endCause)), "%s: UP4 %s has size %d, %d before the first session (all: %v)", ctx, k, occ[k], occ0[k], occ)
				collapse()
				return
			}
		}
		st, used := r.probeAgent(teids)
		live := len(r.LiveSessions())
		if st.poolHeld >= 0 && st.poolHeld != live {
			r.Violate("C05", "ue-address-not-returned:"+ending, "%s: the pool still holds %d address(es) for %d live session(s) (free %d of %d)", ctx, st.poolHeld, live, st.poolFree, poolSize)
			return
		}
		for i, u := range used {
			if u {
				r.Violate("C05", "teid-not-returned:"+ending, "%s: TEID %d chosen by the agent is still marked used (%d TEIDs marked used, %d live sessions)", ctx, teids[i], st.teidsUsed, live)
				return
			}
		}
		if st.stored != live {
			r.Violate("C05", "session-record-left:"+ending, "%s: %d session record(s) stored for %d live session(s)", ctx, st.stored, live)
			return
		}
		if int(st.gauge+0.5) != live {
			r.Violate("C05", "sessions-gauge:"+ending, "%s: pfcp_sessions gauge is %v with %d live session(s)", ctx, st.gauge, live)
			return
		}
	}
	if len(kinds) >= 2 {
		r.Probe("two-kinds-of-ending-in-one-run")
	}
	if len(r.Violations) == 0 && r.AgentAlive() {
		r.Probe(fmt.Sprintf("up4-cycles-beyond-array-size-%d", small))
	}
	r.CheckNoPanics("C05")
}
