package harness

import (
	"fmt"
	"strings"

	"github.com/omec-project/upf-epc/zzverif/vsimenv"
	"github.com/wmnsk/go-pfcp/ie"
	"github.com/wmnsk/go-pfcp/message"
)

func init() {
	Register(&PropDef{
		ID: "C08", QuickRuns: 4800, Level: "exploration",
		Rule:   "one run = one association on the BESS datapath with (stateful part, decided by simulation) 1-5 PFD Management Requests - accepted ones replacing the application table, and ones rejected half-way (an application without flow description after valid ones) - interleaved with establishments whose PDRs name application ids; the filter at the datapath must be the flow description currently provisioned for that application and direction, verbatim, replaced wholesale by an accepted request and untouched by a rejected one; and (grammar part, input sampling carried by the workload, stated as such) inline SDF filters drawn from the IPFilterRule grammar of the property (permit|deny, in|out, ip|tcp|udp|number, both endpoint orders, any|assigned|IPv4[/0..32], one port or port range on either side) and the corruption classes the property names (unknown action / direction, missing or unparsable address or port token, inverted port range): the PDR entry's match fields must equal the independent reference reading, or the rule must be refused, or the filter ignored (UE address only). Non-trivial = at least one accepted session with a filter; distinct = different sequence of (PFD outcome, filter class, outcome). Also: two associations with a PFD table each (one run in three); a long history of one flow description over 67-106 UEs, then the first UE again (one run in 40).",
		Assume: []string{"a single port specification denotes the remote (application) port, on whichever side it is written", "the grammar part is sampling of inputs, not a decision over all strings"},
		Real:   CommonReal, Simulated: CommonSim,
		Scenario: scenarioC08,
	})
}

// refFlow is the independent reference reading of a generated flow description.
type refFlow struct {
	text               string
	valid              bool
	class              string
	dir                string
	proto              int // -1 any
	srcIP              uint32
	srcLen             int
	srcAssigned        bool
	dstIP              uint32
	dstLen             int
	dstAssigned        bool
	srcPorts, dstPorts [2]int // -1,-1 = none
}

type c08gen struct {
	r *Run
	n int
}

func (g *c08gen) c(n int, l string) int { return g.r.Ch.Choose(n, l) }

func (g *c08gen) endpoint(kindDraw int) (string, uint32, int, bool) {
	g.n++
	switch kindDraw {
	case 0:
		return "any", 0, 0, false
	case 1:
		return "assigned", 0, 32, true
	case 2:
		ip := uint32(0x08080000) + uint32(g.n)
		return u32IP(ip).String(), ip, 32, false
	default:
		l := g.c(33, "plen")
		ip := uint32(0xAC100000) + uint32(g.n)<<8
		if l == 0 {
			return u32IP(ip).String() + "/0", 0, 0, false
		}
		m := ^uint32(0) << (32 - uint(l))
		return fmt.Sprintf("%s/%d", u32IP(ip&m), l), ip & m, l, false
	}
}

// flow draws a description from the grammar; remoteFirst says which endpoint is the remote one for the PDR direction.
func (g *c08gen) flow() *refFlow {
	f := &refFlow{valid: true, class: "valid", proto: -1, srcPorts: [2]int{-1, -1}, dstPorts: [2]int{-1, -1}}
	action := []string{"permit", "deny"}[g.c(2, "action")]
	f.dir = []string{"out", "in"}[g.c(2, "dir")]
	proto := "ip"
	switch g.c(4, "proto") {
	case 1:
		proto, f.proto = "udp", 17
	case 2:
		proto, f.proto = "tcp", 6
	case 3:
		f.proto = 1 + g.c(253, "pn")
		proto = fmt.Sprint(f.proto)
	}
	var srcT, dstT string
	srcT, f.srcIP, f.srcLen, f.srcAssigned = g.endpoint(g.c(4, "src"))
	dstT, f.dstIP, f.dstLen, f.dstAssigned = g.endpoint(g.c(4, "dst"))
	portTxt := func() (string, [2]int) {
		if g.c(2, "range") == 0 {
			p := 1 + g.c(65535, "port")
			return fmt.Sprint(p), [2]int{p, p}
		}
		lo := 1 + g.c(60000, "plo")
		hi := lo + g.c(90, "pw")
		if g.c(8, "top-of-port-space") == 1 {
			lo, hi = 65535-(hi-lo), 65535 // the range ends at the last port
		}
		return fmt.Sprintf("%d-%d", lo, hi), [2]int{lo, hi}
	}
	switch g.c(3, "portside") {
	case 1:
		t, pr := portTxt()
		srcT += " " + t
		f.srcPorts = pr
	case 2:
		t, pr := portTxt()
		dstT += " " + t
		f.dstPorts = pr
	}
	if g.c(4, "order") == 1 {
		f.text = fmt.Sprintf("%s %s %s to %s from %s", action, f.dir, proto, dstT, srcT)
		f.class = "valid-to-first"
	} else {
		f.text = fmt.Sprintf("%s %s %s from %s to %s", action, f.dir, proto, srcT, dstT)
	}
	return f
}

// corrupt applies one of the corruption classes the property names.
func (g *c08gen) corrupt(f *refFlow) *refFlow {
	c := *f
	c.valid = false
	tok := strings.Fields(f.text)
	switch g.c(8, "corrupt") {
	case 0:
		tok[0] = "allow"
		c.class = "unknown-action"
	case 1:
		tok[1] = "sideways"
		c.class = "unknown-direction"
	case 2: // missing address token after from/to (at the end)
		for i, t := range tok {
			if t == "to" || t == "from" {
				tok = tok[:i+1]
			}
		}
		c.class = "missing-address"
	case 3: // unparsable address
		for i, t := range tok {
			if (t == "from" || t == "to") && i+1 < len(tok) {
				tok[i+1] = []string{"1.2.3", "300.1.1.1", "10.0.0.0/33", "abc", "1.2.3.4/"}[g.c(5, "badaddr")]
				break
			}
		}
		c.class = "unparsable-address"
	case 4: // unparsable port
		for i, t := range tok {
			if (t == "from" || t == "to") && i+1 < len(tok) {
				bad := []string{"http", "70000", "-5", "80-", "1-2-3"}[g.c(5, "badport")]
				tok = append(tok[:i+2], append([]string{bad}, stripPort(tok[i+2:])...)...)
				break
			}
		}
		c.class = "unparsable-port"
	case 5: // inverted port range
		for i, t := range tok {
			if (t == "from" || t == "to") && i+1 < len(tok) {
				tok = append(tok[:i+2], append([]string{"2000-1000"}, stripPort(tok[i+2:])...)...)
				break
			}
		}
		c.class = "inverted-port-range"
	case 6:
		tok = tok[:2]
		c.class = "truncated"
	case 7: // the text stops after the protocol, or the whole "to ..." clause is missing
		if g.c(2, "cut-at") == 0 {
			tok = tok[:3]
		} else {
			// drop the second endpoint clause (whichever of from / to comes later)
			seen := 0
			for i, t := range tok {
				if t == "to" || t == "from" {
					seen++
					if seen == 2 {
						tok = tok[:i]
						break
					}
				}
			}
			if seen < 2 {
				tok = tok[:3]
			}
		}
		c.class = "missing-clause"
	}
	c.text = strings.Join(tok, " ")
	return &c
}

func stripPort(rest []string) []string {
	if len(rest) > 0 && rest[0] != "to" && rest[0] != "from" {
		return rest[1:]
	}
	return rest
}

// expected match fields of a PDR entry for a reference flow: [src_ip, src_mask, dst_ip, dst_mask, sport lo/hi, dport lo/hi, proto, protomask]
type flt struct {
	srcIP, srcMask, dstIP, dstMask uint32
	sport, dport                   [2]int // -1 = wildcard
	proto                          int
}

func maskOf(l int) uint32 {
	if l <= 0 {
		return 0
	}
	return ^uint32(0) << (32 - uint(l))
}

// inlineExpect: SDF filter oriented by the PDR's direction; a single port spec denotes the remote port.
func inlineExpect(f *refFlow, uplink bool, ue uint32) flt {
	src, sl, dst, dl := f.srcIP, f.srcLen, f.dstIP, f.dstLen
	if f.srcAssigned {
		src, sl = ue, 32
	}
	if f.dstAssigned {
		dst, dl = ue, 32
	}
	port := f.srcPorts
	if port[0] < 0 {
		port = f.dstPorts
	}
	e := flt{proto: f.proto, sport: [2]int{-1, -1}, dport: [2]int{-1, -1}}
	if uplink {
		// packet source = the "to" endpoint (UE side), packet destination = the "from" endpoint (remote)
		e.srcIP, e.srcMask, e.dstIP, e.dstMask = dst&maskOf(dl), maskOf(dl), src&maskOf(sl), maskOf(sl)
		e.dport = port
	} else {
		e.srcIP, e.srcMask, e.dstIP, e.dstMask = src&maskOf(sl), maskOf(sl), dst&maskOf(dl), maskOf(dl)
		e.sport = port
	}
	return e
}

// pfdExpect: verbatim (source to packet source, destination to packet destination).
func pfdExpect(f *refFlow, ue uint32) flt {
	src, sl, dst, dl := f.srcIP, f.srcLen, f.dstIP, f.dstLen
	if f.srcAssigned {
		src, sl = ue, 32
	}
	if f.dstAssigned {
		dst, dl = ue, 32
	}
	return flt{srcIP: src & maskOf(sl), srcMask: maskOf(sl), dstIP: dst & maskOf(dl), dstMask: maskOf(dl), sport: f.srcPorts, dport: f.dstPorts, proto: f.proto}
}

// entriesOf lists the wildcard entries of one PDR.
func entriesOf(b *vsimenv.SimBESS, fseid uint64, pdrID uint16) []*vsimenv.WCEntry {
	var out []*vsimenv.WCEntry
	for _, k := range b.SortedPDRKeys() {
		e := b.PDR[k]
		if e.Valuesv[1] == fseid && e.Valuesv[0] == uint64(pdrID) {
			out = append(out, e)
		}
	}
	return out
}

// compareFilter checks the installed entries of a PDR against an expected filter.
func compareFilter(es []*vsimenv.WCEntry, want flt) string {
	if len(es) == 0 {
		return "no entry installed"
	}
	ports := func(field int, want [2]int) string {
		if want[0] < 0 {
			for _, e := range es {
				if e.Masks[field] != 0 {
					return fmt.Sprintf("port field %d is matched although no port was written", field)
				}
			}
			return ""
		}
		got := map[int]bool{}
		for _, e := range es {
			if e.Masks[field] != 0xFFFF {
				return fmt.Sprintf("port field %d mask %x", field, e.Masks[field])
			}
			got[int(e.Values[field])] = true
		}
		for p := want[0]; p <= want[1]; p++ {
			if !got[p] {
				return fmt.Sprintf("port %d of the written range %v is not matched", p, want)
			}
		}
		if len(got) != want[1]-want[0]+1 {
			return fmt.Sprintf("ports outside the written range %v are matched (%d entries)", want, len(got))
		}
		return ""
	}
	for _, e := range es {
		if uint32(e.Values[3]) != want.srcIP || uint32(e.Masks[3]) != want.srcMask {
			return fmt.Sprintf("source %v/%x at the datapath, expected %v/%x", u32IP(uint32(e.Values[3])), e.Masks[3], u32IP(want.srcIP), want.srcMask)
		}
		if uint32(e.Values[4]) != want.dstIP || uint32(e.Masks[4]) != want.dstMask {
			return fmt.Sprintf("destination %v/%x at the datapath, expected %v/%x", u32IP(uint32(e.Values[4])), e.Masks[4], u32IP(want.dstIP), want.dstMask)
		}
		if want.proto < 0 && e.Masks[7] != 0 {
			return fmt.Sprintf("protocol %d is matched although 'ip' was written", e.Values[7])
		}
		if want.proto >= 0 && (e.Masks[7] != 0xFF || int(e.Values[7]) != want.proto) {
			return fmt.Sprintf("protocol %d/%x at the datapath, expected %d", e.Values[7], e.Masks[7], want.proto)
		}
	}
	if m := ports(5, want.sport); m != "" {
		return m
	}
	return ports(6, want.dport)
}

func ueOnly(uplink bool, ue uint32) flt {
	e := flt{proto: -1, sport: [2]int{-1, -1}, dport: [2]int{-1, -1}}
	if uplink {
		e.srcIP, e.srcMask = ue, 0xFFFFFFFF
	} else {
		e.dstIP, e.dstMask = ue, 0xFFFFFFFF
	}
	return e
}

func scenarioC08(r *Run) {
	r.FirstOnly = true
	r.Conf = DefaultBESSConf()
	r.DrawStrategy()
	p := r.AddPeer()
	r.StartAgent()
	if !r.AgentAlive() || p.AssociateRetry() == nil {
		r.CheckNoPanics("C08")
		return
	}
	g := &c08gen{r: r}
	gen := NewGen(r)
	b := r.W.Bess
	apps := map[string][]*refFlow{} // currently provisioned table (reference)
	ueN := uint32(0)
	lastPFDSeq := uint32(0)
	newSession := func() (*CPSession, uint32) {
		ueN++
		s := gen.Session(p, SessShape{})
		return s, s.PDRs[0].EffUEIP()
	}
	if r.Ch.Choose(40, "long-history") == 1 {
		// a long history: the same well-formed flow description for many UEs in a
		// row, then again for the first UE (whose session was deleted meanwhile):
		// every PDR matches what the description denotes for *its* UE address
		var f *refFlow
		for k := 0; k < 30; k++ {
			if x := g.flow(); x.valid && strings.Contains(x.text, "assigned") {
				f = x
				break
			}
		}
		if f == nil {
			return
		}
		uplink := r.Ch.Choose(2, "ul") == 1
		est := func(like *CPSession) (*CPSession, bool) {
			s, ue := newSession()
			if like != nil {
				for _, x := range s.PDRs {
					x.UEIP = like.PDRs[0].UEIP
				}
				ue = like.PDRs[0].EffUEIP()
			}
			pd := s.PDRs[1]
			if uplink {
				pd = s.PDRs[0]
			}
			pd.SDF = &FlowSpec{Text: f.text}
			if res := p.Establish(s); !res.Accepted {
				return nil, false
			}
			r.Accepted++
			if m := compareFilter(entriesOf(b, s.UPSEID, pd.ID), inlineExpect(f, uplink, ue)); m != "" {
				r.Violate("C08", "sdf-filter-mismatch:long-history", "flow description %q on the %s PDR of the %d-th session of the run (UE %v): %s", f.text, map[bool]string{true: "uplink", false: "downlink"}[uplink], ueN, u32IP(ue), m)
				return s, false
			}
			return s, true
		}
		first, ok := est(nil)
		n := 66 + r.Ch.Choose(40, "long-n")
		for i := 0; i < n && ok && r.AgentAlive(); i++ {
			_, ok = est(nil)
		}
		if ok && first != nil {
			if dr := p.Delete(first); dr.Accepted {
				est(first)
			}
		}
		r.Op("%d sessions in a row with the flow description %q, then the first UE again", ueN, f.text)
		r.Probe("long-history-of-one-flow-description")
		r.Skel("long-history")
		r.CheckNoPanics("C08")
		return
	}
	// one run in three: two associations, each with a PFD table of its own (the same
	// application ids, other filters); what one provisions says nothing about the other
	peers := []*Peer{p}
	appsOf := map[*Peer]map[string][]*refFlow{p: apps}
	seqOf := map[*Peer]uint32{}
	goneOf := map[*Peer]map[string][]*refFlow{} // applications withdrawn by accepted requests
	if r.Ch.Choose(3, "two-associations") == 1 {
		q := r.AddPeer()
		if q.AssociateRetry() == nil {
			r.CheckNoPanics("C08")
			return
		}
		peers = append(peers, q)
		appsOf[q] = map[string][]*refFlow{}
		r.Probe("two-associations-with-pfd-tables")
	}
	for step := 0; step < 4+r.Ch.Choose(9, "steps") && r.AgentAlive() && len(r.Violations) == 0; step++ {
		if len(peers) > 1 {
			appsOf[p], seqOf[p] = apps, lastPFDSeq
			p = peers[r.Ch.Choose(len(peers), "peer")]
			apps, lastPFDSeq = appsOf[p], seqOf[p]
		}
		switch r.Ch.Choose(4, "what") {
		case 0: // PFD management
			n := 1 + r.Ch.Choose(3, "napps")
			if r.Ch.Choose(6, "withdraw-all") == 1 {
				// a request without any application: everything provisioned is withdrawn
				n = 0
				r.Probe("pfd-request-without-applications")
			}
			table := map[string][]*refFlow{}
			var ies []*ie.IE
			rejectAt := -1
			truncated := false
			switch r.Ch.Choose(4, "reject") {
			case 1:
				rejectAt = r.Ch.Choose(n, "rejat")
			case 2:
				// the PFD Contents of the last application are cut short on the wire (the
				// announced flow description is longer than the element): a request that
				// cannot be accepted - refused or dropped, the table stays as it was
				truncated = n > 0
			}
			for i := 0; i < n; i++ {
				id := fmt.Sprintf("app%d", r.Ch.Choose(3, "appid"))
				if _, dup := table[id]; dup {
					continue
				}
				var ctx []*ie.IE
				var fl []*refFlow
				for k := 0; k < 1+r.Ch.Choose(2, "nflows"); k++ {
					f := g.flow()
					if f.srcPorts[0] >= 0 && f.srcPorts[1]-f.srcPorts[0] > 90 {
						f.srcPorts = [2]int{-1, -1}
					}
					fl = append(fl, f)
					ctx = append(ctx, ie.NewPFDContents(f.text, "", "", "", "", nil, nil, nil))
				}
				table[id] = fl
				ies = append(ies, ie.NewApplicationIDsPFDs(ie.NewApplicationID(id), ie.NewPFDContext(ctx...)))

			}
			seq := p.NextSeq()
			if lastPFDSeq != 0 && r.Ch.Choose(3, "pfd-seq-reused") == 1 {
				// the control plane numbers this request like its previous PFD request
				// (it restarted its counter, or keeps one counter per procedure): a new
				// request all the same, to be processed like any other
				seq = lastPFDSeq
				r.Probe("pfd-request-reuses-sequence-number")
			}
			lastPFDSeq = seq
			req := message.NewPFDManagementRequest(seq, ies...)
			var rx *RxMsg
			if truncated {
				raw, ok := ParsePFCP(Marshal(req))
				if !ok || len(raw.IEs) == 0 {
					continue
				}
				cut := false
				var walk func(ts []*TLV)
				walk = func(ts []*TLV) {
					for _, t := range ts {
						if t.Type == 61 && !t.Group && len(t.Val) > 6 {
							t.Val = t.Val[:len(t.Val)-3-r.Ch.Choose(3, "pfd-cut")]
							cut = true
						}
						walk(t.Kids)
					}
				}
				walk(raw.IEs[len(raw.IEs)-1:])
				if !cut {
					continue
				}
				p.SendRaw(raw.Encode())
				r.Sim.RunUntil(func() bool {
					rx = p.FindResponse(message.MsgTypePFDManagementResponse, req.Sequence())
					return rx != nil
				}, r.until(2e9))
				r.Fault("pfd-contents-truncated-on-the-wire")
				acc := false
				if rx != nil {
					rx.Used = true
					c, _ := CauseOf(rx.Msg)
					acc = c == ie.CauseRequestAccepted
				}
				r.Op("PFD management with truncated PFD Contents: answered=%v accepted=%v (the table must stay as it was)", rx != nil, acc)
				r.Skel(fmt.Sprintf("pfd:truncated:%v:%v", rx != nil, acc))
				if acc {
					// the decoding library made something of the element (an announced length
					// that stays inside its buffer is not refused): the table now holds what
					// it decoded, which this model cannot know - nothing further to judge
					r.Inconclusive++
					return
				}
				r.Probe("pfd-request-with-truncated-contents-not-accepted")
				continue
			}
			if rejectAt >= 0 && len(apps) > 0 && r.Ch.Choose(2, "reject-kind") == 1 {
				// the last application of the request names an application of the CURRENT
				// table and carries PFD Contents without a flow description: refused as a
				// whole - and the current table, that application included, stays
				ids := sortedKeys(apps)
				victim := ids[r.Ch.Choose(len(ids), "reject-names")]
				ies2 := append(append([]*ie.IE{}, ies...), ie.NewApplicationIDsPFDs(ie.NewApplicationID(victim), ie.NewPFDContext(ie.NewPFDContents("", "", "", "", "", nil, nil, nil))))
				req2 := message.NewPFDManagementRequest(seq, ies2...)
				rx = p.Request(req2, 5e9)
				r.Fault("pfd-request-refused-naming-a-provisioned-application")
				if rx == nil {
					r.Violate("C08", "pfd-request-unanswered", "PFD Management Request got no response")
					return
				}
				c, _ := CauseOf(rx.Msg)
				r.Op("PFD management whose last application (%s, provisioned) has no flow description -> accepted=%v", victim, c == ie.CauseRequestAccepted)
				r.Skel(fmt.Sprintf("pfd:no-flow-desc:%v", c == ie.CauseRequestAccepted))
				if c == ie.CauseRequestAccepted {
					r.Inconclusive++ // (accepted: the table is whatever the agent made of it)
					return
				}
				continue
			}
			if rejectAt >= 0 {
				// make the last element unusable on the wire: strip its Application ID child
				// (independent TLV codec), so the request must be rejected as a whole
				raw, ok := ParsePFCP(Marshal(req))
				if !ok || len(raw.IEs) == 0 {
					continue
				}
				last := raw.IEs[len(raw.IEs)-1]
				var kids []*TLV
				for _, k := range last.Kids {
					if k.Type != 24 {
						kids = append(kids, k)
					}
				}
				last.Kids = kids
				p.SendRaw(raw.Encode())
				r.Sim.RunUntil(func() bool {
					rx = p.FindResponse(message.MsgTypePFDManagementResponse, req.Sequence())
					return rx != nil
				}, r.until(5e9))
				if rx != nil {
					rx.Used = true
				}
				r.Fault("pfd-request-broken-half-way")
			} else {
				rx = p.Request(req, 5e9)
			}
			if rx == nil {
				r.Violate("C08", "pfd-request-unanswered", "PFD Management Request got no response")
				return
			}
			c, _ := CauseOf(rx.Msg)
			acc := c == ie.CauseRequestAccepted
			r.Op("PFD management: %d applications, rejected half-way=%v -> accepted=%v", len(table), rejectAt >= 0, acc)
			r.Skel(fmt.Sprintf("pfd:%v:%v", rejectAt >= 0, acc))
			if acc != (rejectAt < 0) {
				r.Violate("C08", fmt.Sprintf("pfd-outcome:wellformed=%v:accepted=%v", rejectAt < 0, acc), "PFD Management Request (well-formed=%v) answered with cause %d", rejectAt < 0, c)
				return
			}
			if acc {
				// replaces the whole table: what the new one does not name is withdrawn
				if goneOf[p] == nil {
					goneOf[p] = map[string][]*refFlow{}
				}
				for id, fl := range apps {
					if _, still := table[id]; !still {
						goneOf[p][id] = fl
					}
				}
				for id := range table {
					delete(goneOf[p], id)
				}
				apps = table
				r.Accepted++
			}
		case 1: // establishment naming an application id
			if gone := goneOf[p]; len(gone) > 0 && (len(apps) == 0 || r.Ch.Choose(3, "name-withdrawn-app") == 1) {
				// a PDR names an application that an accepted PFD request has withdrawn:
				// refused, or at most the UE address - never the withdrawn flow description
				ids := sortedKeys(gone)
				id := ids[r.Ch.Choose(len(ids), "which-gone")]
				s, ue := newSession()
				uplink := r.Ch.Choose(2, "ul") == 1
				pd := s.PDRs[1]
				if uplink {
					pd = s.PDRs[0]
				}
				pd.AppID = id
				res := p.Establish(s)
				r.Op("establish with WITHDRAWN application id %s on the %s PDR -> accepted=%v; it used to be: %v", id, map[bool]string{true: "uplink", false: "downlink"}[uplink], res.Accepted, flowTexts(gone[id]))
				r.Skel(fmt.Sprintf("app-withdrawn:%v:%v", uplink, res.Accepted))
				r.Probe("pdr-names-withdrawn-application")
				if res.Accepted {
					if m := compareFilter(entriesOf(b, s.UPSEID, pd.ID), ueOnly(uplink, ue)); m != "" {
						r.Violate("C08", "pfd-filter-of-withdrawn-application", "PDR %d names application %s, which an accepted PFD Management Request has withdrawn (it used to be %v), and was installed with a filter: %s", pd.ID, id, flowTexts(gone[id]), m)
						return
					}
				}
				continue
			}
			if len(apps) == 0 {
				continue
			}
			ids := sortedKeys(apps)
			id := ids[r.Ch.Choose(len(ids), "which")]
			s, ue := newSession()
			uplink := r.Ch.Choose(2, "ul") == 1
			pd := s.PDRs[1]
			if uplink {
				pd = s.PDRs[0]
			}
			pd.AppID = id
			res := p.Establish(s)
			// the flow description whose direction keyword the agent associates with the PDR's direction
			var chosen *refFlow
			for _, f := range apps[id] {
				if (uplink && f.dir == "out") || (!uplink && f.dir == "in") {
					chosen = f
					break
				}
			}
			r.Op("establish with application id %s on the %s PDR -> accepted=%v; provisioned: %v", id, map[bool]string{true: "uplink", false: "downlink"}[uplink], res.Accepted, flowTexts(apps[id]))
			r.Skel(fmt.Sprintf("app:%v:%v", uplink, res.Accepted))
			if !res.Accepted {
				if res.Rx != nil && r.AgentAlive() {
					r.Violate("C08", "provisioned-application-unknown", "PDR %d names application %s, which the last accepted PFD Management Request provisioned (%v), and the establishment was refused with cause %d", pd.ID, id, flowTexts(apps[id]), res.Cause)
					return
				}
				continue
			}
			r.Accepted++
			want := ueOnly(uplink, ue)
			if chosen != nil {
				want = pfdExpect(chosen, ue)
			}
			if m := compareFilter(entriesOf(b, s.UPSEID, pd.ID), want); m != "" {
				what := "pfd-filter-mismatch"
				if chosen == nil {
					what = "pfd-filter-without-matching-direction"
				}
				r.Violate("C08", what, "PDR %d (%s) names application %s; provisioned flow descriptions %v; %s", pd.ID, map[bool]string{true: "uplink", false: "downlink"}[uplink], id, flowTexts(apps[id]), m)
				return
			}
		default: // inline SDF filter from the grammar, or a corruption of it
			f := g.flow()
			if r.Ch.Choose(3, "corrupt") == 1 {
				f = g.corrupt(f)
			}
			s, ue := newSession()
			uplink := r.Ch.Choose(2, "ul") == 1
			pd := s.PDRs[1]
			if uplink {
				pd = s.PDRs[0]
			}
			pd.SDF = &FlowSpec{Text: f.text}
			res := p.Establish(s)
			r.Op("establish with SDF %q (%s) on the %s PDR -> accepted=%v", f.text, f.class, map[bool]string{true: "uplink", false: "downlink"}[uplink], res.Accepted)
			r.Skel(fmt.Sprintf("sdf:%s:%v:%v", f.class, uplink, res.Accepted))
			if !res.Accepted {
				if f.valid && res.Rx != nil {
					r.Probe("valid-flow-description-refused")
				}
				continue
			}
			r.Accepted++
			es := entriesOf(b, s.UPSEID, pd.ID)
			ignored := compareFilter(es, ueOnly(uplink, ue)) == ""
			if !f.valid {
				if !ignored {
					r.Violate("C08", "malformed-text-yields-filter:"+f.class, "malformed flow description %q (%s) was accepted and the PDR matches on more than the UE address: %s", f.text, f.class, compareFilter(es, ueOnly(uplink, ue)))
					return
				}
				continue
			}
			if m := compareFilter(es, inlineExpect(f, uplink, ue)); m != "" && !ignored {
				r.Violate("C08", "sdf-filter-mismatch:"+f.class, "flow description %q on the %s PDR: %s", f.text, map[bool]string{true: "uplink", false: "downlink"}[uplink], m)
				return
			} else if m != "" && ignored {
				r.Violate("C08", "valid-filter-ignored:"+f.class, "flow description %q is in the supported grammar but the filter was ignored (the PDR matches on the UE address only)", f.text)
				return
			}
		}
	}
	r.CheckNoPanics("C08")
}

func flowTexts(fs []*refFlow) []string {
	var o []string
	for _, f := range fs {
		o = append(o, f.text)
	}
	return o
}
