package harness

import (
	"fmt"
	"sort"
	"strings"
	"time"

	"github.com/omec-project/upf-epc/zzverif/vsim"
	"github.com/wmnsk/go-pfcp/ie"
	"github.com/wmnsk/go-pfcp/message"
)

func init() {
	Register(&PropDef{
		ID: "C11", QuickRuns: 1600, RaceRuns: 480, Level: "exploration", Race: true,
		Rule: "one run = 2-8 associations on one datapath (BESS or UP4, drawn) working in rounds: in every round each association sends one valid request for one of its own sessions - establishment (UE address given or UP-allocated, F-TEID given or CHOOSE, 0-2 QERs, first PDR pair match-all or carrying one of three application filters shared by the whole run, downlink FAR towards one of three gNBs shared by the whole run), FAR update (new tunnel / buffer / drop; on UP4 only those that stay off the listed findings), other modifications inside the supported envelope (BESS), deletion - all at the same instant or with drawn pacing (0-200 us, or up to 3 ms); the UE pool is large or so small (/28, /29) that a released address is handed out again at once (establishments whose acceptance then depends on the order within the round may be refused); in one round in three the only user of an application filter and gNB is deleted by its association while another association establishes the next user of the same filter and gNB; datapath RPC latency jitter 0-2 ms and occasional slow writes (1.5 / 5 ms) let the writes of two handlers overtake each other; the agent's one-goroutine-per-association handlers, the per-rule goroutines of the BESS plug-in and the heartbeat monitors are interleaved by the token scheduler at statement level (run-to-block / random / PCT, scheduling points before socket writes). One run in eight is the directed late-completion scenario: association A's establishment has one BESS call slower than the plug-in's 1 s wait, association B's establishment is aimed at the instant that wait ends (join timer, context deadline and B's datagram at one instant), RPC latencies differ by up to 2 ms, the daemon does not apply a call cancelled before it got to it; A's session is deleted and B's accepted session must be installed completely. One round in eight is sent one request at a time (serial control: a rejection there is a generator matter, counted, not a finding). Oracles: (a) every request is answered once, and - concurrent rounds - accepted, as in every one-at-a-time ordering of these order-independent requests; (b) at the quiescent point after each round the datapath (simulated BESS modules / P4Runtime switch) equals the reference image of the union of all live sessions (C03 / C04 oracle, incl. tunnel_peers / applications 'present iff used'), id bijections hold (C15 oracle); (c) after a final concurrent deletion of everything: tables empty, UE pool and TEID generator empty, UP4 id pools back to their start sizes and bookkeeping maps empty (white-box bridge), session store empty, gauge 0; (d) no agent task panics, the agent stays alive; (e) race build: the same scenarios run under the race detector; token hand-over between tasks happens inside runtime.RaceDisable sections and therefore creates no happens-before edge, so two agent goroutines touching a plain map / slice / field without a lock of their own are reported although only one of them runs at a time; reports whose both accesses are agent code (not harness probes) are violations, signature = the two accessing functions.",
		Assume: []string{"requests of different associations are order-independent by construction (distinct UE addresses / TEIDs, pools larger than the load), so 'some one-at-a-time ordering' fixes each response's cause and the final image uniquely",
			"race reports with a harness probe (bridge file, simulator goroutine) on either side are artefacts of reading white-box state at quiescence and are dropped (counted)"},
		Real: CommonReal, Simulated: CommonSim,
		Scenario: scenarioC11,
	})
}

type c11Pend struct {
	p         *Peer
	kind      string // est / mod / del
	s         *CPSession
	m         *ModSpec
	msg       message.Message
	tag       string
	pool      bool // establishment that asks the UPF for a UE address
	mayReject bool // acceptance depends on the order within the round (pool nearly exhausted)
	// aimAtWrite: (UP4) not sent with the others but at the moment the switch
	// receives a Write whose summary contains this text, which then takes 3 ms
	aimAtWrite string
	// noResp: the message is of response type (a Session Report Response saying
	// "session context not found", which makes the agent remove the session): nothing
	// comes back, the round waits a moment instead
	noResp bool
}

// delAllocPlanned counts the deletions already planned for this round whose session holds a pool address.
func delAllocPlanned(pends []*c11Pend, usesPool func(*CPSession) bool) int {
	n := 0
	for _, pe := range pends {
		if pe.kind == "del" && usesPool(pe.s) {
			n++
		}
	}
	return n
}

// scenarioC11Late: what one association's timed-out datapath request leaves
// behind must not reach another association's request. A has one RPC of an
// establishment slower than the plug-in waits (1 s); B's establishment is aimed
// at the instant A's wait ends (join timer, context deadline and B's datagram
// wake their goroutines against each other); RPC latencies differ, and the
// daemon does not apply a call that was cancelled before it got to it. B's
// accepted session must be installed completely.
func scenarioC11Late(r *Run) {
	r.FirstOnly = true
	r.Conf = DefaultBESSConf()
	r.Conf.EnableHBTimer = false
	r.Conf.ReadTimeout = 3600
	r.W.Bess.Faults.LatJit = []time.Duration{400 * time.Microsecond, 2 * time.Millisecond}[r.Ch.Choose(2, "rpcjit")]
	r.W.Bess.DropCancelled = true
	r.DrawStrategy()
	r.Sim.StepCost = 0
	a, b := r.AddPeer(), r.AddPeer()
	r.Skel("late-completion")
	r.StartAgent()
	if !r.AgentAlive() || a.Associate() == nil || b.Associate() == nil {
		r.CheckNoPanics("C11")
		return
	}
	g := NewGen(r)
	g.PlainQER = true
	for att := 0; att < 4 && r.AgentAlive() && len(r.Violations) == 0; att++ {
		sa := g.Session(a, SessShape{NQER: r.Ch.Choose(3, "nqer-a")})
		sb := g.Session(b, SessShape{NQER: r.Ch.Choose(3, "nqer-b"), ExtraPDRs: r.Ch.Choose(2, "extra-b")})
		sa.Peer, sb.Peer = a, b
		r.W.Bess.Faults.SlowNth = r.W.Bess.Calls + 1 + r.Ch.Choose(4, "slow-which")
		r.W.Bess.Faults.SlowBy = 1500 * time.Millisecond
		ma, mb := a.EstablishMsg(sa), b.EstablishMsg(sb)
		a.SendMsg(ma)
		r.Sim.RunFor(300 * time.Millisecond)
		r.W.Bess.Faults.SlowNth = 0
		if !r.AimAtTimer(900 * time.Millisecond) {
			r.Sim.RunFor(2 * time.Second)
			continue
		}
		b.SendMsg(mb)
		r.Sim.RunUntil(func() bool {
			return a.FindResponse(message.MsgTypeSessionEstablishmentResponse, ma.Sequence()) != nil &&
				b.FindResponse(message.MsgTypeSessionEstablishmentResponse, mb.Sequence()) != nil
		}, r.Sim.NowNS()+int64(10*time.Second))
		r.Sim.RunFor(2 * time.Second) // every call has come back or is gone
		r.Fault("slow-rpc-beyond-join-timeout")
		ra := a.FindResponse(message.MsgTypeSessionEstablishmentResponse, ma.Sequence())
		rb := b.FindResponse(message.MsgTypeSessionEstablishmentResponse, mb.Sequence())
		if ra == nil || rb == nil {
			if r.AgentAlive() {
				r.Violate("C11", "no-response:est:late:bess", "attempt %d: establishment of peer%d got no response (the other association's request had a datapath call slower than the join timeout)\n%s", att, map[bool]int{true: 0, false: 1}[ra == nil], strings.Join(r.Sim.BlockedTable(), "\n"))
			}
			break
		}
		ra.Used, rb.Used = true, true
		// A's session is installed as far as its calls got (by design); it is ended
		// before the image is judged
		if c, _ := CauseOf(ra.Msg); c == ie.CauseRequestAccepted {
			a.Establish2(sa, ra.Msg.(*message.SessionEstablishmentResponse))
			if dr := a.Delete(sa); !dr.Accepted {
				r.Inconclusive++
				return
			}
			delete(a.Sessions, sa.CPSEID)
		}
		cb, _ := CauseOf(rb.Msg)
		r.Op("attempt %d: A's establishment had a call slower than the join timeout; B's establishment, aimed at the end of A's wait -> cause %d", att, cb)
		if cb != ie.CauseRequestAccepted {
			r.Violate("C11", "request-rejected:est:late:bess", "attempt %d: establishment of peer1 rejected with cause %d while the other association's request was timing out at the datapath", att, cb)
			break
		}
		r.Accepted++
		b.Establish2(sb, rb.Msg.(*message.SessionEstablishmentResponse))
		r.CheckBESSImage("C11", fmt.Sprintf("attempt %d: after B's establishment that arrived when A's wait for a slow datapath call ended (A's session deleted since)", att), "late-completion:bess")
		if len(r.Violations) > 0 {
			break
		}
		if dr := b.Delete(sb); dr.Accepted {
			delete(b.Sessions, sb.CPSEID)
		}
	}
	r.CheckNoPanics("C11")
}

func scenarioC11(r *Run) {
	if r.Ch.Choose(8, "late-completion") == 1 {
		scenarioC11Late(r)
		return
	}
	r.FirstOnly = true
	up4 := r.Ch.Choose(2, "datapath") == 1
	var o UP4Opts
	// UE pool: large, or so small that a released address is handed out again at once
	pool := []string{"10.60.0.0/24", "10.60.0.0/28", "10.60.0.0/29", "10.60.0.0/30", "10.60.0.0/30"}[r.Ch.Choose(5, "pool")]
	poolSize := map[string]int{"10.60.0.0/24": 254, "10.60.0.0/28": 14, "10.60.0.0/29": 6, "10.60.0.0/30": 2}[pool]
	// RPC latency jitter lets the writes of two handlers overtake each other at the datapath
	jit := []time.Duration{0, 50 * time.Microsecond, 400 * time.Microsecond, 2 * time.Millisecond}[r.Ch.Choose(4, "rpcjit")]
	if up4 {
		o = r.DrawUP4Conf()
		r.W.P4.Faults.LatJit = jit
		if r.Ch.Choose(3, "slow-writes") == 1 {
			// now and then one Write takes several round trips longer (far inside every timeout)
			r.W.P4.Faults.SlowDen, r.W.P4.Faults.SlowBy = 8, []time.Duration{1500 * time.Microsecond, 5 * time.Millisecond}[r.Ch.Choose(2, "slow-by")]
		}
		o.UEPool = pool
	} else {
		r.Conf = DefaultBESSConf()
		r.W.Bess.Faults.LatJit = jit
		if r.Ch.Choose(3, "slow-writes") == 1 {
			r.W.Bess.Faults.SlowDen, r.W.Bess.Faults.SlowBy = 8, []time.Duration{1500 * time.Microsecond, 5 * time.Millisecond}[r.Ch.Choose(2, "slow-by")]
		}
	}
	r.Conf.CPIface.UEIPPool = pool
	r.Conf.EnableHBTimer = r.Ch.Choose(3, "hb") == 1
	if r.Conf.EnableHBTimer {
		r.Conf.HeartBeatInterval = []string{"5s", "20ms"}[r.Ch.Choose(2, "hbi")]
	}
	r.DrawStrategy()
	if r.Sim.Strat == vsim.StratRunToBlock && r.Sim.IODen == 0 && r.Ch.Choose(2, "force-preempt") == 1 {
		// run-to-block alone interleaves the handlers only at their RPCs
		r.Sim.MaxGap = 40
		r.Sim.ArmPreempt()
	}
	np := 2 + r.Ch.Choose(7, "npeers")
	for i := 0; i < np; i++ {
		r.AddPeer()
	}
	dp := "bess"
	if up4 {
		dp = "up4"
	}
	r.Skel(fmt.Sprintf("dp=%s np=%d", dp, np))
	r.StartAgent()
	if up4 {
		if !r.WaitUP4Ready() {
			r.CheckNoPanics("C11")
			return
		}
	}
	if !r.AgentAlive() {
		r.CheckNoPanics("C11")
		return
	}
	var occ0 map[string]int
	if up4 {
		a := r.Agent
		vsim.Ephemeral(func() { occ0 = a.VerifUP4Occupancy() })
	}
	// associations are set up concurrently as well; a rejection while the
	// datapath is still being initialised (UP4) is legal and retried
	for attempt := 0; ; attempt++ {
		type ap struct {
			p   *Peer
			seq uint32
		}
		var aps []ap
		for _, p := range r.Peers {
			if p.Associated {
				continue
			}
			m := p.AssocSetupMsg()
			p.SendMsg(m)
			aps = append(aps, ap{p, m.Sequence()})
		}
		if len(aps) == 0 {
			break
		}
		r.Sim.RunUntil(func() bool {
			for _, a := range aps {
				if a.p.FindResponse(message.MsgTypeAssociationSetupResponse, a.seq) == nil {
					return false
				}
			}
			return true
		}, r.Sim.NowNS()+int64(10*time.Second))
		for _, a := range aps {
			rx := a.p.FindResponse(message.MsgTypeAssociationSetupResponse, a.seq)
			if rx == nil {
				if r.AgentAlive() {
					r.Violate("C11", "no-response:assoc:"+dp, "Association Setup of peer%d (sent together with %d others) got no response\n%s", a.p.Idx, len(aps)-1, strings.Join(r.Sim.BlockedTable(), "\n"))
				}
				r.CheckNoPanics("C11")
				return
			}
			rx.Used = true
			if c, _ := CauseOf(rx.Msg); c == ie.CauseRequestAccepted {
				a.p.Associated = true
			} else if attempt >= 8 {
				r.Violate("C11", "request-rejected:assoc:"+dp, "Association Setup of peer%d still rejected with cause %d at the %d-th attempt, %d ms after the switch was initialised", a.p.Idx, c, attempt+1, attempt*200)
				return
			}
		}
		r.Sim.RunFor(200 * time.Millisecond)
	}
	g := NewGen(r)
	g.PlainQER = true
	g.UP4 = up4
	for _, k := range KnownTriggers {
		g.Avoid[k] = true
	}
	if up4 {
		g.ModKinds = []int{0, 0, 8}
	} else {
		g.ModKinds = []int{0, 0, 1, 2, 3, 4, 6, 7, 8}
	}
	shared := []*FlowSpec{g.Flow(false), g.Flow(false), g.Flow(false)}
	nShared := 1 + r.Ch.Choose(3, "nshared") // fewer filters: more sharing, more last-user / first-user collisions
	checkImage := func(ctx string) {
		if up4 {
			r.CheckUP4Image("C11", ctx, "round:up4", o)
			if len(r.Violations) == 0 {
				checkP4IDs(r, "C11", ctx)
			}
		} else {
			r.CheckBESSImage("C11", ctx, "round:bess")
		}
	}
	sessionsOf := func(p *Peer) []*CPSession {
		var out []*CPSession
		for _, s := range r.LiveSessions() {
			if s.Peer == p {
				out = append(out, s)
			}
		}
		return out
	}
	// sessions that hold an address of the UE pool (an Update PDR rewrites the
	// PDR with the address given, so the rule specs do not tell)
	holder := map[*CPSession]bool{}
	usesPool := func(s *CPSession) bool { return holder[s] }
	// one round: build one request per participating peer, send, wait, judge
	runRound := func(round int, pends []*c11Pend, serial bool) bool {
		respType := func(pe *c11Pend) uint8 { return responseTypeOf(pe.msg.MessageType()) }
		waitAll := func(ps []*c11Pend) {
			r.Sim.RunUntil(func() bool {
				for _, pe := range ps {
					if !pe.noResp && pe.p.FindResponse(respType(pe), pe.msg.Sequence()) == nil {
						return false
					}
				}
				return true
			}, r.Sim.NowNS()+int64(10*time.Second))
			for _, pe := range ps {
				if pe.noResp {
					r.Sim.RunFor(60 * time.Millisecond)
					break
				}
			}
		}
		if serial {
			for _, pe := range pends {
				pe.p.SendMsg(pe.msg)
				waitAll([]*c11Pend{pe})
			}
		} else {
			pace := r.Ch.Choose(4, "pacing")
			for _, pe := range pends {
				off := time.Duration(0)
				if pace == 1 {
					off = time.Duration(r.Ch.Choose(200, "pace-us")) * time.Microsecond
				} else if pace == 2 {
					off = time.Duration(r.Ch.Choose(4, "pace-ns")) * time.Nanosecond
				} else if pace == 3 {
					// a request arrives while another handler is several datapath writes into its own
					off = time.Duration(r.Ch.Choose(3000, "pace-us-wide")) * time.Microsecond
				}
				pe := pe
				if pe.aimAtWrite != "" {
					sent := false
					r.W.P4.OnWrite = func(sum string) time.Duration {
						if sent || !strings.Contains(sum, pe.aimAtWrite) {
							return 0
						}
						sent = true
						r.Sim.After(0, func() { pe.p.SendMsg(pe.msg) })
						r.Probe("request-aimed-at-a-write-in-flight")
						return 3 * time.Millisecond
					}
					r.Sim.After(20*time.Millisecond, func() {
						if !sent {
							sent = true
							pe.p.SendMsg(pe.msg)
						}
					})
					continue
				}
				if off == 0 {
					pe.p.SendMsg(pe.msg)
				} else {
					r.Sim.After(off, func() { pe.p.SendMsg(pe.msg) })
				}
			}
			waitAll(pends)
			r.W.P4.OnWrite = nil
			r.Probe("concurrent-rounds")
		}
		mode := "concurrent"
		if serial {
			mode = "serial"
		}
		var kinds []string
		for _, pe := range pends {
			if pe.noResp {
				r.Op("round %d %s peer%d Session Report Response (session context not found) for up=%d: the agent removes the session", round, mode, pe.p.Idx, pe.s.UPSEID)
				kinds = append(kinds, "srr")
				delete(pe.p.Sessions, pe.s.CPSEID)
				delete(holder, pe.s)
				continue
			}
			rx := pe.p.FindResponse(respType(pe), pe.msg.Sequence())
			if rx == nil {
				if r.AgentAlive() {
					r.Violate("C11", "no-response:"+pe.kind+":"+dp, "round %d (%s, %d requests in flight): %s of peer%d got no response within 10 s\n%s", round, mode, len(pends), pe.kind, pe.p.Idx, strings.Join(r.Sim.BlockedTable(), "\n"))
				}
				return false
			}
			rx.Used = true
			c, _ := CauseOf(rx.Msg)
			acc := c == ie.CauseRequestAccepted
			r.Op("round %d %s peer%d %s %s%s -> cause=%d", round, mode, pe.p.Idx, pe.kind, pe.tag, map[bool]string{true: " (UE address from the pool)", false: ""}[pe.pool], c)
			kinds = append(kinds, pe.kind)
			if !acc && pe.mayReject {
				r.Probe("establishment-refused-pool-order")
				continue
			}
			if !acc {
				if serial {
					// generator matter: the request is refused even when sent alone
					r.Probe("serial-control-rejection:" + pe.kind + ":" + pe.tag + ":" + dp)
					r.Inconclusive++
					return false
				}
				r.Violate("C11", "request-rejected:"+pe.kind+":"+pe.tag+":"+dp, "round %d: %s %s of peer%d was rejected with cause %d while %d other associations had requests in flight; sent alone the same kind of request is accepted", round, pe.kind, pe.tag, pe.p.Idx, c, len(pends)-1)
				return false
			}
			r.Accepted++
			switch pe.kind {
			case "est":
				pe.p.Establish2(pe.s, rx.Msg.(*message.SessionEstablishmentResponse))
				if pe.pool {
					holder[pe.s] = true
				}
			case "mod":
				pe.s.ApplyMod(pe.m)
			case "del":
				delete(pe.p.Sessions, pe.s.CPSEID)
				delete(holder, pe.s)
			}
		}
		sort.Strings(kinds)
		r.Skel(mode[:1] + ":" + strings.Join(kinds, ""))
		return true
	}
	rounds := 3 + r.Ch.Choose(6, "rounds")
	for round := 0; round < rounds && r.AgentAlive() && len(r.Violations) == 0; round++ {
		serial := r.Ch.Choose(8, "serial-control") == 1
		var pends []*c11Pend
		// UE pool accounting of the round: an establishment that asks for an
		// address is "sure" when the pool suffices in every order of the round's
		// requests, "maybe" when it suffices only if this round's deletions come
		// first (then a rejection is a legal outcome too), and not sent otherwise
		liveAlloc, estAlloc, delAlloc := 0, 0, 0
		for _, s := range r.LiveSessions() {
			if usesPool(s) {
				liveAlloc++
			}
		}
		// In one round in three: hand-over of a shared object. The only session
		// that uses an application filter (and its gNB) is deleted by its
		// association while another association establishes the next user of the
		// same filter and gNB - the release / allocate sequences of the shared
		// applications and tunnel_peers entries then meet.
		planned := map[*Peer]bool{}
		if r.Ch.Choose(3, "handover-of-shared-object") == 1 {
			type cand struct {
				s *CPSession
				f *FlowSpec
			}
			var cands []cand
			for _, f := range shared[:nShared] {
				var users []*CPSession
				for _, s := range r.LiveSessions() {
					if len(s.PDRs) > 0 && s.PDRs[0].SDF == f {
						users = append(users, s)
					}
				}
				if len(users) == 1 {
					cands = append(cands, cand{users[0], f})
				}
			}
			var takers []*Peer
			if len(cands) > 0 {
				c := cands[r.Ch.Choose(len(cands), "handover-which")]
				for _, p := range r.Peers {
					if p != c.s.Peer && len(sessionsOf(p)) < 3 {
						takers = append(takers, p)
					}
				}
				if len(takers) > 0 {
					b := takers[r.Ch.Choose(len(takers), "handover-to")]
					if usesPool(c.s) {
						delAlloc++
					}
					pends = append(pends, &c11Pend{p: c.s.Peer, kind: "del", s: c.s, msg: c.s.Peer.DeleteMsg(c.s.UPSEID), tag: "-"})
					ns := g.Session(b, SessShape{TEIDChoose: r.Ch.Choose(2, "choose") == 1, NQER: r.Ch.Choose(3, "nqer"), BaseSDF: c.f})
					ns.Peer = b
					if old, nf := c.s.FAR(2), ns.FAR(2); old != nil && nf != nil && old.HasOHC && nf.HasOHC {
						nf.PeerIP = old.PeerIP
					}
					taker := &c11Pend{p: b, kind: "est", s: ns, msg: b.EstablishMsg(ns), tag: fmt.Sprintf("q%d", len(ns.QERs))}
					if up4 && r.Ch.Choose(2, "aim-at-the-release") == 1 {
						// the next user's request leaves when the switch receives the Write that
						// deletes the shared applications entry (that Write is a slow one)
						taker.aimAtWrite = fmt.Sprintf("DEL:T%d", r.W.P4.ID(tApps))
					}
					pends = append(pends, taker)
					planned[c.s.Peer], planned[b] = true, true
					r.Probe("shared-object-handed-over-between-associations")
				}
			}
		}
		for _, p := range r.Peers {
			if planned[p] || r.Ch.Choose(6, "sits-out") == 1 {
				continue
			}
			mine := sessionsOf(p)
			op := r.Ch.Choose(4, "op")
			if len(mine) == 0 || (op == 0 && len(mine) < 3) {
				sh := SessShape{UEAlloc: r.Ch.Choose(2, "uealloc") == 1, TEIDChoose: r.Ch.Choose(2, "choose") == 1, NQER: r.Ch.Choose(3, "nqer")}
				if k := r.Ch.Choose(5, "appfilter"); k > 0 {
					sh.BaseSDF = shared[(k-1)%nShared]
				}
				if sh.UEAlloc && liveAlloc+estAlloc+1 > poolSize+delAllocPlanned(pends, usesPool) {
					sh.UEAlloc = false
				}
				s := g.Session(p, sh)
				s.Peer = p
				pe := &c11Pend{p: p, kind: "est", s: s, msg: p.EstablishMsg(s), tag: fmt.Sprintf("q%d", len(s.QERs))}
				if sh.UEAlloc {
					estAlloc++
					pe.pool = true
				}
				pends = append(pends, pe)
				continue
			}
			s := mine[r.Ch.Choose(len(mine), "sess")]
			if op == 3 {
				if usesPool(s) {
					delAlloc++
				}
				if !up4 && r.Ch.Choose(4, "del-by-report-response") == 1 {
					// the other way a control plane gets rid of a session: it answers a
					// (here: imagined) Session Report Request with "session context not found"
					pends = append(pends, &c11Pend{p: p, kind: "del", s: s, noResp: true, tag: "srr-not-found",
						msg: message.NewSessionReportResponse(0, 0, s.UPSEID, uint32(1+r.Ch.Choose(1<<20, "srr-seq")), 0, ie.NewCause(ie.CauseSessionContextNotFound))})
					r.Probe("session-ended-by-report-response-in-a-round")
					continue
				}
				pends = append(pends, &c11Pend{p: p, kind: "del", s: s, msg: p.DeleteMsg(s.UPSEID), tag: "-"})
				continue
			}
			m := g.Modification(s)
			if m.Empty() {
				continue
			}
			pends = append(pends, &c11Pend{p: p, kind: "mod", s: s, m: m, msg: p.ModifyMsg(s.UPSEID, m), tag: m.Tag})
		}
		if len(pends) == 0 {
			continue
		}
		// establishments beyond what the pool holds without this round's deletions may be refused
		if liveAlloc+estAlloc > poolSize {
			for _, pe := range pends {
				if pe.pool {
					pe.mayReject = true
				}
			}
			r.Probe("pool-depends-on-order-of-round")
		}
		r.Op("round %d: UE pool of %d, %d live sessions hold an address, this round asks for %d more and deletes %d holder(s)", round, poolSize, liveAlloc, estAlloc, delAlloc)
		if !runRound(round, pends, serial) {
			break
		}
		r.Sim.RunFor(2 * time.Millisecond) // quiescent point
		checkImage(fmt.Sprintf("after round %d (%d requests in flight together)", round, len(pends)))
	}
	r.CheckNoPanics("C11")
	if !r.AgentAlive() || len(r.Violations) > 0 || r.Inconclusive > 0 {
		return
	}
	// final: everything is deleted at the same instant
	var pends []*c11Pend
	for _, s := range r.LiveSessions() {
		pends = append(pends, &c11Pend{p: s.Peer, kind: "del", s: s, msg: s.Peer.DeleteMsg(s.UPSEID), tag: "-"})
	}
	if len(pends) > 0 && !runRound(rounds, pends, false) {
		r.CheckNoPanics("C11")
		return
	}
	r.Sim.RunFor(2 * time.Millisecond)
	checkImage("after the final concurrent deletion of all sessions")
	if len(r.Violations) > 0 {
		return
	}
	st, _ := r.probeAgent(nil)
	if st.poolHeld > 0 {
		r.Violate("C11", "ue-addresses-held-after-all-deleted:"+dp, "all sessions deleted, %d UE address(es) still held", st.poolHeld)
	}
	if st.teidsUsed > 0 {
		r.Violate("C11", "teids-used-after-all-deleted:"+dp, "all sessions deleted, %d TEID(s) still marked used", st.teidsUsed)
	}
	if st.stored != 0 {
		r.Violate("C11", "session-records-after-all-deleted:"+dp, "all sessions deleted, %d session record(s) left in the store", st.stored)
	}
	if st.gauge != 0 {
		r.Violate("C11", "gauge-after-all-deleted:"+dp, "all sessions deleted, pfcp_sessions gauge is %v", st.gauge)
	}
	if up4 {
		var occ map[string]int
		a := r.Agent
		vsim.Ephemeral(func() { occ = a.VerifUP4Occupancy() })
		var keys []string
		for k := range occ0 {
			keys = append(keys, k)
		}
		sort.Strings(keys)
		for _, k := range keys {
			if occ[k] != occ0[k] {
				r.Violate("C11", "up4-occupancy-after-all-deleted:"+k, "all sessions deleted: UP4 %s has size %d, %d before the first session", k, occ[k], occ0[k])
			}
		}
	}
	r.CheckNoPanics("C11")
}
