package harness

import (
	"fmt"
	"strings"
	"time"

	"github.com/omec-project/upf-epc/zzverif/vsim"
)

func init() {
	Register(&PropDef{
		ID: "C04", QuickRuns: 2400, Level: "exploration",
		Rule: "one run = seeded history over 1-4 sessions / 1-2 associations on the P4Runtime datapath (sessions sharing or not sharing gNB peers and application filters; QFI->TC map, slice id and default TC drawn per run): establishment, modifications (FAR updates: new tunnel / buffer / drop; QER and PDR updates; creations and removals, most of which UP4 refuses), deletion, optionally kill -9 of the agent at a drawn scheduler step and restart against the same switch, or a restart of the switch. After every accepted response the simulated switch is compared with the reference image: sessions_uplink / sessions_downlink / terminations_* / applications / tunnel_peers / interfaces and configured meter cells, IDs modulo a consistent bijection. Non-trivial and distinct as for C03.",
		Assume: []string{"P4Runtime Write/Read semantics as modelled in sim/vsimenv/p4.go (INSERT of an existing entry = ALREADY_EXISTS, MODIFY/DELETE of a missing one = NOT_FOUND, batches applied update by update, errors as google.rpc.Status details)",
			"the valid generators stay inside the supported IPv4 envelope; precedence <= 65000"},
		Real: CommonReal, Simulated: append(append([]string{}, CommonSim...), "P4Runtime switch (tables, meters, counters, stream channel, pipeline config served from conf/p4/bin/p4info.txt)"),
		Scenario: scenarioC04,
	})
}

// DrawUP4Conf draws the UP4 configuration knobs of a run.
func (r *Run) DrawUP4Conf() UP4Opts {
	r.Conf = DefaultUP4Conf()
	o := UP4Opts{QFIToTC: map[uint8]uint8{}, DefaultTC: uint8(r.Ch.Choose(4, "deftc")), SliceID: uint8(r.Ch.Choose(16, "slice")), UEPool: "10.60.0.0/22"}
	o.DefaultTC = (o.DefaultTC + 3) % 4 // 0 draws the shipped default (3)
	for i := 0; i < r.Ch.Choose(4, "nqfimap"); i++ {
		o.QFIToTC[[]uint8{9, 5, 1, 63}[i]] = uint8(r.Ch.Choose(4, "tc"))
	}
	r.Conf.P4rtcIface.QFIToTC = o.QFIToTC
	r.Conf.P4rtcIface.DefaultTC = o.DefaultTC
	r.Conf.P4rtcIface.SliceID = o.SliceID
	r.Conf.CPIface.UEIPPool = o.UEPool
	return o
}

// WaitUP4Ready runs until the agent has initialised the switch (interfaces installed).
func (r *Run) WaitUP4Ready() bool {
	// the interfaces INSERT is the last step of the start-up sequence; whether the
	// switch took it is the image oracle's matter, not a condition for going on
	want := fmt.Sprintf("INS:T%d", r.W.P4.ID(tIfaces))
	ready := func() bool {
		for _, w := range r.W.P4.WriteLog {
			if w.Inc == r.Inc && strings.Contains(w.Summary, want) {
				return true
			}
		}
		return false
	}
	ok := r.Sim.RunUntil(func() bool { return ready() || !r.AgentAlive() }, r.until(30*time.Second)) && r.AgentAlive() && ready()
	if ok {
		r.Sim.RunFor(20 * time.Millisecond)
	}
	return ok && r.AgentAlive()
}

func scenarioC04(r *Run) {
	r.FirstOnly = true
	o := r.DrawUP4Conf()
	r.Conf.EnableHBTimer = r.Ch.Choose(3, "hb") == 1
	r.DrawStrategy()
	r.W.P4.Faults.LatJit = []time.Duration{0, 50 * time.Microsecond, 400 * time.Microsecond}[r.Ch.Choose(3, "rpcjit")]
	if r.Ch.Choose(4, "slow-writes") == 1 {
		// a switch that applies a Write and answers it late (far inside the peer's
		// patience): the request simply takes longer
		r.W.P4.Faults.SlowDen, r.W.P4.Faults.SlowBy = 20, []time.Duration{1200 * time.Millisecond, 1600 * time.Millisecond}[r.Ch.Choose(2, "slow-by")]
	}
	if r.Ch.Choose(3, "small-arrays") == 1 {
		// few meter / counter cells: a cell is soon handed out again, also to the
		// next incarnation of the agent after a kill
		small := int64(6 + 2*r.Ch.Choose(4, "arrays"))
		for _, n := range []string{mApp, mSess, cPre, cPost} {
			r.W.P4.Resize(n, small)
		}
	}
	npeers := 1 + r.Ch.Choose(2, "npeers")
	for i := 0; i < npeers; i++ {
		r.AddPeer()
	}
	r.StartAgent()
	if !r.WaitUP4Ready() {
		r.CheckNoPanics("C04")
		if r.AgentAlive() {
			r.Violate("C04", "switch-not-initialised", "the agent did not initialise the switch within 30 s (steps=%d sync=%d exhausted=%v spin=%d)\n%s", r.Sim.Steps, r.Sim.SyncSteps, r.Sim.Exhausted, r.Sim.SpinBreaks, strings.Join(r.Sim.BlockedTable(), "\n"))
		}
		return
	}
	for _, p := range r.Peers {
		if p.AssociateRetry() == nil {
			r.Violate("C04", "no-association-response", "Association Setup got no response (strategy %v steps=%d sync=%d spin=%d)\n%s", r.Sim.Strat, r.Sim.Steps, r.Sim.SyncSteps, r.Sim.SpinBreaks, strings.Join(r.Sim.BlockedTable(), "\n"))
			return
		}
	}
	if r.Ch.Choose(6, "few-ids-left") == 1 {
		// nearly all tunnel-peer / application ids are taken: a history with a few
		// gNBs and filters reaches the end of the pools (a request that cannot get
		// an id must be refused, not installed under somebody else's id)
		keep := 1 + r.Ch.Choose(3, "ids-left")
		a := r.Agent
		vsim.Ephemeral(func() { a.VerifUP4ShrinkIDPools(keep) })
		r.Probe("few-tunnel-peer-and-application-ids-left")
	}
	g := NewGen(r)
	g.PlainQER = true
	g.UP4 = true
	g.Rateless = true
	g.DrawAvoid()
	check := func(ctx, cause string) { r.CheckUP4Image("C04", ctx, cause, o) }
	runHistory(r, g, histCfg{prop: "C04", maxOps: 3 + r.Ch.Choose(12, "nops"), allowKill: true, checkImage: check, up4: true,
		afterRestart: func() bool { return r.WaitUP4Ready() },
		beforeRestart: func() {
			// the operator may restart the agent with another slice id or UE pool:
			// what the previous incarnation installed must go all the same
			switch r.Ch.Choose(4, "reconfigure") {
			case 1:
				o.SliceID = (o.SliceID + 1 + uint8(r.Ch.Choose(14, "new-slice"))) % 16
				r.Conf.P4rtcIface.SliceID = o.SliceID
				r.Fault("restart-with-another-slice-id")
			case 2:
				o.UEPool = []string{"10.61.0.0/22", "10.60.0.0/24"}[r.Ch.Choose(2, "new-pool")]
				r.Conf.CPIface.UEIPPool = o.UEPool
				r.Fault("restart-with-another-ue-pool")
			}
		}})
	r.CheckNoPanics("C04")
	if len(r.W.P4.Invalid) > 0 {
		r.Probe("c16-invalid-writes-seen")
	}
	_ = fmt.Sprint
}
