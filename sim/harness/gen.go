package harness

import (
	"fmt"
	"net"
	"strings"
)

// Generators of valid ("supported IPv4 envelope") rules. Every generator is
// written so that choice 0 is the simplest alternative.

type Gen struct {
	ThreeQERs bool // sessions may carry three QERs per PDR (the session-wide limiter anywhere in the list)
	r *Run
	// per-run universe
	nextUE    uint32
	nextTEID  uint32
	gnbs      []net.IP
	flowSeq   int
	flowsSeen map[string]bool
	base8     []*FlowSpec // flows on 11.0.0.0/8..16 (candidates for siblings that differ in the prefix length only)
	// Avoid: known-finding triggers this run's generators stay away from, so
	// that most runs explore *past* the listed findings (DESIGN.md section 13).
	Avoid map[string]bool
	// PlainQER: QERs are non-GBR with pairwise distinct MBRs, at most two per
	// session (C03's envelope; C09 explores the rest of the QoS space)
	PlainQER bool
	// UP4: the P4 datapath supports application filters only as remote prefix / proto / port range
	UP4 bool
	// PrecBoundary: draw precedence from the boundaries of the 16-bit range (C16)
	PrecBoundary bool
	// PDIOrders: the IEs inside the PDI of plain PDRs come in varying order
	PDIOrders bool
	// Rateless: some QERs carry no rates at all (UP4 image oracle)
	Rateless bool
	// ModKinds: when set, Modification draws its kind among these only
	ModKinds []int
}

func NewGen(r *Run) *Gen {
	return &Gen{r: r, nextUE: ipU32(ip4("10.70.0.1")), nextTEID: 0x100,
		gnbs: []net.IP{ip4("198.18.1.10"), ip4("198.18.1.11"), ip4("198.18.1.12")}, Avoid: map[string]bool{}}
}

// KnownTriggers are generator switches for inputs that reach a listed known
// finding. In 3 of 4 runs each is avoided.
var KnownTriggers = []string{"up4-multi-pdr-session", "up4-far-update-leaves-tunnel-peer", "up4-update-pdr-precedence-filtered", "update-pdr-filter", "update-session-qer", "update-pdr-qer-list", "create-qer-in-modification"}

func (g *Gen) DrawAvoid() {
	for _, k := range KnownTriggers {
		g.Avoid[k] = g.c(4, "avoid-"+k) != 1
		if g.UP4 && !strings.HasPrefix(k, "up4-") {
			// the BESS-side triggers have other consequences on UP4 (mostly a
			// rejection); they are not explored there
			g.Avoid[k] = true
		}
		if !g.UP4 && strings.HasPrefix(k, "up4-") {
			g.Avoid[k] = true
		}
	}
}

func (g *Gen) c(n int, label string) int { return g.r.Ch.Choose(n, label) }

func (g *Gen) precedence() uint32 {
	if g.PrecBoundary {
		return []uint32{100, 0, 1, 2, 65533, 65534, 65535, 32768}[g.c(8, "precb")]
	}
	switch g.c(6, "prec") {
	case 0:
		return 100
	case 1:
		return 50
	case 2:
		return 200
	case 3:
		return 255
	case 4:
		return 1
	default:
		return uint32(1 + g.c(65000, "precv"))
	}
}

// Flow draws a flow description inside the C03 envelope: "permit out <proto>
// from <remote>[ port] to assigned".
func (g *Gen) Flow(wide bool) *FlowSpec {
	if len(g.base8) > 0 && g.c(6, "sibling") == 1 {
		// a sibling of an earlier filter: same address, ports and protocol, another
		// prefix length - two distinct filters, two applications
		o := g.base8[g.c(len(g.base8), "sibling-of")]
		for try := 0; try < 4; try++ {
			l := 8 + g.c(9, "sibling-plen")
			s := *o
			s.RemoteLen = l
			s.Text = strings.Replace(o.Text, fmt.Sprintf("/%d", o.RemoteLen), fmt.Sprintf("/%d", l), 1)
			key := fmt.Sprintf("%d/%d/%d/%v/%d-%d", s.RemoteIP, s.RemoteLen, s.Proto, s.HasPort, s.PortLo, s.PortHi)
			if l != o.RemoteLen && !g.flowsSeen[key] && s.Text != o.Text {
				g.flowsSeen[key] = true
				return &s
			}
		}
	}
	f := &FlowSpec{Valid: true, Dir: "out", Proto: -1, UESide: "assigned"}
	proto := "ip"
	switch g.c(4, "proto") {
	case 1:
		proto, f.Proto = "udp", 17
	case 2:
		proto, f.Proto = "tcp", 6
	case 3:
		f.Proto = 1 + g.c(254, "protonum")
		if f.Proto == 255 {
			f.Proto = 254
		}
		proto = fmt.Sprint(f.Proto)
	}
	// every flow of a run has its own remote prefix: no two PDRs of a session
	// have identical PDIs (a degenerate input the envelope excludes)
	g.flowSeq++
	f.RemoteIP, f.RemoteLen = ipU32(ip4("8.8.0.0"))+uint32(g.flowSeq), 32
	remote := u32IP(f.RemoteIP).String()
	switch g.c(4, "remote") {
	case 1:
		f.RemoteIP, f.RemoteLen = (uint32(0xAC100000)+uint32(g.flowSeq)<<8)&0xFFFFFF00, 24
		remote = fmt.Sprintf("%s/24", u32IP(f.RemoteIP))
	case 2:
		f.RemoteIP, f.RemoteLen = (uint32(0x0C000000)+uint32(g.flowSeq)<<16)&0xFFFF0000, 16
		remote = fmt.Sprintf("%s/16", u32IP(f.RemoteIP))
	case 3:
		l := 8 + g.c(25, "plen") // non-zero network address (envelope)
		base := uint32(0x0B000000) + uint32(g.flowSeq)<<16 + uint32(g.c(250, "net"))<<8
		if g.c(6, "same-base") == 1 {
			// the same network address under different prefix lengths (11.0.0.0/8,
			// 11.0.0.0/12, ...): distinct filters that differ in the mask only
			base = 0x0B000000
		}
		m := ^uint32(0) << (32 - uint(l))
		f.RemoteIP, f.RemoteLen = base&m, l
		remote = fmt.Sprintf("%s/%d", u32IP(base&m), l)
	}
	port := ""
	switch g.c(4, "port") {
	case 1:
		f.HasPort, f.PortLo, f.PortHi = true, 80, 80
		port = " 80"
	case 2:
		lo := uint16(1 + g.c(60000, "plo"))
		w := uint16(g.c(20, "pw"))
		if g.c(8, "top-of-port-space") == 1 {
			lo = 65535 - w // the range ends at the last port
		}
		f.HasPort, f.PortLo, f.PortHi = true, lo, lo+w
		port = fmt.Sprintf(" %d-%d", lo, lo+w)
	case 3:
		if wide {
			lo := uint16(1000 + g.c(1000, "plo"))
			w := uint16(100 + g.c(400, "pww"))
			f.HasPort, f.PortLo, f.PortHi = true, lo, lo+w
			port = fmt.Sprintf(" %d-%d", lo, lo+w)
		} else {
			f.HasPort, f.PortLo, f.PortHi = true, 443, 443
			port = " 443"
		}
	}
	f.Text = fmt.Sprintf("permit out %s from %s%s to assigned", proto, remote, port)
	// no two flows of a run are identical (two PDRs with the same PDI are outside the envelope)
	key := fmt.Sprintf("%d/%d/%d/%v/%d-%d", f.RemoteIP, f.RemoteLen, f.Proto, f.HasPort, f.PortLo, f.PortHi)
	if g.flowsSeen == nil {
		g.flowsSeen = map[string]bool{}
	}
	if g.flowsSeen[key] {
		f.RemoteIP, f.RemoteLen = ipU32(ip4("8.9.0.0"))+uint32(g.flowSeq), 32
		f.Text = fmt.Sprintf("permit out %s from %s%s to assigned", proto, u32IP(f.RemoteIP), port)
		key = fmt.Sprintf("%d/%d/%d/%v/%d-%d", f.RemoteIP, f.RemoteLen, f.Proto, f.HasPort, f.PortLo, f.PortHi)
	}
	g.flowsSeen[key] = true
	if f.RemoteIP == 0x0B000000 && f.RemoteLen <= 16 {
		g.base8 = append(g.base8, f)
	}
	return f
}

type SessShape struct {
	UEAlloc    bool // UP allocates the UE address
	TEIDChoose bool
	NQER       int       // 0..4
	ExtraPDRs  int       // additional filtered PDR pairs
	Wide       bool      // allow port ranges wider than 100
	BaseSDF    *FlowSpec // filter of the first PDR pair (nil: match-all)
}

// Session draws a session: one default uplink/downlink PDR pair plus optional
// filtered pairs, FARs and QERs.
func (g *Gen) Session(p *Peer, sh SessShape) *CPSession {
	s := &CPSession{CPSEID: p.NewCPSEID(), Peer: p}
	ue := u32IP(g.nextUE)
	g.nextUE++
	gnb := g.gnbs[g.c(len(g.gnbs), "gnb")]
	g.nextTEID++
	dlTEID := g.nextTEID
	// FARs: 1 uplink (to core), 2 downlink (to access, encapsulated)
	s.FARs = append(s.FARs,
		&FARSpec{ID: 1, Action: ActFORW, DstIface: IfCore, HasFwd: true},
		&FARSpec{ID: 2, Action: ActFORW, DstIface: IfAccess, HasFwd: true, HasOHC: true, TEID: dlTEID, PeerIP: gnb})
	if g.c(4, "dlact") == 1 {
		// idle-mode style: buffer + notify instead of forwarding
		s.FARs[1] = &FARSpec{ID: 2, Action: ActBUFF | ActNOCP}
	}
	if g.PlainQER && sh.NQER > 2 {
		if g.ThreeQERs && sh.NQER > 3 {
			sh.NQER = 3
		} else if !g.ThreeQERs {
			sh.NQER = 2
		}
	}
	for i := 0; i < sh.NQER; i++ {
		q := g.QER(uint32(i + 1))
		if g.PlainQER {
			q.HasGBR, q.GBRUL, q.GBRDL = false, 0, 0
			q.HasMBR, q.MBRUL, q.MBRDL = true, uint64(100000*(i+1)), uint64(200000*(i+1))
			if g.UP4 && g.Rateless && sh.NQER == 1 && g.c(3, "rateless") == 1 {
				// gate status and QFI only: unmetered
				q.HasMBR, q.MBRUL, q.MBRDL = false, 0, 0
			}
		}
		s.QERs = append(s.QERs, q)
	}
	mkPair := func(idBase uint16, prec uint32, sdf *FlowSpec, qers []uint32) {
		ul := &PDRSpec{ID: idBase, Precedence: prec, SrcIface: IfAccess, HasFTEID: true, HasUEIP: true, OHR: true, FARID: 1, QERIDs: qers, SDF: sdf}
		dl := &PDRSpec{ID: idBase + 1, Precedence: prec, SrcIface: IfCore, HasUEIP: true, FARID: 2, QERIDs: append([]uint32{}, qers...), SDF: sdf}
		if sh.TEIDChoose {
			ul.TEIDChoose = true
		} else {
			g.nextTEID++
			ul.TEID, ul.TEIDAddr = g.nextTEID, ip4(N3Addr)
		}
		if sh.UEAlloc {
			ul.UEIPAlloc, dl.UEIPAlloc = true, true
		} else {
			ul.UEIP, dl.UEIP = ue, ue
		}
		if sdf == nil && g.PDIOrders {
			// plain PDRs: the IEs of the PDI in another order now and then
			ul.PDIOrder, dl.PDIOrder = []int{0, 0, 0, 1, 2}[g.c(5, "pdi-order-ul")], []int{0, 0, 0, 1, 2}[g.c(5, "pdi-order-dl")]
		}
		s.PDRs = append(s.PDRs, ul, dl)
	}
	rot := 0
	if g.ThreeQERs && len(s.QERs) == 3 {
		// three QERs per PDR: the one that ends up as the session-wide limiter (largest
		// MBR: the last created) may stand first, in the middle or last in the lists
		rot = g.c(3, "qer-list-rotation")
	}
	qerList := func() []uint32 {
		var l []uint32
		for _, q := range s.QERs {
			l = append(l, q.ID)
		}
		for i := 0; i < rot && len(l) > 1; i++ {
			l = append([]uint32{l[len(l)-1]}, l[:len(l)-1]...)
		}
		if rot == 2 && len(l) == 3 {
			l[0], l[1] = l[1], l[0] // [1 3 2]: the limiter in the middle
		}
		return l
	}
	mkPair(1, 255, sh.BaseSDF, qerList())
	for i := 0; i < sh.ExtraPDRs; i++ {
		mkPair(uint16(3+2*i), g.precedence(), g.Flow(sh.Wide), qerList())
	}
	return s
}

func (g *Gen) rate() uint64 {
	switch g.c(8, "rate") {
	case 0:
		return 100000
	case 1:
		return 0
	case 2:
		return 1
	case 3:
		return 7
	case 4:
		return 8
	case 5:
		return (1 << 40) - 1
	case 6:
		return uint64(g.c(1<<20, "ratev"))
	default:
		return uint64(g.c(1<<30, "ratehi"))<<10 | uint64(g.c(1024, "ratelo"))
	}
}

func (g *Gen) QER(id uint32) *QERSpec {
	q := &QERSpec{ID: id, QFI: 9, HasMBR: true, MBRUL: 100000, MBRDL: 200000}
	switch g.c(4, "qfi") {
	case 1:
		q.QFI = uint8(1 + g.c(63, "qfiv"))
	case 2:
		q.QFI = 5
	case 3:
		q.QFI = 0
	}
	if g.c(3, "mbr") != 0 {
		q.MBRUL, q.MBRDL = g.rate(), g.rate()
	}
	if g.c(4, "gbr") == 1 {
		q.HasGBR = true
		q.GBRUL, q.GBRDL = g.rate(), g.rate()
		if q.GBRUL > q.MBRUL {
			q.GBRUL = q.MBRUL
		}
		if q.GBRDL > q.MBRDL {
			q.GBRDL = q.MBRDL
		}
	}
	switch g.c(6, "gate") {
	case 1:
		q.GateUL = 1
	case 2:
		q.GateDL = 1
	case 3:
		q.GateUL, q.GateDL = 1, 1
	}
	return q
}

// Modification draws one Session Modification Request for a live session,
// inside the envelope: forwarding FARs always carry complete forwarding
// parameters; PDRs always reference existing FARs / QERs.
func (g *Gen) Modification(s *CPSession) *ModSpec {
	m := &ModSpec{}
	kind := 0
	if len(g.ModKinds) > 0 {
		kind = g.ModKinds[g.c(len(g.ModKinds), "modkind")]
	} else {
		kind = g.c(9, "modkind")
	}
	switch kind {
	case 0: // update the downlink FAR: new tunnel (handover) or buffering
		f := *s.FAR(2)
		switch g.c(5, "farupd") {
		case 3, 4:
			// idle transition / gate that keeps the tunnel parameters in the FAR (Update
			// Forwarding Parameters with Outer Header Creation are legal with any action)
			if f.HasOHC && f.HasFwd {
				f.EndMarker = false
				if g.c(2, "keep-ohc-kind") == 0 {
					f.Action, m.Tag = ActBUFF|ActNOCP, "uF:buffer-keeping-tunnel"
				} else {
					f.Action, m.Tag = ActDROP, "uF:drop-keeping-tunnel"
				}
			} else {
				f = FARSpec{ID: 2, Action: ActDROP, DstIface: IfAccess, HasFwd: true}
				m.Tag = "uF:drop"
			}
		case 0:
			g.nextTEID++
			f = FARSpec{ID: 2, Action: ActFORW, DstIface: IfAccess, HasFwd: true, HasOHC: true, TEID: g.nextTEID, PeerIP: g.gnbs[g.c(len(g.gnbs), "gnb")]}
			f.EndMarker = g.c(2, "sndem") == 1
			m.Tag = "uF:tunnel"
		case 1:
			f = FARSpec{ID: 2, Action: ActBUFF | ActNOCP, DstIface: IfAccess, HasFwd: true}
			m.Tag = "uF:buffer"
		case 2:
			f = FARSpec{ID: 2, Action: ActDROP, DstIface: IfAccess, HasFwd: true}
			m.Tag = "uF:drop"
		}
		m.UpdateFAR = append(m.UpdateFAR, &f)
		if g.UP4 {
			old := s.FAR(2)
			if old != nil && old.HasOHC && (!f.HasOHC || !f.PeerIP.Equal(old.PeerIP)) {
				// the old GTP peer is no longer used by this FAR
				if g.Avoid["up4-far-update-leaves-tunnel-peer"] {
					return &ModSpec{}
				}
				m.Trigger = "up4-far-update-leaves-tunnel-peer"
			}
		}
	case 1: // add a filtered PDR pair
		maxID := uint16(0)
		for _, p := range s.PDRs {
			if p.ID > maxID {
				maxID = p.ID
			}
		}
		if maxID > 20 {
			break
		}
		var base *PDRSpec
		var baseDL *PDRSpec
		for _, p := range s.PDRs {
			if p.SrcIface == IfAccess && base == nil {
				base = p
			}
			if p.SrcIface == IfCore && baseDL == nil {
				baseDL = p
			}
		}
		if base == nil || baseDL == nil {
			break
		}
		sdf := g.Flow(false)
		prec := g.precedence()
		ul := base.clone()
		ul.ID, ul.Precedence, ul.SDF = maxID+1, prec, sdf
		dl := baseDL.clone()
		dl.ID, dl.Precedence, dl.SDF = maxID+2, prec, sdf
		// a created PDR cannot ask for a new TEID/UE address choice in a
		// modification inside the envelope: reuse what the session has
		if ul.TEIDChoose {
			ul.TEIDChoose, ul.TEID, ul.TEIDAddr = false, base.EffTEID(), ip4(N3Addr)
		}
		if ul.UEIPAlloc {
			ul.UEIPAlloc, ul.UEIP = false, u32IP(base.EffUEIP())
		}
		if dl.UEIPAlloc {
			dl.UEIPAlloc, dl.UEIP = false, u32IP(baseDL.EffUEIP())
		}
		m.CreatePDR = append(m.CreatePDR, ul, dl)
		m.Tag = "cP"
	case 2: // remove a non-default PDR pair
		var cand []uint16
		for _, p := range s.PDRs {
			if p.ID > 2 {
				cand = append(cand, p.ID)
			}
		}
		if len(cand) > 0 {
			m.RemovePDR = append(m.RemovePDR, cand[g.c(len(cand), "rmpdr")])
			m.Tag = "rP"
		}
	case 3: // update a PDR: precedence, or its filter, or its QER list
		p := s.PDRs[g.c(len(s.PDRs), "updpdr")].clone()
		if p.TEIDChoose {
			p.TEIDChoose, p.TEID, p.TEIDAddr = false, p.GotTEID, ip4(N3Addr)
		}
		if p.UEIPAlloc {
			p.UEIPAlloc, p.UEIP = false, p.GotUEIP
		}
		m.Tag = "uP:prec"
		if g.UP4 && p.SDF != nil {
			// On UP4 the priority of the applications entry follows the PDR's
			// precedence; an Update PDR of a filtered PDR reaches a listed finding
			if g.Avoid["up4-update-pdr-precedence-filtered"] {
				return &ModSpec{}
			}
			m.Trigger = "up4-update-pdr-precedence-filtered"
		}
		switch g.c(3, "updwhat") {
		case 0:
			p.Precedence = g.precedence()
		case 1:
			if p.ID > 2 && !g.Avoid["update-pdr-filter"] {
				p.SDF = g.Flow(false)
				m.Tag, m.Trigger = "uP:filter", "update-pdr-filter"
			} else {
				p.Precedence = g.precedence()
			}
		case 2:
			if len(s.QERs) > 0 && !g.Avoid["update-pdr-qer-list"] {
				p.QERIDs = []uint32{s.QERs[g.c(len(s.QERs), "qpick")].ID}
				m.Tag, m.Trigger = "uP:qers", "update-pdr-qer-list"
			} else {
				p.Precedence = g.precedence()
			}
		}
		m.UpdatePDR = append(m.UpdatePDR, p)
	case 4: // update a QER
		if len(s.QERs) > 0 {
			id := s.QERs[g.c(len(s.QERs), "updqer")].ID
			sl := g.r.sessionLevelQER(s, id)
			if g.Avoid["update-session-qer"] && sl {
				break
			}
			q := g.QER(id)
			if g.PlainQER {
				old := s.QER(id)
				q.HasGBR, q.GBRUL, q.GBRDL = false, 0, 0
				q.HasMBR, q.MBRUL, q.MBRDL = true, old.MBRUL, old.MBRDL
			}
			m.UpdateQER = append(m.UpdateQER, q)
			m.Tag = "uQ"
			if sl {
				m.Trigger = "update-session-qer"
			}
		}
	case 5: // create a QER and attach it to a new PDR pair later (unreferenced for now)
		maxID := uint32(0)
		for _, q := range s.QERs {
			if q.ID > maxID {
				maxID = q.ID
			}
		}
		if maxID < 6 && !g.Avoid["create-qer-in-modification"] {
			m.Trigger = "create-qer-in-modification"
			q := g.QER(maxID + 1)
			if g.PlainQER {
				q.HasGBR, q.GBRUL, q.GBRDL = false, 0, 0
				q.HasMBR, q.MBRUL, q.MBRDL = true, uint64(1000*(maxID+1)), uint64(2000*(maxID+1))
			}
			m.CreateQER = append(m.CreateQER, q)
			m.Tag = "cQ"
		}
	case 6: // remove an unreferenced QER
		for _, q := range s.QERs {
			used := false
			for _, p := range s.PDRs {
				for _, id := range p.QERIDs {
					if id == q.ID {
						used = true
					}
				}
			}
			if !used {
				m.RemoveQER = append(m.RemoveQER, q.ID)
				m.Tag = "rQ"
				break
			}
		}
	case 7: // create a FAR (unreferenced) / remove an unreferenced FAR
		var unref *FARSpec
		for _, f := range s.FARs {
			used := false
			for _, p := range s.PDRs {
				if p.FARID == f.ID {
					used = true
				}
			}
			if !used {
				unref = f
			}
		}
		if unref != nil {
			m.RemoveFAR = append(m.RemoveFAR, unref.ID)
			m.Tag = "rF"
		} else {
			maxID := uint32(0)
			for _, f := range s.FARs {
				if f.ID > maxID {
					maxID = f.ID
				}
			}
			m.CreateFAR = append(m.CreateFAR, &FARSpec{ID: maxID + 1, Action: ActDROP})
			m.Tag = "cF"
		}
	case 8: // the control plane moves the session to a new CP F-SEID
		m.NewCPSEID = s.Peer.NewCPSEID()
		if g.c(2, "fseid-only") == 1 {
			// nothing but the new CP F-SEID (SMF-set take-over, F-SEID re-allocation)
			m.Tag = "newCPSEID"
		} else {
			f := *s.FAR(1)
			m.UpdateFAR = append(m.UpdateFAR, &f)
			m.Tag = "newCPSEID+uF"
		}
	}
	// a session meets at most one kind of known-finding trigger, so that a
	// discrepancy is attributed to the right one
	if t, ok := g.r.Taints[s.UPSEID]; ok && m.Trigger != "" && m.Trigger != t {
		return &ModSpec{}
	}
	return m
}

// SessionFixed builds a plain session without drawing any choice (used inside
// scheduled events).
func (g *Gen) SessionFixed(p *Peer) *CPSession {
	s := &CPSession{CPSEID: p.NewCPSEID(), Peer: p}
	ue := u32IP(g.nextUE)
	g.nextUE++
	g.nextTEID += 2
	s.FARs = append(s.FARs,
		&FARSpec{ID: 1, Action: ActFORW, DstIface: IfCore, HasFwd: true},
		&FARSpec{ID: 2, Action: ActFORW, DstIface: IfAccess, HasFwd: true, HasOHC: true, TEID: g.nextTEID, PeerIP: g.gnbs[0]})
	s.PDRs = append(s.PDRs,
		&PDRSpec{ID: 1, Precedence: 255, SrcIface: IfAccess, HasFTEID: true, TEID: g.nextTEID - 1, TEIDAddr: ip4(N3Addr), HasUEIP: true, UEIP: ue, OHR: true, FARID: 1},
		&PDRSpec{ID: 2, Precedence: 255, SrcIface: IfCore, HasUEIP: true, UEIP: ue, FARID: 2})
	return s
}
