package harness

import (
	"bufio"
	"encoding/json"
	"flag"
	"fmt"
	"hash/fnv"
	"os"
	"os/exec"
	"path/filepath"
	"runtime"
	"sort"
	"strconv"
	"strings"
	"sync"
	"time"

	"github.com/omec-project/upf-epc/zzverif/vsim"
)

// PropDef registers one property's scenario family.
type PropDef struct {
	ID        string
	QuickRuns int
	Race      bool // also runs under the -race build
	RaceRuns  int  // quick tier: runs under the -race build (default QuickRuns/8)
	Variants  int  // >1: run i uses the choice stream of scenario i/Variants with variant i%Variants (fault position)
	Level     string
	Rule      string
	Assume    []string
	Real      []string
	Simulated []string
	Scenario  func(r *Run)
}

var Props = map[string]*PropDef{}

func Register(p *PropDef) { Props[p.ID] = p }

// RunResult is what a worker reports per run (one JSON line).
type RunResult struct {
	I          int            `json:"i"`
	Seed       uint64         `json:"seed"`
	Viol       []Violation    `json:"viol,omitempty"`
	LogHash    string         `json:"loghash"`
	Skel       string         `json:"skel"`
	Nontrivial bool           `json:"nontrivial"`
	Steps      uint64         `json:"steps"`
	SyncSteps  uint64         `json:"sync"`
	VirtNS     int64          `json:"virt_ns"`
	Faults     map[string]int `json:"faults,omitempty"`
	Probes     map[string]int `json:"probes,omitempty"`
	Strat      string         `json:"strat"`
	SwitchHash string         `json:"swh"`
	States     []string       `json:"states,omitempty"`
	Trace      []uint32       `json:"trace,omitempty"`
	Ops        []string       `json:"ops,omitempty"`
	Inconcl    int            `json:"inconclusive,omitempty"`
	Exhausted  bool           `json:"exhausted,omitempty"`
	WallUS     int64          `json:"wall_us"`
	RaceBuild  bool           `json:"race_build,omitempty"`
	RaceDrop   int            `json:"race_reports_harness_side,omitempty"`
	Variant    int            `json:"variant,omitempty"`
}

type ReplayFile struct {
	Prop      string   `json:"property"`
	Tier      string   `json:"tier"`
	Seed      uint64   `json:"seed"`
	Sig       string   `json:"signature"`
	Msg       string   `json:"message"`
	LogHash   string   `json:"event_log_hash"`
	Trace     []uint32 `json:"choice_trace"`
	Ops       []string `json:"operations_and_faults"`
	Note      string   `json:"note,omitempty"`
	Variant   int      `json:"variant,omitempty"`
	RaceBuild bool     `json:"race_build,omitempty"`
}

// curVariant is the variant (fault position) of the run being executed.
var curVariant int

func propHash(id string) uint64 {
	h := fnv.New64a()
	h.Write([]byte(id))
	return h.Sum64()
}

// execRun performs one run with the given choice source.
func execRun(pd *PropDef, seed uint64, tier string, ch *vsim.Choices, keepOps bool) (res RunResult) {
	t0 := time.Now()
	if vsim.RaceEnabled {
		drainRaces() // reports written between runs belong to no run
	}
	r := NewRun(pd.ID, seed, tier, ch)
	defer r.Close()
	if d := os.Getenv("UPFSIM_DUMPLOG"); d != "" {
		r.Sim.KeepLog = true
		defer func() {
			os.WriteFile(fmt.Sprintf("%s/%s-%d-%016x.log", d, pd.ID, seed, r.Sim.LogHash()), []byte(strings.Join(r.Sim.LogLines, "\n")), 0o644)
		}()
	}
	func() {
		defer func() {
			if x := recover(); x != nil {
				// a panic on the simulator goroutine is harness trouble, never a violation
				buf := make([]byte, 1<<16)
				n := runtime.Stack(buf, false)
				fmt.Fprintf(os.Stderr, "HARNESS PANIC prop=%s seed=%d: %v\n%s\n", pd.ID, seed, x, buf[:n])
				os.Exit(2)
			}
		}()
		pd.Scenario(r)
	}()
	res.Seed = seed
	res.Viol = r.Violations
	if vsim.RaceEnabled {
		res.RaceBuild = true
		rv, dropped := raceViolations(pd.ID, drainRaces())
		res.RaceDrop = dropped
		seen := map[string]bool{}
		for _, v := range rv {
			if !seen[v.Sig] {
				seen[v.Sig] = true
				res.Viol = append(res.Viol, v)
			}
		}
	}
	res.LogHash = fmt.Sprintf("%016x", r.Sim.LogHash())
	h := fnv.New64a()
	for _, s := range r.skel {
		h.Write([]byte(s))
		h.Write([]byte{0})
	}
	res.Skel = fmt.Sprintf("%016x", h.Sum64())
	nf := 0
	for _, v := range r.Faults {
		nf += v
	}
	res.Nontrivial = r.Accepted > 0 && (nf > 0 || r.Sim.Preempts > 0 || r.Sim.Switches > 20)
	res.Steps, res.SyncSteps, res.VirtNS = r.Sim.Steps, r.Sim.SyncSteps, r.Sim.NowNS()
	res.Faults, res.Probes = r.Faults, r.Probes
	for k, v := range r.W.Net.Stats {
		if v > 0 && (strings.HasPrefix(k, "drop") || strings.HasPrefix(k, "dup") || strings.HasPrefix(k, "delay") || k == "econnrefused" || strings.HasPrefix(k, "filtered")) {
			res.Faults["net-"+k] += v
		}
	}
	for k, v := range r.W.Bess.Fired {
		res.Faults[k] += v
	}
	for k, v := range r.W.P4.Fired {
		res.Faults[k] += v
	}
	if r.Sim.Preempts > 0 {
		res.Probes["statement-level-preemptions"] += r.Sim.Preempts
	}
	if r.Sim.IOSwitches > 0 {
		res.Probes["io-point-switches"] += r.Sim.IOSwitches
	}
	if r.Sim.SpinBreaks > 0 {
		res.Probes["spin-breaks"] += r.Sim.SpinBreaks
	}
	res.Strat = r.Sim.Strat.String()
	res.SwitchHash = fmt.Sprintf("%016x", r.Sim.SwitchHash())
	for k := range r.stateHashes {
		res.States = append(res.States, fmt.Sprintf("%x", k))
	}
	sort.Strings(res.States)
	res.Inconcl = r.Inconclusive
	res.Exhausted = r.Sim.Exhausted
	if keepOps || len(res.Viol) > 0 {
		res.Trace = append([]uint32{}, ch.Trace...)
		res.Ops = r.Ops
	}
	res.WallUS = time.Since(t0).Microseconds()
	return
}

// ---------------------------------------------------------------- worker

func cmdWorker(args []string) int {
	fs := flag.NewFlagSet("worker", flag.ExitOnError)
	prop := fs.String("prop", "", "")
	seed := fs.Uint64("seed", 1, "")
	from := fs.Int("from", 0, "")
	to := fs.Int("to", 0, "")
	stride := fs.Int("stride", 1, "")
	tier := fs.String("tier", "quick", "")
	deadline := fs.Int64("deadline", 0, "unix seconds; stop starting runs after this (0 = none)")
	sample := fs.Int("sample", 97, "keep trace+ops of every n-th run")
	fs.Parse(args)
	pd := Props[*prop]
	if pd == nil {
		fmt.Fprintln(os.Stderr, "unknown property", *prop)
		return 2
	}
	out := bufio.NewWriter(os.Stdout)
	defer out.Flush()
	enc := json.NewEncoder(out)
	for i := *from; i < *to; i += *stride {
		if *deadline != 0 && time.Now().Unix() >= *deadline {
			break
		}
		scen, variant := i, 0
		if pd.Variants > 1 {
			scen, variant = i/pd.Variants, i%pd.Variants
		}
		rs := vsim.Mix(*seed, propHash(pd.ID), uint64(scen))
		curVariant = variant
		res := execRun(pd, rs, *tier, vsim.NewChoices(rs), i%*sample == 0)
		res.Variant = variant
		res.I = i
		enc.Encode(res)
		out.Flush()
	}
	return 0
}

// ---------------------------------------------------------------- replay

func loadReplay(path string) (*ReplayFile, error) {
	b, err := os.ReadFile(path)
	if err != nil {
		return nil, err
	}
	var rf ReplayFile
	if err := json.Unmarshal(b, &rf); err != nil {
		return nil, err
	}
	return &rf, nil
}

// cmdReplay re-executes a replay file. Exit 1 + VIOLATION line when the same
// signature and the same event-log hash recur; 0 when the run is clean; 2 when
// the file does not reproduce what it claims.
func cmdReplay(args []string) int {
	fs := flag.NewFlagSet("replay", flag.ExitOnError)
	file := fs.String("file", "", "")
	verbose := fs.Bool("v", false, "print operations")
	quiet := fs.Bool("q", false, "")
	asJSON := fs.Bool("json", false, "print the run result as JSON (used by the minimiser)")
	fs.Parse(args)
	if *file == "" && fs.NArg() > 0 {
		*file = fs.Arg(0)
	}
	rf, err := loadReplay(*file)
	if err != nil {
		fmt.Fprintln(os.Stderr, "replay:", err)
		return 2
	}
	if rf.RaceBuild && !vsim.RaceEnabled {
		// found under the race detector: replay with the race build next to this binary
		self, _ := os.Executable()
		rb := filepath.Join(filepath.Dir(self), "upfsim-race")
		if _, err := os.Stat(rb); err != nil {
			fmt.Fprintln(os.Stderr, "replay: needs the race build:", err)
			return 2
		}
		cmd := exec.Command(rb, append([]string{"replay"}, args...)...)
		cmd.Stdout, cmd.Stderr = os.Stdout, os.Stderr
		cmd.Env = append(os.Environ(), "GORACE=halt_on_error=0 exitcode=0 log_path="+raceLogPrefix())
		err := cmd.Run()
		if ee, ok := err.(*exec.ExitError); ok {
			return ee.ExitCode()
		} else if err != nil {
			return 2
		}
		return 0
	}
	pd := Props[rf.Prop]
	if pd == nil {
		fmt.Fprintln(os.Stderr, "replay: unknown property", rf.Prop)
		return 2
	}
	curVariant = rf.Variant
	res := execRun(pd, rf.Seed, rf.Tier, vsim.ReplayChoices(rf.Trace), true)
	if *asJSON {
		json.NewEncoder(os.Stdout).Encode(res)
		return 0
	}
	if *verbose {
		for _, o := range res.Ops {
			fmt.Println("  ", o)
		}
	}
	same := false
	for _, v := range res.Viol {
		if v.Prop == rf.Prop && (v.Sig == rf.Sig || raceSigCompatible(v.Sig, rf.Sig)) {
			same = true
		}
	}
	if len(res.Viol) == 0 {
		if !*quiet {
			fmt.Printf("replay: no violation (expected %s)\n", rf.Sig)
		}
		if rf.Sig == "" {
			return 0
		}
		return 0
	}
	if same {
		abs, _ := filepath.Abs(*file)
		if rf.LogHash != "" && rf.LogHash != res.LogHash {
			fmt.Fprintf(os.Stderr, "replay: signature reproduced but event-log hash differs (%s vs %s)\n", res.LogHash, rf.LogHash)
			return 2
		}
		if !*quiet {
			fmt.Printf("VIOLATION property=%s replay=%s\n", rf.Prop, abs)
			fmt.Printf("  signature: %s\n  %s\n", rf.Sig, firstLines(rf.Msg, 12))
		}
		return 1
	}
	fmt.Fprintf(os.Stderr, "replay: different violation(s): %v (expected %s)\n", sigs(res.Viol), rf.Sig)
	return 2
}

func sigs(v []Violation) []string {
	var o []string
	for _, x := range v {
		o = append(o, x.Prop+":"+x.Sig)
	}
	return o
}

func firstLines(s string, n int) string {
	l := strings.Split(s, "\n")
	if len(l) > n {
		l = l[:n]
	}
	return strings.Join(l, "\n  ")
}

// ---------------------------------------------------------------- shrink

// shrinkTrace minimises a failing choice trace: delete spans, zero spans, lower
// values; a candidate is kept iff the same violation signature recurs.
func shrinkTrace(pd *PropDef, rf *ReplayFile, budget time.Duration) (*ReplayFile, int) {
	deadline := time.Now().Add(budget)
	attempts := 0
	best := append([]uint32{}, rf.Trace...)
	bestRes := RunResult{}
	try := func(cand []uint32) bool {
		if time.Now().After(deadline) {
			return false
		}
		attempts++
		curVariant = rf.Variant
		var res RunResult
		if strings.HasPrefix(rf.Sig, "data-race:") {
			// the race runtime reports one pair of accesses once per process:
			// every attempt needs a fresh process
			res = execExternal(rf, cand)
		} else {
			res = execRun(pd, rf.Seed, rf.Tier, vsim.ReplayChoices(cand), true)
		}
		for _, v := range res.Viol {
			if v.Prop == rf.Prop && v.Sig == rf.Sig {
				// normalise: the trace actually consumed
				best = append([]uint32{}, res.Trace...)
				// drop trailing zeros (replay pads with zeros)
				for len(best) > 0 && best[len(best)-1] == 0 {
					best = best[:len(best)-1]
				}
				bestRes = res
				return true
			}
		}
		return false
	}
	if !try(best) {
		return rf, attempts // does not reproduce in-process; keep as is
	}
	improved := true
	for improved && time.Now().Before(deadline) {
		improved = false
		// 1. delete spans (large to small)
		for size := len(best) / 2; size >= 1; size /= 2 {
			for start := 0; start+size <= len(best); {
				cand := append(append([]uint32{}, best[:start]...), best[start+size:]...)
				if try(cand) {
					improved = true
				} else {
					start += size
				}
				if time.Now().After(deadline) {
					break
				}
			}
		}
		// 2. zero spans
		for size := len(best) / 2; size >= 1; size /= 2 {
			for start := 0; start+size <= len(best); start += size {
				allZero := true
				for _, v := range best[start : start+size] {
					if v != 0 {
						allZero = false
					}
				}
				if allZero {
					continue
				}
				cand := append([]uint32{}, best...)
				for k := start; k < start+size; k++ {
					cand[k] = 0
				}
				if try(cand) {
					improved = true
				}
				if time.Now().After(deadline) {
					break
				}
			}
		}
		// 3. lower single values
		for i := 0; i < len(best) && time.Now().Before(deadline); i++ {
			for best[i] > 0 {
				cand := append([]uint32{}, best...)
				cand[i] = best[i] / 2
				if !try(cand) {
					cand[i] = best[i] - 1
					if !try(cand) {
						break
					}
				}
				improved = true
				if i >= len(best) {
					break
				}
			}
		}
	}
	out := *rf
	out.Trace = best
	if bestRes.LogHash != "" {
		out.LogHash = bestRes.LogHash
		out.Ops = bestRes.Ops
		for _, v := range bestRes.Viol {
			if v.Prop == rf.Prop && v.Sig == rf.Sig {
				out.Msg = v.Msg
			}
		}
	}
	return &out, attempts
}

func cmdShrink(args []string) int {
	fs := flag.NewFlagSet("shrink", flag.ExitOnError)
	file := fs.String("file", "", "")
	outp := fs.String("out", "", "")
	budget := fs.Duration("budget", 45*time.Second, "")
	fs.Parse(args)
	rf, err := loadReplay(*file)
	if err != nil {
		fmt.Fprintln(os.Stderr, "shrink:", err)
		return 2
	}
	pd := Props[rf.Prop]
	if pd == nil {
		return 2
	}
	n0 := len(rf.Trace)
	min, attempts := shrinkTrace(pd, rf, *budget)
	min.Note = fmt.Sprintf("minimised from %d to %d choices in %d attempts", n0, len(min.Trace), attempts)
	if *outp == "" {
		*outp = *file
	}
	if err := writeJSON(*outp, min); err != nil {
		fmt.Fprintln(os.Stderr, "shrink:", err)
		return 2
	}
	fmt.Println(min.Note)
	return 0
}

// execExternal replays cand in a fresh process of this binary and returns its result.
func execExternal(rf *ReplayFile, cand []uint32) (res RunResult) {
	self, _ := os.Executable()
	tmp, err := os.CreateTemp("", "upfsim-cand-*.json")
	if err != nil {
		return
	}
	tmp.Close()
	defer os.Remove(tmp.Name())
	c := *rf
	c.Trace = cand
	c.LogHash = ""
	if writeJSON(tmp.Name(), &c) != nil {
		return
	}
	cmd := exec.Command(self, "replay", "-json", "-file", tmp.Name())
	cmd.Env = append(os.Environ(), "GORACE=halt_on_error=0 exitcode=0 log_path="+raceLogPrefix())
	out, _ := cmd.Output()
	json.Unmarshal(out, &res)
	return
}

func writeJSON(path string, v any) error {
	b, err := json.MarshalIndent(v, "", " ")
	if err != nil {
		return err
	}
	tmp := path + ".tmp"
	if err := os.WriteFile(tmp, append(b, '\n'), 0o644); err != nil {
		return err
	}
	return os.Rename(tmp, path)
}

// ---------------------------------------------------------------- known findings

type KnownFinding struct {
	Property  string `json:"property"`
	Signature string `json:"signature"`
	Status    string `json:"status"` // open | fixed
	What      string `json:"what"`
	Replay    string `json:"replay,omitempty"`
	Commit    string `json:"commit,omitempty"`
}

func loadKnown(path string) []KnownFinding {
	f, err := os.Open(path)
	if err != nil {
		return nil
	}
	defer f.Close()
	var out []KnownFinding
	sc := bufio.NewScanner(f)
	sc.Buffer(make([]byte, 1<<20), 1<<20)
	for sc.Scan() {
		line := strings.TrimSpace(sc.Text())
		if line == "" || strings.HasPrefix(line, "#") {
			continue
		}
		var k KnownFinding
		if json.Unmarshal([]byte(line), &k) == nil {
			out = append(out, k)
		}
	}
	return out
}

// ---------------------------------------------------------------- check (coordinator)

func verifDir() string {
	if d := os.Getenv("VERIF_DIR"); d != "" {
		return d
	}
	return "/verif"
}

func cmdCheck(args []string) int {
	fs := flag.NewFlagSet("check", flag.ExitOnError)
	prop := fs.String("prop", "", "")
	tier := fs.String("tier", "", "")
	runs := fs.Int("runs", 0, "override number of runs (quick)")
	secs := fs.Int("secs", 0, "thorough: wall-clock budget")
	workers := fs.Int("workers", 0, "")
	fs.Parse(args)
	if *tier == "" {
		*tier = os.Getenv("VERIF_TIER")
	}
	if *tier == "" {
		*tier = "quick"
	}
	pd := Props[*prop]
	if pd == nil {
		fmt.Fprintln(os.Stderr, "check: unknown property", *prop)
		return 2
	}
	seed := uint64(1)
	if s := os.Getenv("VERIF_SEED"); s != "" {
		if v, err := strconv.ParseInt(s, 10, 64); err == nil {
			seed = uint64(v)
		}
	}
	nw := *workers
	if nw == 0 {
		nw = runtime.NumCPU()
		if nw > 16 {
			nw = 16
		}
	}
	n := pd.QuickRuns
	if *runs > 0 {
		n = *runs
	}
	var deadline int64
	if *tier == "thorough" {
		b := 600
		if s := os.Getenv("VERIF_THOROUGH_SECS"); s != "" {
			if v, err := strconv.Atoi(s); err == nil {
				b = v
			}
		}
		if *secs > 0 {
			b = *secs
		}
		deadline = time.Now().Unix() + int64(b)
		n = 1 << 30
	}
	t0 := time.Now()
	self, _ := os.Executable()
	var mu sync.Mutex
	var results []RunResult
	var wg sync.WaitGroup
	harnessTrouble := false
	var deadlineNow int64 // deadline of the phase being run
	runWorker := func(bin string, from, to, stride int, extra ...string) {
		defer wg.Done()
		a := []string{"worker", "-prop", pd.ID, "-seed", strconv.FormatUint(seed, 10), "-from", strconv.Itoa(from), "-to", strconv.Itoa(to),
			"-stride", strconv.Itoa(stride), "-tier", *tier, "-deadline", strconv.FormatInt(deadlineNow, 10)}
		a = append(a, extra...)
		cmd := exec.Command(bin, a...)
		cmd.Stderr = os.Stderr
		cmd.Env = append(os.Environ(), "GORACE=halt_on_error=0 exitcode=0 log_path="+raceLogPrefix())
		stdout, err := cmd.StdoutPipe()
		if err != nil || cmd.Start() != nil {
			mu.Lock()
			harnessTrouble = true
			mu.Unlock()
			return
		}
		sc := bufio.NewScanner(stdout)
		sc.Buffer(make([]byte, 1<<24), 1<<24)
		for sc.Scan() {
			var rr RunResult
			if json.Unmarshal(sc.Bytes(), &rr) == nil {
				mu.Lock()
				results = append(results, rr)
				mu.Unlock()
			}
		}
		if err := cmd.Wait(); err != nil {
			fmt.Fprintf(os.Stderr, "check: worker failed: %v\n", err)
			mu.Lock()
			harnessTrouble = true
			mu.Unlock()
		}
	}
	// Workers take interleaved indices (stride) and are recycled in chunks so
	// that goroutines leaked by killed incarnations stay bounded.
	runPhase := func(bin string, n int, dl int64, chunk int) {
		deadlineNow = dl
		for base := 0; base < n; base += chunk {
			if dl != 0 && time.Now().Unix() >= dl {
				break
			}
			end := base + chunk
			if end > n {
				end = n
			}
			for w := 0; w < nw; w++ {
				wg.Add(1)
				go runWorker(bin, base+w, end, nw)
			}
			wg.Wait()
			if harnessTrouble {
				break
			}
		}
	}
	selfRace := ""
	if pd.Race && !vsim.RaceEnabled {
		selfRace = filepath.Join(filepath.Dir(self), "upfsim-race")
		if _, err := os.Stat(selfRace); err != nil {
			fmt.Fprintln(os.Stderr, "check: the race build is missing:", err)
			return 2
		}
	}
	deadlineA := deadline
	if deadline != 0 && selfRace != "" {
		// thorough: 60 % of the budget for the plain build, 40 % under the race detector
		deadlineA = t0.Unix() + (deadline-t0.Unix())*6/10
	}
	runPhase(self, n, deadlineA, 250*nw)
	nPlain := len(results)
	if selfRace != "" && !harnessTrouble {
		nr := pd.RaceRuns
		if nr == 0 {
			nr = pd.QuickRuns / 8
		}
		if *runs > 0 {
			nr = *runs / 4
		}
		if deadline != 0 {
			nr = 1 << 30
		}
		runPhase(selfRace, nr, deadline, 60*nw)
	}
	nRace := len(results) - nPlain
	if harnessTrouble {
		fmt.Fprintln(os.Stderr, "check: harness trouble (worker crashed / watchdog); no verdict")
		return 2
	}
	sort.SliceStable(results, func(i, j int) bool {
		if results[i].RaceBuild != results[j].RaceBuild {
			return !results[i].RaceBuild
		}
		return results[i].I < results[j].I
	})
	// the race build must make exactly the same runs as the plain build
	crossMismatch := 0
	if nRace > 0 {
		plainHash := map[int]string{}
		for _, rr := range results[:nPlain] {
			plainHash[rr.I] = rr.LogHash
		}
		for _, rr := range results[nPlain:] {
			if h, ok := plainHash[rr.I]; ok && h != rr.LogHash {
				crossMismatch++
				fmt.Fprintf(os.Stderr, "check: NONDETERMINISM run %d: plain build %s, race build %s\n", rr.I, h, rr.LogHash)
			}
		}
	}
	if crossMismatch > 0 {
		fmt.Fprintln(os.Stderr, "check: race build and plain build disagree on the event log; no verdict")
		return 2
	}

	// determinism recheck: re-execute ~2% of the runs in a fresh process
	recheckRuns, recheckMismatch := 0, 0
	if len(results) > 0 {
		step := 50
		var first []RunResult
		for k := 0; k < nPlain; k += step {
			first = append(first, results[k])
		}
		if len(first) > 200 {
			first = first[:200]
		}
		var again []RunResult
		var mu2 sync.Mutex
		var wg2 sync.WaitGroup
		sem := make(chan struct{}, nw)
		for _, fr := range first {
			wg2.Add(1)
			sem <- struct{}{}
			go func(i int) {
				defer wg2.Done()
				defer func() { <-sem }()
				cmd := exec.Command(self, "worker", "-prop", pd.ID, "-seed", strconv.FormatUint(seed, 10), "-from", strconv.Itoa(i), "-to", strconv.Itoa(i+1), "-tier", *tier)
				cmd.Env = append(os.Environ(), "GORACE=halt_on_error=0 exitcode=0 log_path="+raceLogPrefix())
				out, err := cmd.Output()
				if err != nil {
					return
				}
				var rr RunResult
				if json.Unmarshal(out, &rr) == nil {
					mu2.Lock()
					again = append(again, rr)
					mu2.Unlock()
				}
			}(fr.I)
		}
		wg2.Wait()
		byI := map[int]RunResult{}
		for _, a := range again {
			byI[a.I] = a
		}
		for _, fr := range first {
			a, ok := byI[fr.I]
			if !ok {
				continue
			}
			recheckRuns++
			if a.LogHash != fr.LogHash || len(a.Viol) != len(fr.Viol) {
				recheckMismatch++
				fmt.Fprintf(os.Stderr, "check: NONDETERMINISM run %d: %s vs %s\n", fr.I, fr.LogHash, a.LogHash)
			}
		}
	}
	if recheckMismatch > 0 {
		fmt.Fprintln(os.Stderr, "check: determinism recheck failed; no verdict")
		return 2
	}

	// violations by signature
	known := loadKnown(filepath.Join(verifDir(), "known_findings.jsonl"))
	type vio struct {
		v   Violation
		run RunResult
		cnt int
	}
	bySig := map[string]*vio{}
	var order []string
	otherProps := map[string]int{}
	for _, rr := range results {
		for _, v := range rr.Viol {
			if v.Prop != pd.ID {
				otherProps[v.Prop+":"+v.Sig]++
				continue
			}
			if x, ok := bySig[v.Sig]; ok {
				x.cnt++
				if len(rr.Trace) < len(x.run.Trace) && len(rr.Trace) > 0 {
					x.run, x.v = rr, v
				}
				continue
			}
			bySig[v.Sig] = &vio{v: v, run: rr, cnt: 1}
			order = append(order, v.Sig)
		}
	}
	sort.Strings(order)
	exit := 0
	var knownSeen []string
	var newViol []string
	os.MkdirAll(filepath.Join(verifDir(), "replays"), 0o755)
	for _, sig := range order {
		x := bySig[sig]
		isKnown := false
		for _, k := range known {
			if k.Property == pd.ID && k.Signature == sig && k.Status == "open" {
				isKnown = true
				fmt.Printf("KNOWN-FINDING: property=%s %s [%s] (seen in %d runs)\n", pd.ID, k.What, sig, x.cnt)
				knownSeen = append(knownSeen, sig)
			}
		}
		if isKnown {
			continue
		}
		// new violation: write, minimise, confirm by replay in a fresh process
		h := fnv.New32a()
		h.Write([]byte(sig))
		path := filepath.Join(verifDir(), "replays", fmt.Sprintf("%s-%d-%08x.json", pd.ID, seed, h.Sum32()))
		rf := &ReplayFile{Prop: pd.ID, Tier: *tier, Seed: x.run.Seed, Sig: sig, Msg: x.v.Msg, LogHash: x.run.LogHash, Trace: x.run.Trace, Ops: x.run.Ops, Variant: x.run.Variant, RaceBuild: x.run.RaceBuild}
		bin := self
		if x.run.RaceBuild && selfRace != "" {
			bin = selfRace
		}
		if err := writeJSON(path, rf); err != nil {
			fmt.Fprintln(os.Stderr, "check:", err)
			return 2
		}
		budget := "20s"
		if *tier == "thorough" {
			budget = "90s"
		}
		if len(newViol) >= 6 {
			// many signatures at once (one root cause seen through many inputs):
			// the first six are minimised thoroughly, the rest briefly
			budget = "2s"
		}
		sh := exec.Command(bin, "shrink", "-file", path, "-budget", budget)
		sh.Stderr = os.Stderr
		sh.Env = append(os.Environ(), "GORACE=halt_on_error=0 exitcode=0 log_path="+raceLogPrefix())
		if err := sh.Run(); err != nil {
			// keep the un-minimised trace
			writeJSON(path, rf)
		}
		rp := exec.Command(bin, "replay", "-q", "-file", path)
		rp.Env = append(os.Environ(), "GORACE=halt_on_error=0 exitcode=0 log_path="+raceLogPrefix())
		err := rp.Run()
		code := 0
		if ee, ok := err.(*exec.ExitError); ok {
			code = ee.ExitCode()
		} else if err != nil {
			code = 2
		}
		if code != 1 {
			// minimised file does not replay: fall back to the original trace
			writeJSON(path, rf)
			rp2 := exec.Command(bin, "replay", "-q", "-file", path)
			rp2.Env = append(os.Environ(), "GORACE=halt_on_error=0 exitcode=0 log_path="+raceLogPrefix())
			err2 := rp2.Run()
			code = 0
			if ee, ok := err2.(*exec.ExitError); ok {
				code = ee.ExitCode()
			} else if err2 != nil {
				fmt.Fprintf(os.Stderr, "check: cannot run the replay: %v\n", err2)
				return 2
			}
			if code != 1 {
				fmt.Fprintf(os.Stderr, "check: violation %s does not replay in a fresh process (exit %d); withheld\n", sig, code)
				return 2
			}
		}
		fmt.Printf("VIOLATION property=%s replay=%s\n", pd.ID, path)
		fmt.Printf("  signature: %s (seen in %d runs)\n  %s\n", sig, x.cnt, firstLines(x.v.Msg, 14))
		newViol = append(newViol, sig)
		exit = 1
	}
	// every listed open finding of the property gets its line, also when this
	// batch of runs did not reach it
	for _, k := range known {
		if k.Property != pd.ID || k.Status != "open" {
			continue
		}
		seen := false
		for _, sg := range knownSeen {
			seen = seen || sg == k.Signature
		}
		if !seen {
			fmt.Printf("KNOWN-FINDING: property=%s %s [%s] (listed; not reached by this batch of runs)\n", pd.ID, k.What, k.Signature)
		}
	}
	wall := time.Since(t0).Seconds()
	if err := writeEvidence(pd, *tier, seed, results, wall, len(newViol), knownSeen, recheckRuns, recheckMismatch, otherProps); err != nil {
		fmt.Fprintln(os.Stderr, "check: evidence:", err)
		return 2
	}
	if fl, _ := filepath.Glob(raceLogPrefix() + ".*"); len(fl) > 0 {
		for _, f := range fl {
			os.Remove(f)
		}
	}
	fmt.Printf("check %s %s: %d runs (%d of them under the race detector), %d new violation signature(s), %d known finding(s), %.1fs\n", pd.ID, *tier, len(results), nRace, len(newViol), len(knownSeen), wall)
	return exit
}

func raceLogPrefix() string {
	return filepath.Join(os.TempDir(), "upfsim-race-"+strconv.Itoa(os.Getpid()))
}

// ---------------------------------------------------------------- evidence

func writeEvidence(pd *PropDef, tier string, seed uint64, results []RunResult, wall float64, nviol int, knownSeen []string,
	recheckRuns, recheckMismatch int, other map[string]int) error {
	skels := map[string]bool{}
	inter := map[string]bool{}
	states := map[string]bool{}
	faults := map[string]int{}
	probes := map[string]int{}
	strats := map[string]int{}
	var steps, virt uint64
	inconcl, exhausted := 0, 0
	var samples []any
	for _, r := range results {
		if r.Nontrivial {
			skels[r.Skel] = true
		}
		inter[r.SwitchHash] = true
		for _, s := range r.States {
			states[s] = true
		}
		for k, v := range r.Faults {
			faults[k] += v
		}
		for k, v := range r.Probes {
			probes[k] += v
		}
		strats[r.Strat]++
		steps += r.Steps + r.SyncSteps
		virt += uint64(r.VirtNS)
		inconcl += r.Inconcl
		if r.Exhausted {
			exhausted++
		}
		if len(r.Ops) > 0 && len(samples) < 3 {
			ops := r.Ops
			if len(ops) > 60 {
				ops = append(append([]string{}, ops[:60]...), fmt.Sprintf("... (%d more)", len(r.Ops)-60))
			}
			samples = append(samples, map[string]any{"run": r.I, "seed": r.Seed, "strategy": r.Strat, "choices": len(r.Trace), "operations_and_faults": ops})
		}
	}
	if len(samples) == 0 {
		samples = append(samples, "no run kept its trace (too few runs)")
	}
	ev := map[string]any{
		"property_id": pd.ID,
		"tier":        tier,
		"seed":        int64(seed),
		"level":       pd.Level,
		"wall_s":      wall,
		"violations":  nviol,
		"assumptions": pd.Assume,
		"coverage": map[string]any{
			"evaluations":                    len(results),
			"distinct_nontrivial":            len(skels),
			"rule":                           pd.Rule,
			"samples":                        samples,
			"runs_per_hour":                  int(float64(len(results)) / wall * 3600),
			"simulated_seconds":              float64(virt) / 1e9,
			"steps":                          steps,
			"fault_fired":                    faults,
			"strategies":                     strats,
			"distinct_interleavings":         len(inter),
			"distinct_states":                len(states),
			"probes":                         probes,
			"components":                     map[string]any{"real": pd.Real, "simulated": pd.Simulated},
			"determinism_recheck":            map[string]int{"runs": recheckRuns, "mismatches": recheckMismatch},
			"known_findings_seen":            knownSeen,
			"inconclusive":                   inconcl,
			"step_budget_exhausted":          exhausted,
			"other_property_violations_seen": other,
		},
	}
	if pd.Race {
		nr, drop := 0, 0
		for _, r := range results {
			if r.RaceBuild {
				nr++
				drop += r.RaceDrop
			}
		}
		ev["coverage"].(map[string]any)["race_detector"] = map[string]any{
			"runs_under_race_build":        nr,
			"harness_side_reports_dropped": drop,
			"note":                         "same scenarios and choice streams as the plain build (event-log hashes compared); token hand-over inside RaceDisable sections creates no happens-before edge between agent goroutines",
		}
	}
	if x := os.Getenv("UPFSIM_EXTRA_COVERAGE"); x != "" {
		var extra map[string]any
		if json.Unmarshal([]byte(x), &extra) == nil {
			for k, v := range extra {
				ev["coverage"].(map[string]any)[k] = v
			}
		}
	}
	os.MkdirAll(filepath.Join(verifDir(), "evidence"), 0o755)
	return writeJSON(filepath.Join(verifDir(), "evidence", pd.ID+".json"), ev)
}

var (
	CommonReal = []string{"pfcpiface (all of it, entered through NewPFCPIface/Run/Stop, source-instrumented)", "pfcpiface/metrics", "logger (nop core, Fatal -> recorded exit)",
		"go-pfcp", "gopacket", "protobuf (messages marshalled across the simulated gRPC boundary)", "prometheus client", "golang-set", "zap"}
	CommonSim = []string{"goroutine scheduler (token scheduler, seeded)", "wall clock and all timers", "UDP stack with SO_REUSEPORT demultiplexing", "gRPC transport",
		"BESS daemon lookup modules (pdrLookup, farLookup, appQERLookup, sessionQERLookup, sliceMeter)", "unix sockets (notify, end marker)", "HTTP listener", "interface/DNS lookups",
		"PRNG source", "control-plane peers (SMF/SPGW-C models)"}
)
