#!/bin/bash
# Run once after a fresh restore, offline: builds the instrumenter and both
# simulator binaries from files on disk (warms the Go build cache, including
# the race-enabled standard library).
set -e
cd /verif
export GOFLAGS=-mod=mod GOPROXY=off GOSUMDB=off GOTOOLCHAIN=local
(cd tools/vinstr && /opt/veriftools/go1.26.8/bin/go build -o vinstr .)
./build.sh both >/dev/null
python3 -c "import ast,sys; [ast.parse(open(f).read()) for f in __import__('glob').glob('/verif/routesim/*.py')]"
echo setup ok
