#!/bin/bash
# seeded_all.sh [tier]: evaluates every seeded change with a frozen copy of /verif's simulator sources
# (so that /verif can be edited meanwhile); writes /tmp/seeded-all.log and updates the meta.json files.
TIER=${1:-quick}
SNAP=/tmp/verif-src-snap
rm -rf $SNAP; mkdir -p $SNAP/tools; cp -r /verif/sim $SNAP/sim; cp -r /verif/tools/vinstr $SNAP/tools/vinstr
for d in /verif/seeded/*/; do
  id=$(basename $d)
  VERIF_SRC=$SNAP /verif/tools/seeded_eval.sh $id $TIER 2>&1 | tail -1 | cut -c1-300
  # checks of other properties that were recorded for this change (a change caught by a neighbour's check)
  own=$(jq -r .property $d/meta.json)
  for other in $(jq -r '.checks // {} | keys[]' $d/meta.json | grep -v "^$own\$"); do
    VERIF_SRC=$SNAP /verif/tools/seeded_eval.sh $id $TIER 120 $other 2>&1 | tail -1 | cut -c1-300
  done
done > /tmp/seeded-all.log 2>&1
rm -rf $SNAP
python3 /verif/tools/seeded_table.py > /dev/null
echo done >> /tmp/seeded-all.log
