#!/usr/bin/env python3
"""mkbrief.py <PROP> <worktree>: prints the brief handed to a fresh sub-agent that is to
produce seeded changes for one property. The brief contains the property text, the titles
of the changes earlier sub-agents made for that property (to stay away from), and the
output contract tools/mutant_verify.sh and tools/seeded_save.py expect. Nothing else from
/verif goes into it."""
import sys, json, os, glob
prop, wt = sys.argv[1], sys.argv[2]
p = [json.loads(l) for l in open('/verif/properties.jsonl') if json.loads(l)['id'] == prop][0]
titles = []
for d in sorted(glob.glob('/verif/seeded/%s-m*' % prop.lower())):
    try:
        titles.append(json.load(open(d + '/meta.json'))['title'])
    except Exception:
        pass
is_py = prop == 'C20'
out = []
out.append("""You are helping to evaluate a verification effort for the open-source project omec-project/upf
(a Go PFCP agent for a 4G/5G user plane function; `pfcpiface/` is the agent, `conf/route_control.py`
the Python route controller). Your job is the *adversary's*: write realistic changes to the code
that BREAK one stated property while the code still compiles and the existing test suite still
passes. You work ONLY in your own scratch git worktree: %s
(never touch /repo or any other directory; never use `git stash` - stashes are shared between
worktrees; do not commit). The sandbox has no network. For every shell call use
`export GOFLAGS=-mod=mod GOPROXY=off` (do NOT set GOSUMDB=off; plain `go` works and switches to the
toolchain the module wants). The tests under test/integration need Docker and fail on the
unchanged tree as well; ignore that directory.

THE PROPERTY (id %s): %s

Statement: %s

Quantifier (what it must hold over): %s

Why ordinary tests cannot settle it: %s

Code anchors: %s
""" % (wt, prop, p['title'], p['statement'], p['quantifier'], p['why_tests_cant'], json.dumps(p['anchors'])))
if titles:
    out.append("Earlier changes already made for this property (titles only) - yours must be DIFFERENT in "
               "mechanism and in what they need in order to show:\n" + '\n'.join('  - ' + t for t in titles) + '\n')
out.append("""WHAT TO PRODUCE: two independent changes, m1 and m2. Each one
  * is a plausible edit a maintainer might make (a refactoring, an optimisation, a "simplification",
    a misplaced fix) - not sabotage that a glance at the diff would reject - and small (up to ~60 lines);
  * compiles, and the existing test suite still passes with it
    (`go test -vet=off -count=1 ./pfcpiface/... ./pkg/... ./cmd/... ./internal/... ./logger/...`%s);
  * breaks the property above, and needs something SPECIFIC in order to show: a particular interleaving
    of goroutines, a crash/restart or a fault (lost/duplicated/late datagram, failing or slow datapath
    RPC, peer silence) at a particular point, a multi-step sequence of operations, an unusual but legal
    input, a long history (counters wrapping, pools running out), or two cooperating sites that each look
    fine alone. NOT something that any ordinary use would expose at once.
  * comes with a demonstration that PASSES on the unchanged tree and FAILS with the change applied.

OUTPUT CONTRACT (exactly these files, in %s/_mutants/ ; create that directory):
  m1.diff, m2.diff        `git diff` output of the change alone (relative to the unchanged worktree; must apply
                          with `git apply` at the worktree root; must NOT contain the demonstration)
  %s
  README.md               starts with one paragraph on how you worked; then for each change a section
                          `## m1 - <one-line title>` / `## m2 - <one-line title>` containing: what the change does
                          and why it looks innocent; a paragraph starting `What it needs to manifest:`;
                          how the demonstration shows it; the exact commands you ran and their results
                          (demo on original: pass; demo with change: fail; suite with change: pass).
Leave the worktree itself UNCHANGED at the end (`git checkout -- .`, delete any test file you copied into
the source tree); only _mutants/ remains. Before you finish, verify each change yourself from the clean
worktree: copy the demonstration in, run it (passes), `git apply _mutants/mK.diff`, build, run the
demonstration (fails), remove the demonstration, run the suite (passes), `git checkout -- .`.
If you notice, while reading the code, a place where the UNCHANGED code already breaks the property,
say so in a separate file _mutants/SIDE_REMARKS.md (one bullet per remark: what input / schedule / fault,
which lines, whether you reproduced it with a throw-away test or only read the code).
Your final message should just summarise the two changes in a few lines.
""" % (
    "" if not is_py else "; for the Python controller: `python3 -m py_compile conf/route_control.py` and `python3 -m unittest conf/test_route_control.py` if present",
    wt,
    ("m1_demo.py, m2_demo.py   stand-alone python3 scripts (stdlib only; stub pyroute2 / pybess / scapy yourself via sys.modules\n"
     "                          before importing conf/route_control.py from the worktree root = current directory); exit 0 = property holds, non-zero = broken"
     if is_py else
     "m1_demo_test.go, m2_demo_test.go   Go test files (package pfcpiface, or the package the change is in) with test\n"
     "                          functions named TestDemoM1... / TestDemoM2...; self-contained (fakes of the net.Conn / datapath\n"
     "                          interfaces inside the file; no Docker, no network, no sleeps longer than a few seconds);\n"
     "                          tools will copy the file into the package directory as zz_demo_K_test.go and run only its tests")))
print('\n'.join(out))
