#!/usr/bin/env python3
"""Regenerates /verif/seeded/RESULTS.md from the meta.json files."""
import json, glob, os
rows = []
for d in sorted(glob.glob('/verif/seeded/*/')):
    mp = os.path.join(d, 'meta.json')
    if not os.path.exists(mp): continue
    m = json.load(open(mp))
    for prop, tiers in sorted(m.get('checks', {}).items()):
        for tier, r in sorted(tiers.items()):
            sig = (r.get('signatures') or [''])[0]
            rows.append((m['id'], m['property'], m.get('title', '')[:90], prop, tier, 'caught' if r.get('detected') else ('MISSED' if r.get('exit') == 0 else 'trouble(exit %s)' % r.get('exit')), len(r.get('signatures') or []), sig[:110]))
    if not m.get('checks'):
        rows.append((m['id'], m['property'], m.get('title', '')[:90], '-', '-', 'not evaluated', 0, ''))
out = ['# Seeded changes and the checks that catch them', '',
       'One row per (seeded change, check, tier). "caught" = the check exited 1 with a VIOLATION line when run against a scratch worktree of /repo at HEAD with the change applied (tools/seeded_eval.sh); every check exits 0 on the unchanged tree.', '',
       '| id | targets | change | check | tier | result | signatures | first signature |', '|---|---|---|---|---|---|---|---|']
for r in rows:
    out.append('| %s | %s | %s | %s | %s | %s | %d | `%s` |' % r)
open('/verif/seeded/RESULTS.md', 'w').write('\n'.join(out) + '\n')
print('\n'.join(out[-len(rows):]))
