#!/bin/bash
# determinism.sh [runs-per-property] : determinism self-test of the simulator.
# For every upfsim property: the first N run indices are executed three times each, in
# separate processes, at GOMAXPROCS 1, 4 and 16 (race build too for the properties that
# use it); event-log hash, switch hash, step count and violation signatures must agree.
# Writes /verif/selftest/determinism.txt; exit 0 all equal / 1 mismatch / 2 trouble.
N=${1:-40}
cd /verif || exit 2
D=$(./build.sh both | tail -1) || exit 2
mkdir -p selftest; OUT=selftest/determinism.txt; T=$(mktemp -d /tmp/upfsim-det.XXXXXX); trap 'rm -rf "$T"' EXIT
: > $OUT.new
bad=0
for P in C01 C02 C03 C04 C05 C06 C07 C08 C09 C10 C11 C12 C13 C14 C15 C16 C19; do
  bins="upfsim"; case $P in C06|C07|C10|C11) bins="upfsim upfsim-race";; esac
  for B in $bins; do
    for G in 1 4 16; do
      ( seq 0 $((N-1)) | xargs -P 16 -I{} sh -c "GOMAXPROCS=$G GORACE='halt_on_error=0 exitcode=0 log_path=$T/race' $D/$B worker -prop $P -seed 7 -from {} -to \$(( {} + 1 )) 2>/dev/null" | jq -c '[.i,.loghash,.swh,.steps,.sync,([.viol[]?.sig]|sort)]' | sort > $T/$P-$B-$G.txt ) || exit 2
    done
    ref=$T/$P-upfsim-1.txt
    for G in 1 4 16; do
      f=$T/$P-$B-$G.txt
      n=$(wc -l < $f)
      if [ "$B" = upfsim-race ]; then
        # the race build must make the same runs; its violation list may add race reports
        d=$(diff <(jq -c '.[0:5]' $ref) <(jq -c '.[0:5]' $f) | grep -c '^[<>]')
      else
        d=$(diff $ref $f | grep -c '^[<>]')
      fi
      echo "$P $B GOMAXPROCS=$G runs=$n differing_lines=$d" | tee -a $OUT.new
      [ "$n" -eq "$N" ] || bad=2
      [ "$d" -eq 0 ] || { [ $bad -eq 2 ] || bad=1; }
    done
  done
done
echo "result: $bad (0 = every execution of every run identical)" | tee -a $OUT.new
mv $OUT.new $OUT
exit $bad
