#!/bin/bash
# runall.sh [tier]: every registered check, one line per property (development aid)
cd /verif
TIER=${1:-quick}
for id in $(jq -r '.properties[].id' MANIFEST.json 2>/dev/null); do :; done
for id in C01 C02 C03 C04 C05 C06 C07 C08 C09 C10 C11 C12 C13 C14 C15 C16 C19 C20; do
  [ -f sim/harness/props_$(echo $id | tr A-Z a-z).go ] || [ $id = C20 ] || continue
  s=$(date +%s)
  out=$(./check $id $TIER 2>&1); rc=$?
  e=$(( $(date +%s) - s ))
  echo "$id rc=$rc ${e}s $(echo "$out" | grep -c '^VIOLATION') viol $(echo "$out" | grep -c '^KNOWN-FINDING') known | $(echo "$out" | grep '^check' | tail -1)"
  echo "$out" | grep "^VIOLATION\|signature:" | head -6
done
