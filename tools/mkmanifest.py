#!/usr/bin/env python3
"""Regenerates /verif/MANIFEST.json from the table below."""
import json

TECH = 'deterministic simulation with fault injection'
SIMNOTE = ('Trusted base: the type-directed source instrumenter tools/vinstr preserves program semantics; the token scheduler / virtual clock in sim/vsim; '
           'the simulated environment in sim/vsimenv (UDP demultiplexing, BESS modules, P4Runtime switch, unix sockets, HTTP) and the control-plane peer models; '
           'go-pfcp encoder/decoder used by the peers. A clean batch is evidence over the sampled schedules, histories and faults, not a proof.')

C = {
 'C01': ('exploration', 'Seeded exploration: hostile datagrams (independent TLV mutator: drop/duplicate/empty/retype/truncate/garble/IPv6-only/corrupted flow descriptions, random bytes, truncations) injected into association/session histories of the real agent under the token scheduler; monitors: panic/Fatal of any agent task, liveness heartbeat on the same and another association, at most one response per datagram.', '6 (C01)', TECH + ' (seeded hostile-input histories + schedules, liveness monitors)'),
 'C02': ('exploration', 'Seeded exploration of request histories (all dispatched request types, 24-bit sequence numbers incl. 0 and 2^24-1, CP SEIDs, accepted and rejected requests, explicit duplicates, response-type messages) with the oracle evaluated on decoded bytes at the peer socket: exactly one response of the matching type/sequence, header SEID rules, establishment response content, addressing by UP F-SEID, CP F-SEID update.', '6 (C02)', TECH + ' (seeded request histories + schedules, protocol oracle at the peer socket)'),
 'C03': ('exploration', 'Seeded exploration: request histories incl. kill -9/restart of the agent at drawn scheduler steps against the populated datapath; after every accepted response the simulated BESS tables are compared with an independent reference image (boundary-packet classification around every live rule and every installed entry + exact FAR/QER entry sets).', '6 (C03)', TECH + ' (seeded histories + schedules + agent kill/restart, reference-model oracle)'),
 'C04': ('exploration', 'Seeded exploration on the P4Runtime datapath: histories over 1-4 sessions / 1-2 associations (shared gNB peers and application filters; QFI->TC map, slice id, default TC drawn per run) with establishment, FAR/QER/PDR modifications, deletion, kill -9 of the agent at a drawn scheduler step and restart against the same populated switch; after every accepted response the tables, meters and id bijections of the simulated switch (independent P4Info reader) are compared with the image of the live rules; stale entries of the killed incarnation must be cleared at start-up.', '6 (C04)', TECH + ' (seeded histories + schedules + agent kill/restart against a simulated P4Runtime switch, reference-image oracle)'),
 'C06': ('exploration', 'Seeded exploration, two layers: (api) 2-8 simulated tasks call LookupOrAllocIP / DeallocIP on the real IPPool under statement-level pre-emption; invoke/return stamped with the global step counter; history (<= 60 ops) checked for linearizability against a sequential pool model with porcupine (timeout = inconclusive, never reported), plus per-value invariants; (agent) concurrent associations attach/detach more UEs than the pool holds; no address held by two live sessions, exhaustion answered with the stated cause, all addresses back afterwards. The race-instrumented build is exercised by the same scenarios.', '6 (C06)', TECH + ' (seeded task interleavings, porcupine linearizability check of the recorded history against a reference pool)'),
 'C07': ('exploration', 'Seeded exploration: 1-3 associations establish 3-14 sessions with CHOOSE F-TEIDs, some rounds with all peers sending at the same instant; the per-association random source is honest or adversarial (cycle, constant, zero-first; rand.NewSource seam) and the TEID cursor is placed just below the 32-bit wrap-around; oracle: pairwise distinct UP F-SEIDs and TEIDs among live sessions, never 0, Created PDR TEIDs equal the values programmed into the datapath.', '6 (C07)', TECH + ' (seeded schedules + adversarial randomness fault, uniqueness oracle)'),
 'C08': ('exploration', 'Seeded exploration: 1-5 PFD Management Requests (accepted ones replacing the application table; ones rejected half-way) interleaved with establishments whose PDRs name application ids; the filter observed at the simulated datapath must be the flow description currently provisioned for that application and direction (independent reference reader of the flow-description grammar), replaced wholesale by a later accepted PFD request; unknown application ids rejected.', '6 (C08)', TECH + ' (seeded provisioning/establishment histories, reference flow-description reader as oracle)'),
 'C09': ('exploration', 'Seeded exploration on the BESS datapath: 2-8 sessions with 0-4 QERs, rates over the 40-bit range with boundary bias, both gate bits, QFIs 0..63, per-QFI burst configuration drawn per run, QER lists per PDR drawn to hit the application/session QER shapes; the QER entries of the simulated datapath must carry the stated unit arithmetic (independent big-integer re-computation), gate status and QFI. UP4-side QER effects are judged by the C04 image oracle.', '6 (C09)', TECH + ' (seeded session histories with drawn configuration, arithmetic reference oracle at the datapath)'),
 'C15': ('fault_enumeration', 'Scenario family on the P4Runtime datapath with small counter/meter arrays; for every scenario (one choice stream) the run is repeated with variant k=0 fault-free and k>0 failing exactly the k-th Write RPC after start-up (transport error, lost response whose effect was applied, per-update P4 error): every Write position of the scenario is enumerated. Oracle: the request hit by the fault is rejected, no id of the five id spaces is referenced by two owners, nothing leaks (all ids back after the sessions are deleted), a following attach succeeds.', '6 (C15)', TECH + ' (enumeration of every Write-RPC fault position per seeded scenario)'),
 'C16': ('exploration', 'Seeded exploration of UP4 request histories with boundary inputs (precedence 0,1,65533..65535, QFI 0..63, slice 0..15, TC 0..3, 40-bit rates, port ranges, prefix lengths); every update of every Write the simulated switch receives is validated against the P4Info it serves (table/field/action/param ids, match kinds, bit widths, canonical byte strings, priorities iff ternary/range), independently of the generated p4constants; plus a static regeneration step: cmd/p4info_code_gen is re-run twice on the shipped P4Info and must reproduce the committed constants byte for byte.', '6 (C16)', TECH + ' (seeded histories; per-Write validation monitor in the simulated switch) + generator re-run comparison'),
 'C05': ('exploration', 'Seeded exploration of more attach/detach cycles than the UE pool has addresses, each ended by one of the five endings (deletion, release, read timeout, heartbeat failure, report answered with context-not-found) after accepted/rejected requests, with optional datagram loss; after each ending: no datapath entry of the session, pool and TEID generator back to empty (white-box bridge), no session record, gauge equals live sessions.', '6 (C05)', TECH + ' (seeded cycles + schedules + peer silence / loss faults, conservation oracle)'),
 'C10': ('exploration', 'Seeded exploration of teardown collisions: per association one trigger of {release, read timeout, heartbeat failure, none} plus optional SIGTERM, timed on the virtual clock to collide, with requests in flight, PCT / statement-level pre-emption and faults (loss, agent stall, slow BESS, ICMP unreachable); oracle: no panic, exactly-once deletes per key, nothing left, re-association works, others unaffected, Run() returns within the stated virtual-time bound.', '6 (C10)', TECH + ' (seeded schedules incl. PCT + timed trigger collisions + faults, exactly-once and bounded-liveness oracles)'),
 'C12': ('fault_enumeration', 'For drawn retry counts / timeouts / intervals: EVERY loss position k=1..N+1 of the heartbeat answer, plus never, late, duplicated and wrong-sequence answers, counted and timed on the virtual clock at the peer; peer heartbeats before/after association (Recovery Time Stamp stability, postponement); association gate vs datapath state flapping around the request; feature bits vs configuration; agent-initiated association answered at the k-th transmission or never.', '6 (C12)', TECH + ' (enumerated loss positions on a virtual clock, seeded schedules)'),
 'C13': ('exploration', 'Seeded exploration of datapath report sequences (8-byte records on the simulated notify socket) at times drawn around multiples of the 20 s interval for known / unknown / deleted / non-notifying sessions, optional repeating PRNG (F-SEID reuse); the Session Report Requests at the peer must equal the reference notifier and be correctly addressed.', '6 (C13)', TECH + ' (seeded report histories on a virtual clock, adversarial PRNG fault, reference notifier oracle)'),
 'C14': ('exploration', 'Seeded exploration of FAR update histories (tunnel changes, flag on/off, unknown ids, several FARs per message, end markers enabled/disabled); packets at the simulated end-marker socket are decoded in the harness and compared with the old tunnels; order against the datapath applying the new FAR is judged by global stamps.', '6 (C14)', TECH + ' (seeded modification histories + schedules, decoded-packet oracle with event ordering)'),
 'C19': ('exploration', 'Seeded exploration of HTTP requests executed by the real handler as simulated tasks (all methods, units, boundary rates, malformed JSON, failing / short body readers); oracle: status, number of WriteHeader calls, slice-meter commands at the simulated datapath programmed with the stated unit arithmetic iff 201.', '6 (C19)', TECH + ' (seeded request sequences with body-stream faults, datapath-command oracle)'),
 'C20': ('exploration', 'Seeded exploration in a Python discrete-event simulator: the real conf/route_control.py with pyroute2/pybess/scapy/time/threading replaced by simulator objects; histories of RTM_NEWROUTE/DELROUTE/NEWNEIGH with lagging netlink delivery, delayed/failed neighbour resolution and transient BESS RPC errors; after every quiescent point the BESS module graph rebuilt from the recorded RPCs is compared with a reference model.', '6 (C20)', TECH + ' (Python routesim, seeded event/fault histories, reference-model oracle)'),
}
NA = {
 'C17': 'pure function of (low, high, strategy): no schedule, clock, fault, crash point or history for a simulator to explore; deciding it is enumeration or algebra, a different technique',
 'C18': 'pure function of the configuration file bytes (regex strip, json.Unmarshal, defaults, validation): no schedule, clock, fault or history; input generation alone is not deterministic simulation',
}
WIP = 'applicable (see DESIGN.md section 6); its check is not finished in this round, so the property is not claimed'

props = [json.loads(l) for l in open('/verif/properties.jsonl')]
checks = []
for pid in sorted(C):
    level, text, ref, tech = C[pid]
    py = pid == 'C20'
    checks.append({
        'property_id': pid,
        'quick_cmd': './check %s quick' % pid,
        'thorough_cmd': './check %s thorough' % pid,
        'evidence_file': '/verif/evidence/%s.json' % pid,
        'replay_cmd_template': ('python3 /verif/routesim/check_c20.py --replay {path}' if py else './replay {path}'),
        'engine': 'routesim' if py else 'upfsim',
        'level_claimed': {'category': level, 'text': text, 'design_ref': ref},
        'level_note': ('Trusted base: the simulated kernel/NDB/BESS stand-ins in /verif/routesim (serial FIFO NDB dispatch, handlers atomic under the controller lock), the reference model in oracle.py.' if py else SIMNOTE),
        'technique': tech,
    })
na = []
for p in props:
    if p['id'] in C:
        continue
    na.append({'property_id': p['id'], 'reason': NA.get(p['id'], WIP)})
m = {
 'version': 1,
 'setup_cmd': './setup.sh',
 'hooks': {
   'guard': 'verif',
   'enable': 'no hook is committed to /repo: every check copies the working tree of /repo to a scratch directory, runs the type-directed source instrumenter /verif/tools/vinstr over pfcpiface and pfcpiface/metrics, adds /verif/sim as package zzverif plus bridge files, and builds the simulator binary (see /verif/build.sh); the build tag verif is reserved and unused',
   'baseline_off_cmd': 'for m in $(cat /w/out/gomods.txt); do MF=$(cd /repo/$m && . /w/out/goenv.sh && gomodflag); (cd /repo/$m && GOPROXY=off go test $MF -json -vet=off -count=1 -timeout 25m ./...); done',
   'source_commits': [],
   'add_only': True},
 'engines': [
   {'name': 'upfsim', 'path': '/verif/sim', 'serves_properties': [c for c in sorted(C) if c != 'C20'],
    'kind_free_text': 'deterministic simulator for the Go PFCP agent: token scheduler over real goroutines, virtual clock, single choice stream, simulated UDP/gRPC/unix/HTTP environment, control-plane peer models, reference models; trace shrinking and replay'},
   {'name': 'routesim', 'path': '/verif/routesim', 'serves_properties': ['C20'], 'kind_free_text': 'deterministic discrete-event simulator (Python) for conf/route_control.py'}],
 'checks': checks,
 'not_applicable': na,
 'notes': 'Genuine defects repaired in /repo are fix: commits, listed in /verif/known_findings.jsonl with status fixed; open known findings are listed there with status open and minimised replay files under /verif/findings/. Exit codes of every check: 0 held / 1 VIOLATION / 2 harness or build trouble (never a verdict).',
}
json.dump(m, open('/verif/MANIFEST.json', 'w'), indent=1)
print('claimed:', sorted(C), 'not claimed:', [x['property_id'] for x in na])
