#!/usr/bin/env python3
"""seeded_save.py <worktree> <PROP>: copies the seeded changes a sub-agent left in <worktree>/_mutants
into /verif/seeded/<prop>-m<k>/ (patch.diff, demonstration test + notes, meta.json)."""
import sys, os, re, json, shutil, subprocess
wt, prop = sys.argv[1], sys.argv[2]
offset = int(sys.argv[3]) if len(sys.argv) > 3 else 0   # wave 3 saves m1, m2 as m3, m4
md = os.path.join(wt, '_mutants')
readme = open(os.path.join(md, 'README.md')).read() if os.path.exists(os.path.join(md, 'README.md')) else ''
verify = {}
try:
    for l in open('/tmp/mutverify/ALL.txt'):
        m = re.match(r'RESULT (\S+) (m\d+) (.*)', l)
        if m: verify[(m.group(1), m.group(2))] = m.group(3).strip()
except FileNotFoundError:
    pass
for f in sorted(os.listdir(md)):
    m = re.match(r'(m\d+)\.diff$', f)
    if not m: continue
    k = m.group(1)
    kk = 'm%d' % (int(k[1:]) + offset)
    d = '/verif/seeded/%s-%s' % (prop.lower(), kk)
    os.makedirs(d, exist_ok=True)
    shutil.copy(os.path.join(md, f), os.path.join(d, 'patch.diff'))
    demo = [x for x in os.listdir(md) if x.startswith(k + '_demo')]
    for x in demo:
        shutil.copy(os.path.join(md, x), os.path.join(d, x + '.txt' if x.endswith('_test.go') else x))
    sec = ''
    mm = re.search(r'(^## %s\b.*?)(?=^## m\d|\Z)' % k, readme, re.S | re.M)
    if mm: sec = mm.group(1).strip()
    head = readme.split('\n## ')[0].strip()
    open(os.path.join(d, 'demonstration.md'), 'w').write(head + '\n\n' + sec + '\n')
    title = sec.split('\n')[0].lstrip('# ').strip() if sec else k
    needs = ''
    mm = re.search(r'What it needs to manifest:?\s*(.*?)(?=\n\n[A-Z]|\Z)', sec, re.S)
    if mm: needs = ' '.join(mm.group(1).split())
    base = subprocess.run(['git', '-C', wt, 'rev-parse', 'HEAD'], capture_output=True, text=True).stdout.strip()
    meta_path = os.path.join(d, 'meta.json')
    meta = json.load(open(meta_path)) if os.path.exists(meta_path) else {}
    meta.update({
        'property': prop, 'id': '%s-%s' % (prop.lower(), kk), 'title': title,
        'needs_to_manifest': needs,
        'base_commit': base,
        'produced_by': 'fresh sub-agent given only the property text and its own scratch worktree',
        'confirmed': {
            'how': 'tools/mutant_verify.sh in the scratch worktree: demonstration test on the original tree (must pass), build with the change, demonstration with the change (must fail), pinned suite with the change (must pass)',
            'result': verify.get((os.path.basename(wt), k), 'see demonstration.md'),
        },
        'demonstration_files': sorted(demo),
    })
    meta.setdefault('checks', {})
    json.dump(meta, open(meta_path, 'w'), indent=1)
    print('saved', d)
