#!/bin/bash
# refresh_findings.sh: regenerates the replay files of the open known findings with the current
# harness (choice streams shift whenever a scenario gains a draw): runs the owning checks against
# /repo with an EMPTY known-findings list in a scratch VERIF_DIR, so that every listed finding is
# reported as new and gets a minimised, replay-confirmed file; copies those files to /verif/findings/
# and rewrites the "replay" fields of /verif/known_findings.jsonl. Never run by a registered check.
cd /verif || exit 2
OUT=/tmp/refresh-findings; rm -rf $OUT; mkdir -p $OUT; : > $OUT/known_findings.jsonl
D=$(./build.sh both | tail -1) || exit 2
for P in $(jq -r 'select(.status=="open") | .property' known_findings.jsonl | sort -u); do
  [ $P = C20 ] && continue
  VERIF_DIR=$OUT VERIF_THOROUGH_SECS=${1:-150} $D/upfsim check -prop $P -tier thorough > $OUT/$P.out 2>&1
done
python3 - <<'PY'
import json, glob, re, shutil, os
out='/tmp/refresh-findings'
by={}
for f in glob.glob(out+'/replays/*.json'):
    r=json.load(open(f)); by[(r['property'], r['signature'])]=f
lines=[]
for l in open('/verif/known_findings.jsonl'):
    if not l.strip(): continue
    k=json.loads(l)
    if k.get('status')=='open' and (k['property'],k['signature']) in by:
        name='%s-%s.json' % (k['property'], re.sub(r'[^A-Za-z0-9_.-]+','-',k['signature']))
        shutil.copy(by[(k['property'],k['signature'])], '/verif/findings/'+name)
        k['replay']='findings/'+name
    elif k.get('status')=='open':
        print('NOT SEEN in this run:', k['property'], k['signature'])
    lines.append(json.dumps(k))
open('/verif/known_findings.jsonl','w').write('\n'.join(lines)+'\n')
PY
rm -rf $OUT
