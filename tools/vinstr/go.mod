module vinstr

go 1.25.0

require golang.org/x/tools v0.44.0

require (
	golang.org/x/mod v0.35.0 // indirect
	golang.org/x/sync v0.20.0 // indirect
)
