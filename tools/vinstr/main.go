// vinstr: type-directed source-to-source instrumenter.
//
// Usage: vinstr -root <module root> -sites <out.go> pkgpattern...
//
// Rewrites, in place, every non-test Go file of the named packages so that all
// scheduling, time, randomness and I/O constructors go through the simulator
// packages zzverif/vsim and zzverif/vsimenv (see /verif/DESIGN.md §2.2).
// A construct it cannot rewrite is an error (exit 2), never silently skipped.
package main

import (
	"bytes"
	"flag"
	"fmt"
	"go/ast"
	"go/format"
	"go/parser"
	"go/printer"
	"go/token"
	"go/types"
	"os"
	"path/filepath"
	"reflect"
	"sort"
	"strconv"
	"strings"

	"golang.org/x/tools/go/ast/astutil"
	"golang.org/x/tools/go/packages"
)

const (
	modPath    = "github.com/omec-project/upf-epc"
	vsimPath   = modPath + "/zzverif/vsim"
	vsimenvPth = modPath + "/zzverif/vsimenv"
)

var (
	sites   []string
	errs    []string
	counter int
)

func fail(fset *token.FileSet, pos token.Pos, format string, a ...any) {
	errs = append(errs, fmt.Sprintf("%s: %s", fset.Position(pos), fmt.Sprintf(format, a...)))
}

// package-level function replacements: "pkgpath.Name" -> replacement selector
var funcMap = map[string][2]string{
	"time.Now":             {"vsim", "Now"},
	"time.Since":           {"vsim", "Since"},
	"time.Until":           {"vsim", "Until"},
	"time.Sleep":           {"vsim", "Sleep"},
	"time.After":           {"vsim", "After"},
	"time.AfterFunc":       {"vsim", "AfterFunc"},
	"time.NewTimer":        {"vsim", "NewTimer"},
	"time.NewTicker":       {"vsim", "NewTicker"},
	"time.Tick":            {"vsim", "Tick"},
	"context.WithTimeout":  {"vsim", "WithTimeout"},
	"context.WithDeadline": {"vsim", "WithDeadline"},
	"math/rand.NewSource":  {"vsim", "NewRandSource"},
	"github.com/libp2p/go-reuseport.ListenPacket":             {"vsimenv", "ListenPacket"},
	"github.com/libp2p/go-reuseport.Dial":                     {"vsimenv", "DialUDP"},
	"net.Dial":                                                {"vsimenv", "Dial"},
	"net.ListenPacket":                                        {"vsimenv", "ListenPacket"},
	"net.InterfaceByName":                                     {"vsimenv", "InterfaceByName"},
	"net.LookupHost":                                          {"vsimenv", "LookupHost"},
	"github.com/Showmax/go-fqdn.FqdnHostname":                 {"vsimenv", "FqdnHostname"},
	modPath + "/pfcpiface/bess_pb.NewBESSControlClient":       {"vsimenv", "NewBESSClient"},
	"github.com/p4lang/p4runtime/go/p4/v1.NewP4RuntimeClient": {"vsimenv", "NewP4Client"},
	"google.golang.org/grpc.NewClient":                        {"vsimenv", "GRPCNewClient"},
	"google.golang.org/grpc.Dial":                             {"vsimenv", "GRPCNewClient"},
	"os/signal.Notify": {"vsimenv", "SignalNotify"},
	"net/http.TimeoutHandler":                                 {"vsimenv", "HTTPTimeoutHandler"},
	"os.Exit":                                                 {"vsimenv", "OSExit"},
}

// type replacements
var typeMap = map[string][2]string{
	"time.Timer":  {"vsim", "Timer"},
	"time.Ticker": {"vsim", "Ticker"},
	"sync.Map":    {"vsim", "Map"},
	"sync.Pool":   {"vsim", "Pool"},
}

// functions that must not be used because no rule exists for them
var forbidden = map[string]bool{
	"time.NewTimer": false,
	"net.Listen":    true, "net.ListenUDP": true, "net.DialUDP": true, "net.DialTimeout": true,
	"net.ListenUnix": true, "net.DialUnix": true, "net.ListenUnixgram": true,
	"sync.NewCond":             true,
	"context.WithTimeoutCause": true, "context.WithDeadlineCause": true,
	"context.AfterFunc": true,
}

func sel(pkg, name string) ast.Expr {
	return &ast.SelectorExpr{X: ast.NewIdent(pkg), Sel: ast.NewIdent(name)}
}

func callSel(pkg, name string, args ...ast.Expr) *ast.CallExpr {
	return &ast.CallExpr{Fun: sel(pkg, name), Args: args}
}

func fresh(prefix string) string {
	counter++
	return fmt.Sprintf("vsim%s%d", prefix, counter)
}

func siteID(fset *token.FileSet, root string, pos token.Pos) ast.Expr {
	p := fset.Position(pos)
	rel, err := filepath.Rel(root, p.Filename)
	if err != nil {
		rel = p.Filename
	}
	sites = append(sites, fmt.Sprintf("%s:%d", rel, p.Line))
	return &ast.BasicLit{Kind: token.INT, Value: strconv.Itoa(len(sites) - 1)}
}

// ---------------------------------------------------------------- templates

func clearPos(n ast.Node) {
	var zero token.Pos
	var walk func(v reflect.Value)
	walk = func(v reflect.Value) {
		switch v.Kind() {
		case reflect.Ptr, reflect.Interface:
			if !v.IsNil() {
				walk(v.Elem())
			}
		case reflect.Struct:
			for i := 0; i < v.NumField(); i++ {
				f := v.Field(i)
				if f.Type() == reflect.TypeOf(zero) {
					if f.CanSet() {
						f.SetInt(0)
					}
					continue
				}
				if v.Type().Field(i).Name == "Obj" || v.Type().Field(i).Name == "Scope" {
					continue
				}
				walk(f)
			}
		case reflect.Slice:
			for i := 0; i < v.Len(); i++ {
				walk(v.Index(i))
			}
		}
	}
	walk(reflect.ValueOf(n))
}

// stmts parses a statement-list template; $N placeholders (written __N) are
// replaced by the given expressions, and __B by nothing special.
func tmplStmts(src string, subst map[string]ast.Node) []ast.Stmt {
	file := "package p\nfunc _() {\n" + src + "\n}\n"
	fs := token.NewFileSet()
	f, err := parser.ParseFile(fs, "tmpl.go", file, 0)
	if err != nil {
		panic(fmt.Sprintf("template parse error: %v\n%s", err, file))
	}
	body := f.Decls[0].(*ast.FuncDecl).Body
	clearPos(body)
	astutil.Apply(body, nil, func(c *astutil.Cursor) bool {
		switch n := c.Node().(type) {
		case *ast.Ident:
			if r, ok := subst[n.Name]; ok {
				if e, ok := r.(ast.Expr); ok {
					c.Replace(e)
				}
			}
		case *ast.ExprStmt:
			if id, ok := n.X.(*ast.Ident); ok {
				if r, ok := subst[id.Name]; ok {
					switch rr := r.(type) {
					case ast.Stmt:
						c.Replace(rr)
					}
				}
			}
		}
		return true
	})
	return body.List
}

// ---------------------------------------------------------------- per-file rewriting

type rewriter struct {
	fset *token.FileSet
	info *types.Info
	root string
	file *ast.File

	skipRecv  map[*ast.UnaryExpr]bool // receive inside a select comm clause
	recv2     map[*ast.UnaryExpr]bool // two-value receive
	rangeKind map[*ast.RangeStmt]string
	constArg  map[ast.Expr]bool
	needVsim  bool
	needEnv   bool
}

func (r *rewriter) qualifiedFunc(e ast.Expr) string {
	var id *ast.Ident
	switch x := e.(type) {
	case *ast.SelectorExpr:
		id = x.Sel
	case *ast.Ident:
		id = x
	default:
		return ""
	}
	obj := r.info.Uses[id]
	fn, ok := obj.(*types.Func)
	if !ok || fn.Pkg() == nil {
		return ""
	}
	if sig, ok := fn.Type().(*types.Signature); ok && sig.Recv() != nil {
		return ""
	}
	return fn.Pkg().Path() + "." + fn.Name()
}

// methodOf returns "pkgpath.Type.Method" for a method call selector.
func (r *rewriter) methodOf(se *ast.SelectorExpr) string {
	s := r.info.Selections[se]
	if s == nil || s.Kind() != types.MethodVal {
		return ""
	}
	fn, ok := s.Obj().(*types.Func)
	if !ok {
		return ""
	}
	sig := fn.Type().(*types.Signature)
	if sig.Recv() == nil {
		return ""
	}
	rt := sig.Recv().Type()
	if p, ok := rt.(*types.Pointer); ok {
		rt = p.Elem()
	}
	if n, ok := rt.(*types.Named); ok && n.Obj().Pkg() != nil {
		return n.Obj().Pkg().Path() + "." + n.Obj().Name() + "." + fn.Name()
	}
	return ""
}

func isPointer(t types.Type) bool {
	_, ok := t.Underlying().(*types.Pointer)
	return ok
}

func (r *rewriter) pre(c *astutil.Cursor) bool {
	switch n := c.Node().(type) {
	case *ast.SelectStmt:
		for _, cl := range n.Body.List {
			cc := cl.(*ast.CommClause)
			switch s := cc.Comm.(type) {
			case *ast.ExprStmt:
				if u, ok := s.X.(*ast.UnaryExpr); ok && u.Op == token.ARROW {
					r.skipRecv[u] = true
				}
			case *ast.AssignStmt:
				if u, ok := s.Rhs[0].(*ast.UnaryExpr); ok && u.Op == token.ARROW {
					r.skipRecv[u] = true
				}
			}
		}
	case *ast.AssignStmt:
		if len(n.Lhs) == 2 && len(n.Rhs) == 1 {
			if u, ok := n.Rhs[0].(*ast.UnaryExpr); ok && u.Op == token.ARROW {
				r.recv2[u] = true
			}
		}
	case *ast.ValueSpec:
		if len(n.Names) == 2 && len(n.Values) == 1 {
			if u, ok := n.Values[0].(*ast.UnaryExpr); ok && u.Op == token.ARROW {
				r.recv2[u] = true
			}
		}
	case *ast.RangeStmt:
		t := r.info.TypeOf(n.X)
		if t != nil {
			switch t.Underlying().(type) {
			case *types.Chan:
				r.rangeKind[n] = "chan"
			case *types.Map:
				r.rangeKind[n] = "map"
			}
		}
	case *ast.GoStmt:
		for _, a := range n.Call.Args {
			if tv, ok := r.info.Types[a]; ok && (tv.Value != nil || tv.IsNil()) {
				r.constArg[a] = true
			}
		}
	case *ast.SendStmt:
		if tv, ok := r.info.Types[n.Value]; ok && (tv.Value != nil || tv.IsNil()) {
			r.constArg[n.Value] = true
		}
	}
	return true
}

func (r *rewriter) post(c *astutil.Cursor) bool {
	switch n := c.Node().(type) {
	case *ast.SelectorExpr:
		// type replacements
		if obj, ok := r.info.Uses[n.Sel].(*types.TypeName); ok && obj.Pkg() != nil {
			if rep, ok := typeMap[obj.Pkg().Path()+"."+obj.Name()]; ok {
				r.use(rep[0])
				c.Replace(sel(rep[0], rep[1]))
			}
		}
	case *ast.CallExpr:
		r.rewriteCall(c, n)
	case *ast.UnaryExpr:
		if n.Op == token.ARROW && !r.skipRecv[n] {
			r.use("vsim")
			if r.recv2[n] {
				c.Replace(callSel("vsim", "Recv2", n.X))
			} else {
				c.Replace(callSel("vsim", "Recv", n.X))
			}
		}
	case *ast.GoStmt:
		r.rewriteGo(c, n)
	case *ast.SendStmt:
		if _, inSelect := c.Parent().(*ast.CommClause); inSelect {
			return true
		}
		r.use("vsim")
		cn, vn := fresh("C"), fresh("V")
		var st []ast.Stmt
		if r.constArg[n.Value] {
			st = tmplStmts(cn+" := __0\nvsim.Send("+cn+", __1)", map[string]ast.Node{"__0": n.Chan, "__1": n.Value})
		} else {
			st = tmplStmts(cn+" := __0\n"+vn+" := vsim.ZeroOfS("+cn+")\n"+vn+" = __1\nvsim.Send("+cn+", "+vn+")",
				map[string]ast.Node{"__0": n.Chan, "__1": n.Value})
		}
		c.Replace(&ast.BlockStmt{List: st})
	case *ast.SelectStmt:
		r.rewriteSelect(c, n)
	case *ast.RangeStmt:
		r.rewriteRange(c, n)
	}
	return true
}

func (r *rewriter) use(p string) {
	if p == "vsim" {
		r.needVsim = true
	} else {
		r.needEnv = true
	}
}

func (r *rewriter) rewriteCall(c *astutil.Cursor, n *ast.CallExpr) {
	// builtin close
	if id, ok := n.Fun.(*ast.Ident); ok {
		if b, ok := r.info.Uses[id].(*types.Builtin); ok && b.Name() == "close" {
			r.use("vsim")
			n.Fun = sel("vsim", "Close")
			return
		}
	}
	if q := r.qualifiedFunc(n.Fun); q != "" {
		if rep, ok := funcMap[q]; ok {
			r.use(rep[0])
			n.Fun = sel(rep[0], rep[1])
			return
		}
		if forbidden[q] {
			fail(r.fset, n.Pos(), "no instrumentation rule for %s", q)
		}
		return
	}
	se, ok := n.Fun.(*ast.SelectorExpr)
	if !ok {
		return
	}
	m := r.methodOf(se)
	switch m {
	case "sync.Mutex.Lock", "sync.RWMutex.Lock":
		r.use("vsim")
		c.Replace(callSel("vsim", "Block", &ast.SelectorExpr{X: se.X, Sel: ast.NewIdent("TryLock")}))
	case "sync.RWMutex.RLock":
		r.use("vsim")
		c.Replace(callSel("vsim", "Block", &ast.SelectorExpr{X: se.X, Sel: ast.NewIdent("TryRLock")}))
	case "sync.Once.Do":
		r.use("vsim")
		c.Replace(callSel("vsim", "OnceDo", r.addrOf(se), n.Args[0]))
	case "sync.WaitGroup.Wait":
		r.use("vsim")
		c.Replace(callSel("vsim", "WaitGroupWait", r.addrOf(se)))
	case "sync.WaitGroup.Add":
		r.use("vsim")
		c.Replace(callSel("vsim", "WaitGroupAdd", r.addrOf(se), n.Args[0]))
	case "sync.WaitGroup.Done":
		r.use("vsim")
		c.Replace(callSel("vsim", "WaitGroupDone", r.addrOf(se)))
	case "sync.WaitGroup.Go":
		fail(r.fset, n.Pos(), "sync.WaitGroup.Go is not supported by the instrumenter")
	case "sync.Cond.Wait":
		fail(r.fset, n.Pos(), "sync.Cond.Wait is not supported by the instrumenter")
	case "google.golang.org/grpc.ClientConn.GetState":
		r.use("vsimenv")
		c.Replace(callSel("vsimenv", "ConnState", se.X))
	case "google.golang.org/grpc.ClientConn.Close":
		r.use("vsimenv")
		c.Replace(callSel("vsimenv", "ConnClose", se.X))
	case "google.golang.org/grpc.ClientConn.Connect":
		r.use("vsimenv")
		c.Replace(callSel("vsimenv", "ConnConnect", se.X))
	case "google.golang.org/grpc.ClientConn.WaitForStateChange":
		r.use("vsimenv")
		c.Replace(callSel("vsimenv", "ConnWaitForStateChange", append([]ast.Expr{se.X}, n.Args...)...))
	case "google.golang.org/grpc.ClientConn.ResetConnectBackoff":
		r.use("vsimenv")
		c.Replace(callSel("vsimenv", "ConnConnect", se.X))
	case "net/http.Server.ListenAndServe":
		r.use("vsimenv")
		c.Replace(callSel("vsimenv", "HTTPListenAndServe", se.X))
	case "net/http.Server.Shutdown":
		r.use("vsimenv")
		c.Replace(callSel("vsimenv", "HTTPShutdown", append([]ast.Expr{se.X}, n.Args...)...))
	case "net/http.Server.Close", "net/http.Server.Serve", "net/http.Server.ListenAndServeTLS":
		fail(r.fset, n.Pos(), "no instrumentation rule for %s", m)
	case "github.com/deckarep/golang-set.Set.Pop":
		r.use("vsim")
		c.Replace(callSel("vsim", "SetPop", se.X))
	}
}

// addrOf returns a pointer expression to the receiver of a method selector
// whose receiver type is a pointer (handles addressable values and promotion
// through embedding, because &x.f and x.f are both handled by taking the
// address of the full selector path).
func (r *rewriter) addrOf(se *ast.SelectorExpr) ast.Expr {
	s := r.info.Selections[se]
	recvExpr := se.X
	// promoted through embedded fields: spell the path out
	if s != nil && len(s.Index()) > 1 {
		t := s.Recv()
		for _, idx := range s.Index()[:len(s.Index())-1] {
			if p, ok := t.Underlying().(*types.Pointer); ok {
				t = p.Elem()
			}
			st := t.Underlying().(*types.Struct)
			f := st.Field(idx)
			recvExpr = &ast.SelectorExpr{X: recvExpr, Sel: ast.NewIdent(f.Name())}
			t = f.Type()
		}
		if isPointer(t) {
			return recvExpr
		}
		return &ast.UnaryExpr{Op: token.AND, X: recvExpr}
	}
	t := r.info.TypeOf(se.X)
	if t != nil && isPointer(t) {
		return recvExpr
	}
	return &ast.UnaryExpr{Op: token.AND, X: recvExpr}
}

func (r *rewriter) rewriteGo(c *astutil.Cursor, n *ast.GoStmt) {
	r.use("vsim")
	site := siteID(r.fset, r.root, n.Pos())
	call := n.Call
	var pre []ast.Stmt
	// function value
	var fun ast.Expr
	if fl, ok := call.Fun.(*ast.FuncLit); ok {
		if len(call.Args) == 0 {
			c.Replace(&ast.ExprStmt{X: callSel("vsim", "Go", site, fl)})
			return
		}
		fun = fl
	} else {
		fn := fresh("F")
		pre = append(pre, &ast.AssignStmt{Lhs: []ast.Expr{ast.NewIdent(fn)}, Tok: token.DEFINE, Rhs: []ast.Expr{call.Fun}})
		fun = ast.NewIdent(fn)
	}
	var args []ast.Expr
	for _, a := range call.Args {
		if r.constArg[a] {
			args = append(args, a)
			continue
		}
		an := fresh("A")
		pre = append(pre, &ast.AssignStmt{Lhs: []ast.Expr{ast.NewIdent(an)}, Tok: token.DEFINE, Rhs: []ast.Expr{a}})
		args = append(args, ast.NewIdent(an))
	}
	inner := &ast.CallExpr{Fun: fun, Args: args}
	if call.Ellipsis.IsValid() {
		inner.Ellipsis = 1
	}
	lit := &ast.FuncLit{Type: &ast.FuncType{Params: &ast.FieldList{}}, Body: &ast.BlockStmt{List: []ast.Stmt{&ast.ExprStmt{X: inner}}}}
	pre = append(pre, &ast.ExprStmt{X: callSel("vsim", "Go", site, lit)})
	c.Replace(&ast.BlockStmt{List: pre})
}

func isBlank(e ast.Expr) bool {
	id, ok := e.(*ast.Ident)
	return ok && id.Name == "_"
}

func (r *rewriter) rewriteSelect(c *astutil.Cursor, n *ast.SelectStmt) {
	r.use("vsim")
	var pre []ast.Stmt
	var cases []ast.Expr
	var clauses []ast.Stmt
	hasDefault := false
	idx := 0
	for _, cl := range n.Body.List {
		cc := cl.(*ast.CommClause)
		if cc.Comm == nil {
			hasDefault = true
			clauses = append(clauses, &ast.CaseClause{List: nil, Body: cc.Body})
			continue
		}
		var head []ast.Stmt
		switch s := cc.Comm.(type) {
		case *ast.SendStmt:
			cn, vn := fresh("C"), fresh("V")
			pre = append(pre, tmplStmts(cn+" := __0", map[string]ast.Node{"__0": s.Chan})...)
			if r.constArg[s.Value] {
				cases = append(cases, callSel("vsim", "SendCase", ast.NewIdent(cn), s.Value))
			} else {
				pre = append(pre, tmplStmts(vn+" := vsim.ZeroOfS("+cn+")\n"+vn+" = __1", map[string]ast.Node{"__1": s.Value})...)
				cases = append(cases, callSel("vsim", "SendCase", ast.NewIdent(cn), ast.NewIdent(vn)))
			}
		case *ast.ExprStmt: // <-ch
			u := s.X.(*ast.UnaryExpr)
			cn, rn, on := fresh("C"), fresh("R"), fresh("O")
			pre = append(pre, tmplStmts(cn+" := __0\n"+rn+" := vsim.ZeroOf("+cn+")\nvar "+on+" bool", map[string]ast.Node{"__0": u.X})...)
			cases = append(cases, callSel("vsim", "RecvCase", ast.NewIdent(cn),
				&ast.UnaryExpr{Op: token.AND, X: ast.NewIdent(rn)}, &ast.UnaryExpr{Op: token.AND, X: ast.NewIdent(on)}))
		case *ast.AssignStmt: // v := <-ch ; v, ok := <-ch ; v = <-ch
			u := s.Rhs[0].(*ast.UnaryExpr)
			cn, rn, on := fresh("C"), fresh("R"), fresh("O")
			pre = append(pre, tmplStmts(cn+" := __0\n"+rn+" := vsim.ZeroOf("+cn+")\nvar "+on+" bool", map[string]ast.Node{"__0": u.X})...)
			cases = append(cases, callSel("vsim", "RecvCase", ast.NewIdent(cn),
				&ast.UnaryExpr{Op: token.AND, X: ast.NewIdent(rn)}, &ast.UnaryExpr{Op: token.AND, X: ast.NewIdent(on)}))
			var lhs, rhs []ast.Expr
			if !isBlank(s.Lhs[0]) {
				lhs = append(lhs, s.Lhs[0])
				rhs = append(rhs, ast.NewIdent(rn))
			}
			if len(s.Lhs) == 2 && !isBlank(s.Lhs[1]) {
				lhs = append(lhs, s.Lhs[1])
				rhs = append(rhs, ast.NewIdent(on))
			}
			if len(lhs) > 0 {
				head = append(head, &ast.AssignStmt{Lhs: lhs, Tok: s.Tok, Rhs: rhs})
			}
		default:
			fail(r.fset, cc.Pos(), "unsupported select communication clause %T", cc.Comm)
		}
		clauses = append(clauses, &ast.CaseClause{
			List: []ast.Expr{&ast.BasicLit{Kind: token.INT, Value: strconv.Itoa(idx)}},
			Body: append(head, cc.Body...),
		})
		idx++
	}
	hd := "false"
	if hasDefault {
		hd = "true"
	}
	if !hasDefault {
		// select without default is a terminating statement when all its
		// clauses are; keep that property for the switch.
		clauses = append(clauses, &ast.CaseClause{List: nil, Body: tmplStmts(`panic("vsim: select returned no case")`, nil)})
	}
	args := append([]ast.Expr{ast.NewIdent(hd)}, cases...)
	sw := &ast.SwitchStmt{Tag: callSel("vsim", "SelectCases", args...), Body: &ast.BlockStmt{List: clauses}}
	var stmt ast.Stmt = sw
	// keep a label on the statement it labels
	if ls, ok := c.Parent().(*ast.LabeledStmt); ok && ls.Stmt == n {
		// the label must stay attached to the switch: hoisted declarations go
		// into an enclosing block placed *before* the label by the parent fix-up
		c.Replace(sw)
		pendingHoist[ls] = pre
		return
	}
	c.Replace(&ast.BlockStmt{List: append(pre, stmt)})
}

// hoisted declarations of labelled statements, applied when the LabeledStmt is left
var pendingHoist = map[*ast.LabeledStmt][]ast.Stmt{}

func (r *rewriter) rewriteRange(c *astutil.Cursor, n *ast.RangeStmt) {
	kind := r.rangeKind[n]
	if kind == "" {
		return
	}
	r.use("vsim")
	var pre []ast.Stmt
	var loop *ast.ForStmt
	switch kind {
	case "chan":
		cn, on := fresh("C"), fresh("O")
		pre = tmplStmts(cn+" := __0", map[string]ast.Node{"__0": n.X})
		var head []ast.Stmt
		if n.Key == nil || isBlank(n.Key) {
			head = tmplStmts("_, "+on+" := vsim.Recv2("+cn+")\nif !"+on+" {\nbreak\n}", nil)
		} else if n.Tok == token.DEFINE {
			head = tmplStmts("__1, "+on+" := vsim.Recv2("+cn+")\nif !"+on+" {\nbreak\n}", map[string]ast.Node{"__1": n.Key})
		} else {
			pre = append(pre, tmplStmts("var "+on+" bool", nil)...)
			head = tmplStmts("__1, "+on+" = vsim.Recv2("+cn+")\nif !"+on+" {\nbreak\n}", map[string]ast.Node{"__1": n.Key})
		}
		loop = &ast.ForStmt{Body: &ast.BlockStmt{List: append(head, n.Body.List...)}}
	case "map":
		mn, kn, on := fresh("M"), fresh("K"), fresh("O")
		pre = tmplStmts(mn+" := __0", map[string]ast.Node{"__0": n.X})
		var head []ast.Stmt
		keyExpr := ast.Expr(ast.NewIdent(kn))
		rangeKey := ast.Expr(ast.NewIdent(kn))
		rangeTok := token.DEFINE
		if n.Key != nil && !isBlank(n.Key) {
			if n.Tok == token.DEFINE {
				rangeKey = n.Key
				keyExpr = n.Key
			} else {
				head = append(head, &ast.AssignStmt{Lhs: []ast.Expr{n.Key}, Tok: token.ASSIGN, Rhs: []ast.Expr{ast.NewIdent(kn)}})
			}
		}
		if n.Value != nil && !isBlank(n.Value) {
			if n.Tok == token.DEFINE {
				head = append(head, tmplStmts("__1, "+on+" := "+mn+"[__2]\nif !"+on+" {\ncontinue\n}", map[string]ast.Node{"__1": n.Value, "__2": keyExpr})...)
			} else {
				head = append(head, tmplStmts("if _, "+on+" := "+mn+"[__2]; !"+on+" {\ncontinue\n}\n__1 = "+mn+"[__2]", map[string]ast.Node{"__1": n.Value, "__2": keyExpr})...)
			}
		} else {
			head = append(head, tmplStmts("if _, "+on+" := "+mn+"[__2]; !"+on+" {\ncontinue\n}", map[string]ast.Node{"__2": keyExpr})...)
		}
		inner := &ast.RangeStmt{Key: ast.NewIdent("_"), Value: rangeKey, Tok: rangeTok, X: callSel("vsim", "MapKeys", ast.NewIdent(mn)),
			Body: &ast.BlockStmt{List: append(head, n.Body.List...)}}
		if ls, ok := c.Parent().(*ast.LabeledStmt); ok && ls.Stmt == n {
			c.Replace(inner)
			pendingHoist[ls] = pre
			return
		}
		c.Replace(&ast.BlockStmt{List: append(pre, inner)})
		return
	}
	if ls, ok := c.Parent().(*ast.LabeledStmt); ok && ls.Stmt == n {
		c.Replace(loop)
		pendingHoist[ls] = pre
		return
	}
	c.Replace(&ast.BlockStmt{List: append(pre, loop)})
}

// insertP puts vsim.P(site) before every statement of every statement list,
// and wraps labelled statements whose rewrite produced hoisted declarations.
func (r *rewriter) insertP(f *ast.File) {
	var fix func(list []ast.Stmt) []ast.Stmt
	fix = func(list []ast.Stmt) []ast.Stmt {
		out := make([]ast.Stmt, 0, 2*len(list))
		for _, s := range list {
			if ls, ok := s.(*ast.LabeledStmt); ok {
				if h, ok := pendingHoist[ls]; ok {
					out = append(out, h...)
					delete(pendingHoist, ls)
				}
			}
			if s.Pos().IsValid() {
				r.needVsim = true
				out = append(out, &ast.ExprStmt{X: callSel("vsim", "P", siteID(r.fset, r.root, s.Pos()))})
			}
			out = append(out, s)
		}
		return out
	}
	skip := map[*ast.BlockStmt]bool{}
	ast.Inspect(f, func(n ast.Node) bool {
		switch b := n.(type) {
		case *ast.SwitchStmt:
			skip[b.Body] = true
		case *ast.TypeSwitchStmt:
			skip[b.Body] = true
		case *ast.SelectStmt:
			skip[b.Body] = true
		case *ast.BlockStmt:
			if !skip[b] {
				b.List = fix(b.List)
			}
		case *ast.CaseClause:
			b.Body = fix(b.Body)
		case *ast.CommClause:
			b.Body = fix(b.Body)
		}
		return true
	})
}

func (r *rewriter) fixImports(f *ast.File) {
	if r.needVsim {
		astutil.AddNamedImport(r.fset, f, "vsim", vsimPath)
	}
	if r.needEnv {
		astutil.AddNamedImport(r.fset, f, "vsimenv", vsimenvPth)
	}
	// drop imports that are no longer used
	for _, imp := range append([]*ast.ImportSpec{}, f.Imports...) {
		path, _ := strconv.Unquote(imp.Path.Value)
		if imp.Name != nil && (imp.Name.Name == "_" || imp.Name.Name == ".") {
			continue
		}
		if path == vsimPath || path == vsimenvPth {
			continue
		}
		if !usesImport(f, imp, path) {
			if imp.Name != nil {
				astutil.DeleteNamedImport(r.fset, f, imp.Name.Name, path)
			} else {
				astutil.DeleteImport(r.fset, f, path)
			}
		}
	}
}

func usesImport(f *ast.File, imp *ast.ImportSpec, path string) bool {
	name := ""
	if imp.Name != nil {
		name = imp.Name.Name
	}
	used := false
	ast.Inspect(f, func(n ast.Node) bool {
		se, ok := n.(*ast.SelectorExpr)
		if !ok {
			return true
		}
		id, ok := se.X.(*ast.Ident)
		if !ok {
			return true
		}
		if name != "" {
			if id.Name == name {
				used = true
			}
			return true
		}
		// unnamed import: the package name is the last path element or
		// something else; be conservative: compare with known names
		for _, cand := range pkgNames(path) {
			if id.Name == cand {
				used = true
			}
		}
		return true
	})
	return used
}

var pkgNameCache = map[string]string{}

func pkgNames(path string) []string {
	if n, ok := pkgNameCache[path]; ok {
		return []string{n}
	}
	base := path[strings.LastIndex(path, "/")+1:]
	return []string{base, strings.TrimPrefix(base, "go-"), strings.ReplaceAll(base, "-", "_")}
}

// ---- reset of package-level variables between simulated process incarnations
//
// One OS process plays many incarnations of the agent; a real restart would
// re-initialise every package-level variable. For package pfcpiface a function is
// generated that re-assigns each package-level variable whose initialiser can be
// evaluated again without side effects (literals, composite literals, make/new,
// conversions) or that has none (zero value). Variables an init() function refers
// to, function-valued variables and everything initialised by a call (flag.String,
// errors.New, ...) are left alone.

func safeInit(e ast.Expr) bool {
	switch x := e.(type) {
	case nil:
		return true
	case *ast.BasicLit, *ast.Ident:
		return true
	case *ast.SelectorExpr:
		_, ok := x.X.(*ast.Ident)
		return ok
	case *ast.ParenExpr:
		return safeInit(x.X)
	case *ast.StarExpr:
		return safeInit(x.X)
	case *ast.UnaryExpr:
		return x.Op != token.ARROW && safeInit(x.X)
	case *ast.BinaryExpr:
		return safeInit(x.X) && safeInit(x.Y)
	case *ast.KeyValueExpr:
		return safeInit(x.Key) && safeInit(x.Value)
	case *ast.CompositeLit:
		for _, el := range x.Elts {
			if !safeInit(el) {
				return false
			}
		}
		return true
	case *ast.ArrayType, *ast.MapType, *ast.ChanType, *ast.StructType, *ast.InterfaceType:
		return true
	case *ast.CallExpr:
		id, ok := x.Fun.(*ast.Ident)
		if !ok {
			return false
		}
		switch id.Name {
		case "make", "new", "len", "cap", "string", "byte", "rune", "int", "int8", "int16", "int32", "int64",
			"uint", "uint8", "uint16", "uint32", "uint64", "float32", "float64", "bool":
			for _, a := range x.Args {
				if !safeInit(a) {
					return false
				}
			}
			return true
		}
		return false
	}
	return false
}

// resetStmts returns the source of the re-assignments for the resettable
// package-level variables of f (after rewriting), skipping names in skip.
func resetStmts(fset *token.FileSet, f *ast.File, skip map[string]bool) []string {
	var out []string
	show := func(n ast.Node) string {
		var b bytes.Buffer
		printer.Fprint(&b, fset, n)
		return b.String()
	}
	for _, d := range f.Decls {
		gd, ok := d.(*ast.GenDecl)
		if !ok || gd.Tok != token.VAR {
			continue
		}
		for _, sp := range gd.Specs {
			vs := sp.(*ast.ValueSpec)
			if len(vs.Values) != 0 && len(vs.Values) != len(vs.Names) {
				continue
			}
			for i, nm := range vs.Names {
				if nm.Name == "_" || skip[nm.Name] {
					continue
				}
				if len(vs.Values) == 0 {
					if vs.Type == nil {
						continue
					}
					if _, isFunc := vs.Type.(*ast.FuncType); isFunc {
						continue
					}
					out = append(out, fmt.Sprintf("%s = *new(%s)", nm.Name, show(vs.Type)))
					continue
				}
				if !safeInit(vs.Values[i]) {
					continue
				}
				if vs.Type != nil {
					out = append(out, fmt.Sprintf("%s = (%s)(%s)", nm.Name, show(vs.Type), show(vs.Values[i])))
				} else {
					out = append(out, fmt.Sprintf("%s = %s", nm.Name, show(vs.Values[i])))
				}
			}
		}
	}
	return out
}

// initRefs: names an init() function of the package refers to.
func initRefs(files []*ast.File) map[string]bool {
	refs := map[string]bool{}
	for _, f := range files {
		for _, d := range f.Decls {
			fd, ok := d.(*ast.FuncDecl)
			if !ok || fd.Recv != nil || fd.Name.Name != "init" || fd.Body == nil {
				continue
			}
			ast.Inspect(fd.Body, func(n ast.Node) bool {
				if id, ok := n.(*ast.Ident); ok {
					refs[id.Name] = true
				}
				return true
			})
		}
	}
	return refs
}

func main() {
	root := flag.String("root", "", "module root of the scratch copy")
	sitesOut := flag.String("sites", "", "generated site table (Go file in package vsim)")
	flag.Parse()
	if *root == "" || *sitesOut == "" || flag.NArg() == 0 {
		fmt.Fprintln(os.Stderr, "usage: vinstr -root DIR -sites FILE pkg...")
		os.Exit(2)
	}
	abs, _ := filepath.Abs(*root)
	cfg := &packages.Config{
		Mode: packages.NeedName | packages.NeedFiles | packages.NeedCompiledGoFiles | packages.NeedSyntax | packages.NeedTypes | packages.NeedTypesInfo | packages.NeedImports | packages.NeedDeps,
		Dir:  abs,
		Env:  os.Environ(),
	}
	pkgs, err := packages.Load(cfg, flag.Args()...)
	if err != nil {
		fmt.Fprintln(os.Stderr, "vinstr: load:", err)
		os.Exit(2)
	}
	bad := false
	for _, p := range pkgs {
		for _, e := range p.Errors {
			fmt.Fprintln(os.Stderr, "vinstr: package error:", e)
			bad = true
		}
	}
	if bad {
		os.Exit(2)
	}
	// real package names of imports (for unnamed import use detection)
	for _, p := range pkgs {
		for path, ip := range p.Imports {
			pkgNameCache[path] = ip.Name
		}
	}
	sort.Slice(pkgs, func(i, j int) bool { return pkgs[i].PkgPath < pkgs[j].PkgPath })
	for _, p := range pkgs {
		skipReset := initRefs(p.Syntax)
		nReset := 0
		for i, f := range p.Syntax {
			name := p.CompiledGoFiles[i]
			if strings.HasSuffix(name, "_test.go") || strings.Contains(name, "zz_verif_") {
				continue
			}
			r := &rewriter{fset: p.Fset, info: p.TypesInfo, root: abs, file: f,
				skipRecv: map[*ast.UnaryExpr]bool{}, recv2: map[*ast.UnaryExpr]bool{},
				rangeKind: map[*ast.RangeStmt]string{}, constArg: map[ast.Expr]bool{}}
			// keep only comments up to the package clause (build constraints)
			var keep []*ast.CommentGroup
			for _, cg := range f.Comments {
				if cg.End() < f.Package {
					keep = append(keep, cg)
				}
			}
			f.Comments = keep
			f.Doc = nil
			ast.Inspect(f, func(n ast.Node) bool {
				switch d := n.(type) {
				case *ast.FuncDecl:
					d.Doc = nil
				case *ast.GenDecl:
					d.Doc = nil
				case *ast.Field:
					d.Doc, d.Comment = nil, nil
				case *ast.ValueSpec:
					d.Doc, d.Comment = nil, nil
				case *ast.TypeSpec:
					d.Doc, d.Comment = nil, nil
				case *ast.ImportSpec:
					d.Doc, d.Comment = nil, nil
				}
				return true
			})
			astutil.Apply(f, r.pre, r.post)
			r.insertP(f)
			if len(pendingHoist) != 0 {
				for ls := range pendingHoist {
					fail(p.Fset, ls.Pos(), "labelled statement outside a statement list")
				}
			}
			r.fixImports(f)
			var buf bytes.Buffer
			if err := format.Node(&buf, p.Fset, f); err != nil {
				fmt.Fprintf(os.Stderr, "vinstr: print %s: %v\n", name, err)
				buf.Reset()
				printer.Fprint(&buf, p.Fset, f)
				os.WriteFile(name+".broken", buf.Bytes(), 0o644)
				os.Exit(2)
			}
			if p.Name == "pfcpiface" {
				if st := resetStmts(p.Fset, f, skipReset); len(st) > 0 {
					fmt.Fprintf(&buf, "\nfunc verifResetGlobals%d() {\n\t%s\n}\n", nReset, strings.Join(st, "\n\t"))
					nReset++
				}
			}
			if err := os.WriteFile(name, buf.Bytes(), 0o644); err != nil {
				fmt.Fprintln(os.Stderr, "vinstr:", err)
				os.Exit(2)
			}
		}
		if p.Name == "pfcpiface" && len(p.CompiledGoFiles) > 0 {
			var gb strings.Builder
			gb.WriteString("// Code generated by vinstr. DO NOT EDIT.\n\npackage pfcpiface\n\nfunc init() {\n\tverifResetGenerated = func() {\n")
			for k := 0; k < nReset; k++ {
				fmt.Fprintf(&gb, "\t\tverifResetGlobals%d()\n", k)
			}
			gb.WriteString("\t}\n}\n")
			gen := filepath.Join(filepath.Dir(p.CompiledGoFiles[0]), "zz_verif_globals_gen.go")
			if err := os.WriteFile(gen, []byte(gb.String()), 0o644); err != nil {
				fmt.Fprintln(os.Stderr, "vinstr:", err)
				os.Exit(2)
			}
		}
	}
	if len(errs) > 0 {
		for _, e := range errs {
			fmt.Fprintln(os.Stderr, "vinstr:", e)
		}
		os.Exit(2)
	}
	var sb strings.Builder
	sb.WriteString("// Code generated by vinstr. DO NOT EDIT.\n\npackage vsim\n\nfunc init() {\n\tsiteTable = []string{\n")
	for _, s := range sites {
		fmt.Fprintf(&sb, "\t\t%q,\n", s)
	}
	sb.WriteString("\t}\n}\n")
	if err := os.WriteFile(*sitesOut, []byte(sb.String()), 0o644); err != nil {
		fmt.Fprintln(os.Stderr, "vinstr:", err)
		os.Exit(2)
	}
	fmt.Printf("vinstr: %d packages, %d sites\n", len(pkgs), len(sites))
}
