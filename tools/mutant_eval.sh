#!/bin/bash
# mutant_eval.sh <prop> <worktree> <diff> [tier] [secs]: runs /verif's check for <prop>
# against the scratch worktree with the seeded change applied (never touches /repo).
PROP=$1; WT=$2; DIFF=$3; TIER=${4:-quick}; SECS=${5:-120}
OUT=/tmp/mutout/$(basename $WT)-$(basename $DIFF .diff)-$PROP
mkdir -p $OUT; cp /verif/known_findings.jsonl $OUT/
cd $WT && git checkout -q -- . && git apply $DIFF || { echo "cannot apply"; exit 2; }
cd /verif
if [ "$PROP" = C20 ]; then
  VERIF_KNOWN_FINDINGS=$OUT/known_findings.jsonl python3 routesim/check_c20.py --tier $TIER --module-path $WT/conf/route_control.py > $OUT/out.txt 2>&1; RC=$?
else
  D=$(VERIF_REPO=$WT ./build.sh both 2>$OUT/build.log | tail -1) || { echo "build failed"; cd $WT; git checkout -q -- .; exit 2; }
  VERIF_DIR=$OUT VERIF_THOROUGH_SECS=$SECS $D/upfsim check -prop $PROP -tier $TIER > $OUT/out.txt 2>&1; RC=$?
fi
cd $WT && git checkout -q -- .
echo "EVAL $(basename $WT) $(basename $DIFF) $PROP $TIER exit=$RC $(grep -c '^VIOLATION' $OUT/out.txt) violation line(s): $(grep -m2 'signature:' $OUT/out.txt | tr '\n' ' ' | cut -c1-200)"
