#!/bin/bash
# mutant_verify.sh <worktree> <n>: confirms a seeded change in its scratch worktree:
# (1) original: demonstration passes; (2) with the diff: build ok, existing suite passes, demonstration fails.
WT=$1; N=$2
export GOFLAGS=-mod=mod GOPROXY=off
mkdir -p /tmp/mutverify
cd $WT || exit 2
git checkout -q -- . ; find . -name 'zz_demo_*_test.go' -delete
L=/tmp/mutverify/$(basename $WT)-m$N
PY=$(ls _mutants/m${N}_demo*.py 2>/dev/null | head -1)
DEMO=$(ls _mutants/m${N}_demo*_test.go 2>/dev/null | head -1)
if [ -n "$PY" ]; then
  python3 $PY > $L-orig.log 2>&1; ORIG=$?
  git apply _mutants/m$N.diff || { echo "diff does not apply"; git checkout -q -- .; exit 2; }
  python3 -m py_compile conf/route_control.py > $L-build.log 2>&1; BUILD=$?
  python3 $PY > $L-mut.log 2>&1; MUT=$?
  SUITE=0
  git checkout -q -- .
  echo "demo script: $PY"
else
  [ -z "$DEMO" ] && { echo "no demo"; exit 2; }
  PKGNAME=$(grep -m1 '^package ' $DEMO | awk '{print $2}')
  case $PKGNAME in
    pfcpiface) DIR=pfcpiface;; metrics) DIR=pfcpiface/metrics;; main) DIR=cmd/p4info_code_gen;; utils) DIR=pkg/utils;; p4constants) DIR=internal/p4constants;; logger) DIR=logger;;
    *) DIR=$(grep -rl "^package $PKGNAME\$" --include=*.go . | grep -v _mutants | head -1 | xargs dirname);;
  esac
  cp $DEMO $DIR/zz_demo_${N}_test.go
  TESTS=$(grep -o '^func Test[A-Za-z0-9_]*' $DIR/zz_demo_${N}_test.go | sed 's/func //' | paste -sd'|')
  echo "demo tests ($DIR): $TESTS"
  go test -vet=off -count=1 -run "^($TESTS)\$" ./$DIR/ > $L-orig.log 2>&1; ORIG=$?
  git apply _mutants/m$N.diff || { echo "diff does not apply"; git checkout -q -- .; find . -name 'zz_demo_*_test.go' -delete; exit 2; }
  go build ./... > $L-build.log 2>&1; BUILD=$?
  go test -vet=off -count=1 -run "^($TESTS)\$" ./$DIR/ > $L-mut.log 2>&1; MUT=$?
  find . -name 'zz_demo_*_test.go' -delete
  go test -vet=off -count=1 ./pfcpiface/... ./pkg/... ./cmd/... ./internal/... ./logger/... > $L-suite.log 2>&1; SUITE=$?
  git checkout -q -- .
fi
echo "RESULT $(basename $WT) m$N demo_on_original=$ORIG build=$BUILD demo_with_change=$MUT suite_with_change=$SUITE" | tee -a /tmp/mutverify/ALL.txt
