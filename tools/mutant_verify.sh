#!/bin/bash
# mutant_verify.sh <worktree> <n>: confirms a seeded change in its scratch worktree:
# (1) original: demo passes; (2) with the diff: build ok, existing suite passes, demo fails.
WT=$1; N=$2
export GOFLAGS=-mod=mod GOPROXY=off
cd $WT || exit 2
git checkout -q -- . ; rm -f pfcpiface/zz_demo_*_test.go
DEMO=$(ls _mutants/m${N}_demo*_test.go 2>/dev/null | head -1)
[ -z "$DEMO" ] && { echo "no demo"; exit 2; }
cp $DEMO pfcpiface/zz_demo_${N}_test.go
TESTS=$(grep -o '^func Test[A-Za-z0-9_]*' pfcpiface/zz_demo_${N}_test.go | sed 's/func //' | paste -sd'|')
echo "demo tests: $TESTS"
go test -vet=off -count=1 -run "^($TESTS)\$" ./pfcpiface/ > /tmp/mutverify/$(basename $WT)-m$N-orig.log 2>&1; ORIG=$?
git apply _mutants/m$N.diff || { echo "diff does not apply"; git checkout -q -- .; rm -f pfcpiface/zz_demo_*_test.go; exit 2; }
go build ./... > /tmp/mutverify/$(basename $WT)-m$N-build.log 2>&1; BUILD=$?
go test -vet=off -count=1 -run "^($TESTS)\$" ./pfcpiface/ > /tmp/mutverify/$(basename $WT)-m$N-mut.log 2>&1; MUT=$?
rm -f pfcpiface/zz_demo_*_test.go
go test -vet=off -count=1 ./pfcpiface/... ./pkg/... ./cmd/... > /tmp/mutverify/$(basename $WT)-m$N-suite.log 2>&1; SUITE=$?
git checkout -q -- .
echo "RESULT $(basename $WT) m$N demo_on_original=$ORIG build=$BUILD demo_with_change=$MUT suite_with_change=$SUITE"
