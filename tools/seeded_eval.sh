#!/bin/bash
# seeded_eval.sh <seeded-id> [tier] [secs] [PROP]: runs /verif's check against a scratch worktree of /repo
# (at /repo's HEAD) with the seeded change applied; never touches /repo. Records the outcome in
# /verif/seeded/<id>/meta.json under "checks". The worktree /tmp/wt-eval is reused; remove it with
#   git -C /repo worktree remove --force /tmp/wt-eval
ID=$1; TIER=${2:-quick}; SECS=${3:-120}
S=/verif/seeded/$ID
PROP=${4:-$(jq -r .property $S/meta.json)}
WT=${EVAL_WT:-/tmp/wt-eval}
OUT=/tmp/mutout/$ID-$PROP
[ -d $WT ] || git -C /repo worktree add -q --detach $WT HEAD || exit 2
ON=$(git -C /repo rev-parse HEAD)
git -C $WT checkout -q --detach $ON && git -C $WT reset -q --hard && git -C $WT clean -qfd || exit 2
if [ -f $S/patch.rebased.diff ] && git -C $WT apply $S/patch.rebased.diff 2>/dev/null; then
  : # the same change carried over a later fix: commit that touched the same lines
elif ! git -C $WT apply $S/patch.diff 2>/dev/null; then
  # /repo has moved on under the patch (a later fix: commit touches the same lines): evaluate on the commit the change was written against
  ON=$(jq -r .base_commit $S/meta.json)
  git -C $WT checkout -q --detach $ON && git -C $WT reset -q --hard && git -C $WT clean -qfd && git -C $WT apply $S/patch.diff || { echo "EVAL $ID: patch applies neither to HEAD nor to its base"; exit 2; }
  echo "EVAL $ID: patch does not apply to HEAD any more; evaluated on its base commit $ON (violations of defects repaired after that commit may appear too)"
fi
rm -rf $OUT; mkdir -p $OUT; cp /verif/known_findings.jsonl $OUT/
cd /verif
if [ "$PROP" = C20 ]; then
  mkdir -p $OUT/replays $OUT/evidence
  VERIF_DIR=$OUT VERIF_KNOWN_FINDINGS=$OUT/known_findings.jsonl python3 routesim/check_c20.py --tier $TIER --module-path $WT/conf/route_control.py > $OUT/out.txt 2>&1; RC=$?
elif [ "$PROP" = C16 ]; then
  ST=$(VERIF_REPO=$WT tools/c16static.sh 2>>$OUT/build.log)
  D=$(VERIF_REPO=$WT ./build.sh plain 2>>$OUT/build.log | tail -1) || { echo "EVAL $ID: build failed (see $OUT/build.log)"; exit 2; }
  VERIF_DIR=$OUT VERIF_THOROUGH_SECS=$SECS $D/upfsim check -prop $PROP -tier $TIER > $OUT/out.txt 2>&1; RC=$?
  case "$ST" in STATIC-MISMATCH*) echo "VIOLATION property=C16 replay=static" >> $OUT/out.txt; echo "  signature: generated-constants-differ-from-p4info" >> $OUT/out.txt; [ $RC -eq 2 ] || RC=1;; esac
else
  D=$(VERIF_REPO=$WT ./build.sh both 2>$OUT/build.log | tail -1) || { echo "EVAL $ID: build failed (see $OUT/build.log)"; exit 2; }
  VERIF_DIR=$OUT VERIF_THOROUGH_SECS=$SECS $D/upfsim check -prop $PROP -tier $TIER > $OUT/out.txt 2>&1; RC=$?
fi
git -C $WT reset -q --hard; git -C $WT clean -qfd
SIGS=$(grep 'signature[:=]' $OUT/out.txt | sed 's/^ *signature[:=] *//' | head -8 | jq -R . | jq -sc .)
ON=$ON python3 - "$S/meta.json" "$PROP" "$TIER" "$RC" "$SIGS" <<'PY'
import json,sys
p,prop,tier,rc,sigs=sys.argv[1:6]
import os
m=json.load(open(p)); m.setdefault('checks',{}).setdefault(prop,{})[tier]={'exit':int(rc),'detected':int(rc)==1,'signatures':json.loads(sigs or '[]'),'evaluated_on':os.environ.get('ON','')[:7]}
json.dump(m,open(p,'w'),indent=1)
PY
echo "EVAL $ID $PROP $TIER exit=$RC $(grep -c '^VIOLATION' $OUT/out.txt) violation line(s): $(echo $SIGS | cut -c1-260)"
