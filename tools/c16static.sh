#!/bin/bash
# Static sub-claim of C16: the generator is deterministic and the committed
# constants are exactly what it derives from the shipped P4Info.
# Prints "STATIC-OK" or "STATIC-MISMATCH <file>"; exit 2 on tool trouble.
set -u
export GOFLAGS=-mod=mod GOPROXY=off; unset GOTOOLCHAIN GOSUMDB   # the repo picks its own toolchain
T=$(mktemp -d /tmp/c16static.XXXXXX); trap 'rm -rf "$T"' EXIT
cd "${VERIF_REPO:-/repo}" || exit 2
go run ./cmd/p4info_code_gen -p4info conf/p4/bin/p4info.txt -output $T/a.go >/dev/null 2>$T/err || { cat $T/err >&2; exit 2; }
go run ./cmd/p4info_code_gen -p4info conf/p4/bin/p4info.txt -output $T/b.go >/dev/null 2>$T/err || { cat $T/err >&2; exit 2; }
gofmt -w $T/a.go $T/b.go
if ! cmp -s $T/a.go $T/b.go; then
  mkdir -p /verif/replays; diff -u $T/a.go $T/b.go > /verif/replays/C16-static-nondeterministic.diff
  echo "STATIC-MISMATCH /verif/replays/C16-static-nondeterministic.diff"; exit 0
fi
# the committed file carries a licence header the generator may or may not emit: compare from the package clause on
sed -n '/^package /,$p' $T/a.go > $T/a.body; sed -n '/^package /,$p' internal/p4constants/p4constants.go > $T/c.body
if ! cmp -s $T/a.body $T/c.body; then
  mkdir -p /verif/replays; diff -u $T/c.body $T/a.body > /verif/replays/C16-static-constants.diff
  echo "STATIC-MISMATCH /verif/replays/C16-static-constants.diff"; exit 0
fi
echo "STATIC-OK"
